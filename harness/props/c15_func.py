"""C15 -- function-level correspondence: one function of pybtex/bibtex/bst.py / pybtex/scanner.py per op, driven on the same
inputs as its Lean counterpart (ops bstscan, bstgroup, bstlit, bstlines, bstconst of Drv/C15.lean)."""
import io
import itertools
import sys

import compat  # noqa: F401

FUNCTION_OPS = ('bstscan', 'bstgroup', 'bstlit', 'bstlines', 'bstconst')


def _scanner(text, pos, lineno):
    from pybtex.bibtex.bst import BstParser
    p = BstParser(text)
    p.pos = pos
    p.lineno = lineno
    return p


def _pats(which):
    from pybtex.bibtex.bst import BstParser as B
    if which == 'group':      # the list of parse_group
        return [B.NAME, B.STRING, B.INTEGER, B.LBRACE, B.RBRACE], None, False
    if which == 'command':    # parse_command
        return [B.NAME], 'BST command', True
    if which == 'lbrace':
        return [B.LBRACE], None, False
    raise ValueError(which)


def _guard(err_fields, thunk, after):
    from pybtex.scanner import PybtexSyntaxError
    try:
        return thunk()
    except EOFError:
        return dict({'error': {'err': 'EOFError'}}, **after())
    except PybtexSyntaxError as e:
        return dict({'error': err_fields(e)}, **after())
    except Exception as e:  # noqa
        return {'error': {'err': compat.pybtex_error_kind(e)}}


_API = None


def _api_ok():
    """The function-level ops call BstParser's methods and class attributes by name; a tree that has renamed or rebuilt them is
    not observable at this level (the ops are then left out of the comparison, the entry points still are compared)."""
    global _API
    if _API is None:
        try:
            from pybtex.bibtex import bst
            B = bst.BstParser
            _API = (isinstance(B, type)
                    and all(hasattr(B, n) for n in ('NAME', 'STRING', 'INTEGER', 'LBRACE', 'RBRACE', 'LITERAL_TYPES', 'required',
                                                    'eat_whitespace', 'update_lineno', 'parse_group', 'parse_command', 'pos', 'lineno'))
                    and isinstance(B.LITERAL_TYPES, dict) and all(p in B.LITERAL_TYPES for p in (B.NAME, B.STRING, B.INTEGER))
                    and all(hasattr(p, 'description') and hasattr(p, 'match') for p in (B.NAME, B.STRING, B.INTEGER, B.LBRACE, B.RBRACE)))
        except Exception:  # noqa
            _API = False
    return _API


def impl(case, err_fields, flat_toks):
    op = case['op']
    if op in ('bstscan', 'bstgroup', 'bstlit') and not _api_ok():
        return None
    if op == 'bstscan':
        which = case['which']
        if which == 'upd':
            p = _scanner('', 0, case['lineno'])
            p.update_lineno(case['text'])
            return {'lineno': p.lineno}
        p = _scanner(case['text'], case['pos'], case['lineno'])
        where = lambda: {'pos': p.pos, 'lineno': p.lineno}  # noqa: E731
        if which == 'ws':
            p.eat_whitespace()
            return where()
        pats, desc, eof = _pats(which)

        def run():
            tok = p.required(pats, desc, allow_eof=eof)
            return dict({'tok': [tok.pattern.description, tok.value]}, **where())
        return _guard(err_fields, run, where)
    if op == 'bstgroup':
        p = _scanner(case['text'], case['pos'], case['lineno'])
        where = lambda: {'pos': p.pos, 'lineno': p.lineno}  # noqa: E731

        def run():
            if case['which'] == 'group':
                return dict({'toks': flat_toks(list(p.parse_group()))[0]}, **where())
            c = list(p.parse_command())
            return dict({'cmd': [{'c': c[0], 'g': [flat_toks(g)[0] for g in c[1:]]}]}, **where())
        return _guard(err_fields, run, lambda: {})
    if op == 'bstlit':
        from pybtex.bibtex.bst import BstParser as B
        pat = {'string': B.STRING, 'integer': B.INTEGER, 'name': B.NAME}[case['kind']]
        try:
            return flat_toks([B.LITERAL_TYPES[pat](case['value'])])[0]
        except ValueError:
            return {'err': 'ValueError'}
        except Exception as e:  # noqa
            return {'err': compat.pybtex_error_kind(e)}
    if op == 'bstlines':
        return lines_impl(case['src'])
    if op == 'bstconst':
        return const_impl()
    raise ValueError(op)


def _captured_text(call):
    """The text an entry point hands to BstParser (a private detail: None when the tree under test does not go through a
    module-level class named BstParser with the text as its first argument)."""
    from pybtex.bibtex import bst
    orig = getattr(bst, 'BstParser', None)
    if not isinstance(orig, type):
        return None
    seen = []

    class Recording(orig):
        def __init__(self, text, *a, **k):
            seen.append(text)
            orig.__init__(self, text, *a, **k)
    bst.BstParser = Recording
    try:
        try:
            r = call(bst)
            if r is not None and not isinstance(r, list):
                for _ in r:
                    break
        except Exception:  # noqa
            pass
    finally:
        bst.BstParser = orig
    return seen[0] if len(seen) == 1 and isinstance(seen[0], str) else None


def lines_impl(src, tmp=None):
    import props.c15 as main
    path = main._tmpfile()
    with open(path, 'w', encoding='utf-8', newline='') as f:
        f.write(src)
    import pybtex.io
    with pybtex.io.open_unicode(path, encoding='utf-8') as f:
        file_lines = list(f)
    stream_lines = list(io.StringIO(src))
    # the text each entry point hands to BstParser is a local variable of the code: observed (for localising a break of the
    # entry points) but compared only modulo what cannot matter to the parser -- see reconcile
    return {'splitlines': src.splitlines(), 'stream': stream_lines, 'file': file_lines,
            'rstrip': [l.rstrip() for l in stream_lines],
            'text_string': _captured_text(lambda bst: bst.parse_string(src)),
            'text_stream': _captured_text(lambda bst: bst.parse_stream(io.StringIO(src))),
            'text_file': _captured_text(lambda bst: bst.parse_file(path, encoding='utf-8'))}


_ALL = None


def _all_chars():
    global _ALL
    if _ALL is None:
        _ALL = [chr(n) for n in range(0x110000) if not 0xD800 <= n <= 0xDFFF]
    return _ALL


def const_impl():
    """The character classes of the compiled token patterns, over ALL code points, and the fixed texts."""
    from pybtex.bibtex import bst
    from pybtex.scanner import Scanner, PybtexSyntaxError
    import inspect
    out = {}
    try:
        B = bst.BstParser
        name, string, integer, ws = B.NAME.match, B.STRING.match, B.INTEGER.match, Scanner.WHITESPACE.match
        chars = _all_chars()
        out['not_name'] = [ord(c) for c in chars if not name(c)]
        out['digit'] = [ord(c) for c in chars if integer('#' + c)]
        out['ws'] = [ord(c) for c in chars if ws(c)]
        out['linesep'] = [ord(c) for c in chars if len(('a' + c + 'b').splitlines()) == 2]
        out['not_string_body'] = [ord(c) for c in chars if not (string('"' + c + '"') and string('"' + c + '"').end() == 3)]
        pats = [B.NAME, B.STRING, B.INTEGER, B.LBRACE, B.RBRACE]
        out['descriptions'] = [p.description for p in pats]
        out['group_expected'] = ' or '.join(p.description for p in pats)
        out['error_type'] = PybtexSyntaxError.error_type
        out['stream_filename'] = inspect.signature(bst.parse_stream).parameters['filename'].default
        out['ascii_upper'] = ''.join(map(chr, range(0x250))).translate(B.ASCII_UPPER)
    except Exception:  # noqa   private names of the tree under test: not observable, dropped from the comparison (reconcile)
        return None
    return out


def reconcile(case, view, mo):
    """Observations of private details (the text handed to BstParser, class attributes of BstParser) that the tree under test
    does not expose are dropped from both sides."""
    if view is None and case.get('op') in FUNCTION_OPS:
        return None, None
    if case.get('op') == 'bstlines' and isinstance(view, dict) and isinstance(mo, dict):
        # private intermediate value: informative in a replay, never compared (a harmless change of it is no alarm)
        drop = ['text_string', 'text_stream', 'text_file']
        if drop:
            view = {k: v for k, v in view.items() if k not in drop}
            mo = {k: v for k, v in mo.items() if k not in drop}
    return view, mo


# ------------------------------------------------------------------------------------------------
# generators

SCAN_ALPHABET = ['a', '#', '-', '1', '"', '{', '}', ' ', '\n', '\r']
PIECES = ['a', '#1', '"s"', '{', '}', ' ', '\n', "'q", '#', '"', 'READ', 'function']
LINE_ALPHABET = ['a', ' ', '\n', '\r', '\x0b', '\x85', '%', '"', ' ', '\x1c']


def _texts(alphabet, maxlen):
    for n in range(maxlen + 1):
        for t in itertools.product(alphabet, repeat=n):
            yield ''.join(t)


def gen(tier, rng, info, rand_raw, rand_name, str_chars):
    q = tier == 'quick'
    cases = []
    # Scanner.eat_whitespace / required with the three pattern lists of bst.py: all short texts from the start
    n = 0
    for t in _texts(SCAN_ALPHABET, 3):
        for which in ('group', 'command', 'lbrace', 'ws'):
            n += 1
            cases.append({'op': 'bstscan', 'which': which, 'text': t, 'pos': 0, 'lineno': 1})
    for t in _texts(['\n', '\r', 'a'], 5 if q else 7):
        cases.append({'op': 'bstscan', 'which': 'upd', 'text': t, 'pos': 0, 'lineno': 3})
    extra = ['\x0b', '\x85', '　', '٣', 'ſ', '9', '0', 'Z', '%', "'", '\t', '\x0c', '\r\n', '#-7', '"%"', ' ']
    for _ in range(800 if q else 20000):
        t = ''.join(rng.choice(SCAN_ALPHABET + extra) for _ in range(rng.randint(1, 12)))
        cases.append({'op': 'bstscan', 'which': rng.choice(['group', 'group', 'command', 'lbrace', 'ws', 'upd']), 'text': t,
                      'pos': rng.randint(0, len(t)), 'lineno': rng.randint(1, 9)})
    # parse_group / parse_command from any position
    for t in _texts(PIECES, 3 if q else 4):
        for which in ('group', 'command'):
            cases.append({'op': 'bstgroup', 'which': which, 'text': t, 'pos': 0, 'lineno': 1})
    for _ in range(600 if q else 12000):
        t = rand_raw(rng)
        cases.append({'op': 'bstgroup', 'which': rng.choice(['group', 'command']), 'text': t, 'pos': rng.randint(0, len(t)),
                      'lineno': rng.randint(1, 5)})
    # literal constructors on values of their patterns
    limit = sys.get_int_max_str_digits() if hasattr(sys, 'get_int_max_str_digits') else 4300
    digits = ['0', '7', '00', '007', '10', '12', '4300', '9' * 19, '1' + '0' * 25]
    digits += ['5' * k for k in ([limit - 1, limit, limit + 1] if limit else [5000])]
    digits += [''.join(rng.choice('0123456789') for _ in range(rng.randint(1, 40))) for _ in range(60 if q else 2000)]
    for d in digits:
        for sign in ('', '-'):
            cases.append({'op': 'bstlit', 'kind': 'integer', 'value': '#' + sign + d})
    uni = ['é', 'ſ', '٣', '\U0001d7d1', '　', '\n', '\r', '#', '{', '}', '%', "'"]
    for _ in range(150 if q else 5000):
        body = ''.join(rng.choice(list(str_chars) + uni) for _ in range(rng.randint(0, 8)))
        cases.append({'op': 'bstlit', 'kind': 'string', 'value': '"' + body + '"'})
    names = ["'", "''", "'a", "a'", "'#".replace('#', '$'), 'a', ':=', "'é", 'ſort', 'READ']
    for _ in range(150 if q else 5000):
        names.append(rng.choice(['', "'", "''"]) + rand_name(rng) + rng.choice(['', 'é', '%', "'"]))
    for v in names:
        cases.append({'op': 'bstlit', 'kind': 'name', 'value': v})
    # line conventions and the text each entry point hands to the parser
    for t in _texts(LINE_ALPHABET, 3):
        cases.append({'op': 'bstlines', 'src': t})
    for _ in range(150 if q else 4000):
        t = ''.join(rng.choice(LINE_ALPHABET + ['x %c', '"a%', '\r\n', ' \n', '\t', '　', '\x1d', '\x1e', '\x0c', ' ', '\xa0'])
                    for _ in range(rng.randint(1, 10)))
        cases.append({'op': 'bstlines', 'src': t})
    cases.append({'op': 'bstconst'})
    info['scope'] = info.get('scope', '') + (
        '; function level: eat_whitespace and required([NAME,STRING,INTEGER,LBRACE,RBRACE]) / required([NAME],"BST command",'
        'allow_eof) / required([LBRACE]) on ALL texts of length <= %d over %r from the start + random texts from any position and '
        'line; update_lineno on all texts of length <= %d over CR, LF, a; parse_group and parse_command on all sequences of <= %d '
        'pieces of %r + random raw text from any position; process_int_literal / process_string_literal / process_identifier on '
        'values of their patterns (integers of up to %d digits); splitlines / stream lines / universal-newline lines / rstrip and '
        'the text each entry point hands to BstParser on all texts of length <= %d over %r; the character classes of NAME, '
        'INTEGER, STRING, WHITESPACE and str.splitlines over ALL code points' % (
            3, SCAN_ALPHABET, 5 if q else 7, 3 if q else 4, PIECES, (limit or 4999) + 1, 3, LINE_ALPHABET))
    return cases
