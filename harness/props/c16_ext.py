"""C16, extension: function-level ops.

errfilename  `PybtexError(msg, filename=f)` for f = None / str / ANY byte string: get_filename() (the byte branch =
             pybtex.io._decode_filename(f, errors='replace')), format_error, and str.encode('utf-8') -- against
             Model/ErrorsBytes.lean (getFilenameB, formatErrorB, decodeUtf8Replace, utf8Encode);
errprim      the string primitives the rendering model is built from, each against the real thing:
             str.splitlines(keepends) / repr(str) / str.rstrip('\\r\\n') / str.endswith('\\n') / Scanner.NEWLINE.search(text, pos).end() /
             Scanner.get_error_context / LowLevelParser.get_error_context (out-of-range parser states included: the
             IndexError points of the model are compared too).
"""
import itertools

import compat  # noqa: F401


def _fail(x):
    return {'fail': type(x).__name__}


# ----------------------------------------------------------------------------------------------
# implementation side
# ----------------------------------------------------------------------------------------------

def filename_of(fn):
    if fn is None:
        return None
    if 's' in fn:
        return fn['s']
    return bytes(fn['b'])


def run_filename(case):
    from pybtex.exceptions import PybtexError
    from pybtex import errors
    import pybtex.io
    f = filename_of(case['fn'])
    try:
        e = PybtexError(case['msg'], filename=f)
    except BaseException as x:  # noqa
        return {'construct': compat.pybtex_error_kind(x)}

    def call(g):
        try:
            return g()
        except BaseException as x:  # noqa
            return {'fail': compat.pybtex_error_kind(x)}
    return {'filename': call(e.get_filename),
            'format': call(lambda: errors.format_error(e, case['prefix'])),
            'decode': call(lambda: pybtex.io._decode_filename(f, errors='replace')) if isinstance(f, bytes) else None,
            'encode': list(f.encode('utf-8')) if isinstance(f, str) else None}


def run_eq(case, build_error):
    """PybtexError.__eq__ / __hash__ on real exception objects"""
    a = build_error(case['a'])[0]
    other = build_error(case['b'])[0] if case.get('b') is not None else case['text']
    try:
        return {'eq': a == other, 'ne': a != other, 'hash_is_str_hash': hash(a) == hash(str(a))}
    except BaseException as x:  # noqa
        return {'fail': compat.pybtex_error_kind(x)}


def run_prim(case):
    f, s = case['f'], case['s']
    try:
        if f == 'splitlines':
            return s.splitlines(case['keep'])
        if f == 'repr':
            return repr(s)
        if f == 'rstrip':
            return s.rstrip('\r\n')
        if f == 'endswith_nl':
            return s.endswith('\n')
        if f == 'newline':
            from pybtex.database.input.bibtex import LowLevelParser
            m = LowLevelParser.NEWLINE.search(s, case['pos'])
            return m.end() if m else None
        if f == 'scanner_ctx':
            from pybtex.scanner import Scanner
            ctx, ln, col = Scanner(s).get_error_context((case['lineno'], case['pos']))
            return None if ctx is None else [ctx, col]
        if f == 'lowlevel_ctx':
            from pybtex.database.input.bibtex import LowLevelParser
            ctx, ln, col = LowLevelParser(s).get_error_context((case['start'], 1, case['pos']))
            return [ctx, col]
    except Exception as x:  # noqa -- the IndexError points are part of what is compared
        return _fail(x)
    raise ValueError(f)


# ----------------------------------------------------------------------------------------------
# oracle (clauses of the property text only)
# ----------------------------------------------------------------------------------------------

def oracle_filename(case, out, spec):
    fails = []
    what = 'PybtexError with filename=%r' % (filename_of(case['fn']),)
    if 'construct' in out:
        return ['render_total: %s: the constructor raised %s' % (what, out['construct'])]
    bad = [k for k in ('filename', 'format') if isinstance(out[k], dict)]
    if bad:
        return ['render_total: %s: %s raised %r' % (what, '/'.join(bad), [out[k]['fail'] for k in bad])]
    fn, text = out['filename'], out['format']
    if fn is not None and not isinstance(fn, str):
        fails.append('render_total: %s: get_filename() returned %r, not text' % (what, fn))
        return fails
    f = filename_of(case['fn'])
    if f and not fn:
        fails.append('render_shape: %s: the error has a file name but get_filename() gives %r' % (what, fn))
    if isinstance(f, str) and fn != f:
        fails.append('render_shape: %s: get_filename() gives %r' % (what, fn))
    want = case['prefix'] + case['msg']
    if fn:
        want = '%s: %s' % (fn, want)
    if text != want:
        fails.append('render_shape: %s: format_error is %r but prefix + message (+ file name) give %r' % (what, text, want))
    return fails


# ----------------------------------------------------------------------------------------------
# generators
# ----------------------------------------------------------------------------------------------

# every boundary of the UTF-8 byte classes: ASCII, continuation bytes (with the cut points 8F/90, 9F/A0 of the restricted second
# bytes), over-long leads C0 C1, two-byte leads, E0 / ED (restricted), other three-byte leads, F0 / F4 (restricted), F5.. (never valid)
BYTES_FULL = [0x00, 0x61, 0x7F, 0x80, 0x8F, 0x90, 0x9F, 0xA0, 0xBF, 0xC0, 0xC1, 0xC2, 0xDF, 0xE0, 0xE1, 0xEC, 0xED, 0xEE, 0xEF,
              0xF0, 0xF1, 0xF3, 0xF4, 0xF5, 0xFF]
BYTES_MID = [0x61, 0x80, 0x8F, 0x90, 0x9F, 0xA0, 0xBF, 0xC2, 0xE0, 0xE1, 0xED, 0xF0, 0xF1, 0xF4]
BYTES_SMALL = [0x61, 0x80, 0x90, 0xA0, 0xBF, 0xE0, 0xED, 0xF0, 0xF4]

STR_NAMES = ['', 'a.bib', 'dir/\u00e4 b.aux', 'x: y', '\u07ff\u0800\uffff', '\ud7ff\ue000', '\U00010000\U0010ffff', '\u20ac\u2013 \x7f\x80',
             '\ufffd', 'a\nb']


def _fname(fn, msg='m', prefix='ERROR: '):
    return {'op': 'errfilename', 'fn': fn, 'msg': msg, 'prefix': prefix}


def _rand_bytes(rng):
    n = rng.randint(1, 10)
    out = []
    while len(out) < n:
        r = rng.random()
        if r < 0.45:      # a well-formed character, sometimes cut short / with a damaged byte
            cp = rng.choice([rng.randint(0, 0x7F), rng.randint(0x80, 0x7FF), rng.randint(0x800, 0xD7FF), rng.randint(0xE000, 0xFFFF),
                             rng.randint(0x10000, 0x10FFFF)])
            b = list(chr(cp).encode('utf-8'))
            if rng.random() < 0.3:
                b = b[:rng.randint(1, len(b))]
            if rng.random() < 0.2:
                b[rng.randrange(len(b))] = rng.choice(BYTES_FULL)
            out += b
        elif r < 0.8:
            out.append(rng.choice(BYTES_FULL))
        else:
            out.append(rng.randint(0, 255))
    return out


def _rand_name(rng):
    pools = [(0x20, 0x7E), (0x80, 0x7FF), (0x800, 0xD7FF), (0xE000, 0xFFFF), (0x10000, 0x10FFFF)]
    return ''.join(chr(rng.randint(*rng.choice(pools))) for _ in range(rng.randint(0, 8)))


def filename_cases(tier, rng):
    quick = tier == 'quick'
    cases = [_fname(None), _fname(None, 'two\nlines', 'WARNING: ')]
    for s in STR_NAMES:
        cases.append(_fname({'s': s}))
    cases.append(_fname({'b': []}))
    plan = [(BYTES_FULL, 2), (BYTES_MID, 3), (BYTES_SMALL, 4)] if quick else [(BYTES_FULL, 3), (BYTES_MID, 3), (BYTES_SMALL, 4)]
    seen = set()
    for alphabet, n in plan:
        for k in range(1, n + 1):
            for t in itertools.product(alphabet, repeat=k):
                if t not in seen:
                    seen.add(t)
                    cases.append(_fname({'b': list(t)}))
    n_exh = len(cases)
    for _ in range(1500 if quick else 10000):
        cases.append(_fname({'b': _rand_bytes(rng)}, rng.choice(['m', '', 'a\nb']), rng.choice(['ERROR: ', 'WARNING: ', ''])))
    for _ in range(300 if quick else 3000):
        cases.append(_fname({'s': _rand_name(rng)}))
    for _ in range(1200 if quick else 6000):      # well-formed byte names: the byte form of a text name
        cases.append(_fname({'b': list(_rand_name(rng).encode('utf-8'))}, rng.choice(['m', 'a\nb']), rng.choice(['ERROR: ', 'WARNING: '])))
    return cases, n_exh


def bytes_render_cases(tier, rng):
    """errrender with a BYTE file name that is not the encoding of a text name: every class that carries a file name"""
    names = [[0x61, 0xFF, 0x2E, 0x62, 0x69, 0x62], [0xE2, 0x82], [0xC3, 0xA9, 0x80], [0xED, 0xA0, 0x80, 0x78], [0xF0, 0x9F, 0x98, 0x80],
             [0x80], []]
    cases = []
    for fnb in names:
        for e in ({'cls': 'PybtexError', 'msg': 'm', 'filename': None},
                  {'cls': 'BibliographyDataError', 'msg': 'two\nlines', 'filename': None},
                  {'cls': 'PybtexSyntaxError', 'arg': 'bad', 'filename': None, 'lineno': 3},
                  {'cls': 'PrematureEOF', 'filename': None, 'lineno': 1},
                  {'cls': 'UnbalancedBraceError', 'arg': '{ff', 'filename': None, 'lineno': None},
                  {'cls': 'TokenRequired', 'description': "'='", 'filename': None,
                   'info': {'kind': 'lowLevel', 'text': '@article{k,\n  title x\n}\n', 'start': 0, 'lineno': 2, 'pos': 20}},
                  {'cls': 'TokenRequired', 'description': 'name', 'filename': None,
                   'info': {'kind': 'scanner', 'text': 'ENTRY {\n x', 'start': None, 'lineno': 2, 'pos': 9}},
                  {'cls': 'AuxDataError', 'msg': 'm', 'filename': None, 'lineno': 4, 'line': '\\bibstyle{x}'},
                  {'cls': 'DuplicateField', 'key': 'k', 'field': 'f'}):
            for prefix in ('ERROR: ', 'WARNING: '):
                cases.append({'op': 'errrender', 'prefix': prefix, 'e': e, 'fnb': fnb})
    for _ in range(200 if tier == 'quick' else 2000):
        e = rng.choice([{'cls': 'PybtexError', 'msg': 'm', 'filename': None},
                        {'cls': 'AuxDataError', 'msg': 'm', 'filename': None, 'lineno': rng.choice([None, 0, 5]), 'line': rng.choice([None, 'x y'])},
                        {'cls': 'UndefinedMacro', 'arg': 'jan', 'filename': None, 'lineno': 2}])
        cases.append({'op': 'errrender', 'prefix': 'ERROR: ', 'e': e, 'fnb': _rand_bytes(rng)})
    return cases


LINE_ALPHA = ['a', '\n', '\r', '\x0b', '\x0c', '\x1c', '\x1d', '\x1e', '\x1f', '\x85', '\u2028', '\u2029']


def _texts(alphabet, maxlen, minlen=0):
    for n in range(minlen, maxlen + 1):
        for t in itertools.product(alphabet, repeat=n):
            yield ''.join(t)


def _block(lo, hi):
    return [c for c in range(lo, hi) if not 0xD800 <= c <= 0xDFFF]


def prim_cases(tier, rng):
    quick = tier == 'quick'
    cases = []

    def prim(f, s, **kw):
        cases.append(dict({'op': 'errprim', 'f': f, 's': s}, **kw))
    # str.splitlines: every text over the separators; every code point of the BMP (+ a sample above) between two letters
    line_texts = list(_texts(LINE_ALPHA, 3))
    if not quick:
        line_texts += list(_texts(['a', '\n', '\r', '\x0c', '\x85', '\u2028'], 4, 4))
    for t in line_texts:
        prim('splitlines', t, keep=True)
        prim('splitlines', t, keep=False)
    step = 1024
    blocks = list(range(0, 0x110000, step))
    if quick:
        blocks = [b for b in blocks if b < 0x20000] + sorted(rng.sample([b for b in blocks if b >= 0x20000], 24)) + [0xE0000, 0x10FC00]
    for b in blocks:
        cps = _block(b, b + step)
        if not cps:
            continue
        prim('splitlines', ''.join('a' + chr(c) for c in cps), keep=bool((b // step) % 2))
        # repr: the escaping decision of every code point (the table regenerated from str.isprintable, end to end through repr)
        prim('repr', ''.join(chr(c) for c in cps))
    for t in _texts(["'", '"', '\\', 'a', '\n', '\x7f', '\xa0', '\u200b'], 3 if quick else 4):
        prim('repr', t)
    for t in _texts(['a', '\n', '\r', ' '], 4):
        prim('rstrip', t)
        prim('endswith_nl', t)
    for t in _texts(['a', '\n', '\r'], 4):
        for pos in range(0, len(t) + 2):
            prim('newline', t, pos=pos)
    # the two get_error_context functions on EVERY parser state over small texts, the impossible ones included
    alpha = ['a', '\n', '\r', '\x0c'] if quick else ['a', ' ', '\n', '\r', '\x0c', '\u2028']
    ctx_texts = list(_texts(alpha, 3))
    if not quick:
        ctx_texts += list(_texts(['a', '\n', '\r', '\x0c'], 4, 4))
    for t in ctx_texts:
        nl = len(t.splitlines(True))
        for lineno in [None] + list(range(0, nl + 2)):
            for pos in range(0, len(t) + 2):
                prim('scanner_ctx', t, lineno=lineno, pos=pos)
        for start in [None] + list(range(0, len(t) + 1)):
            for pos in range(0, len(t) + 2):
                prim('lowlevel_ctx', t, start=start, pos=pos)
    for _ in range(300 if quick else 5000):
        t = ''.join(rng.choice('ab \n\r\x0c\u2028{}=') for _ in range(rng.randint(0, 30)))
        nl = len(t.splitlines(True))
        prim('scanner_ctx', t, lineno=rng.choice([None, 0, nl + 1] + list(range(1, nl + 1))), pos=rng.randint(0, len(t) + 1))
        start = rng.choice([None, rng.randint(0, len(t))])
        prim('lowlevel_ctx', t, start=start, pos=rng.randint(0, len(t) + 1))
    return cases


EQ_POOL = [
    {'cls': 'PybtexError', 'msg': 'm', 'filename': None},
    {'cls': 'PybtexError', 'msg': 'm', 'filename': 'a.bib'},
    {'cls': 'BibliographyDataError', 'msg': 'm', 'filename': 'b.bib'},
    {'cls': 'BibTeXError', 'msg': 'M', 'filename': None},
    {'cls': 'ConvertError', 'msg': '', 'filename': None},
    {'cls': 'PybtexError', 'msg': 'in line 3: m', 'filename': 'b.bib'},
    {'cls': 'AuxDataError', 'msg': 'm', 'filename': 'a.aux', 'lineno': 3, 'line': 'xy'},
    {'cls': 'AuxDataError', 'msg': 'm', 'filename': 'a.aux', 'lineno': 4, 'line': 'xy'},
    {'cls': 'AuxDataError', 'msg': 'm', 'filename': None, 'lineno': 0, 'line': None},
    {'cls': 'AuxDataError', 'msg': 'm', 'noctx': True},
    {'cls': 'PybtexSyntaxError', 'arg': 'x', 'filename': 'a.bib', 'lineno': 3},
    {'cls': 'PybtexSyntaxError', 'arg': 'x', 'filename': 'b.bib', 'lineno': 3},
    {'cls': 'PybtexSyntaxError', 'arg': 'x', 'filename': None, 'lineno': None},
    {'cls': 'PybtexError', 'msg': 'syntax error in line 3: x', 'filename': None},
    {'cls': 'UndefinedMacro', 'arg': 'x', 'filename': None, 'lineno': 3},
    {'cls': 'PrematureEOF', 'filename': None, 'lineno': 3},
    {'cls': 'PybtexSyntaxError', 'arg': 'premature end of file', 'filename': 'z', 'lineno': 3},
    {'cls': 'UnbalancedBraceError', 'arg': '{ff', 'filename': None, 'lineno': None},
    {'cls': 'TokenRequired', 'description': "'='", 'filename': 'f.bib',
     'info': {'kind': 'lowLevel', 'text': '@article{k,\n  title x\n}\n', 'start': 0, 'lineno': 2, 'pos': 20}},
    {'cls': 'TokenRequired', 'description': "'='", 'filename': None,
     'info': {'kind': 'scanner', 'text': 'ENTRY {\n x', 'start': None, 'lineno': 2, 'pos': 9}},
    {'cls': 'PybtexSyntaxError', 'arg': "'=' expected", 'filename': None, 'lineno': 2},
    {'cls': 'DuplicateField', 'key': 'k', 'field': 'title'},
    {'cls': 'PybtexError', 'msg': 'entry with key k has a duplicate title field', 'filename': 'q'},
    {'cls': 'InvalidNameString', 'name': 'a, b, c, d'},
    {'cls': 'InvalidNameString', 'name': "it's"},
    {'cls': 'PluginGroupNotFound', 'group': 'pybtex.x'},
    {'cls': 'PluginNotFound', 'group': 'pybtex.x', 'name': 'y'},
    {'cls': 'PluginNotFound', 'group': 'pybtex.x.suffixes', 'name': '.y'},
    {'cls': 'FieldIsMissing', 'field': 'title', 'entry': {'kind': 'key', 'key': 'k'}},
    {'cls': 'FieldIsMissing', 'field': 'title', 'entry': {'kind': 'none'}},
    {'cls': 'PybtexError', 'msg': 'missing title in None', 'filename': None},
]
EQ_TEXTS = ['m', 'M', '', 'in line 3: m', 'syntax error in line 3: x', 'missing title in k', 'plugin pybtex.x.y not found']


def eq_cases(tier, rng):
    cases = []
    for a in EQ_POOL:
        for b in EQ_POOL:
            cases.append({'op': 'erreq', 'a': a, 'b': b})
        for t in EQ_TEXTS:
            cases.append({'op': 'erreq', 'a': a, 'b': None, 'text': t})
    return cases


def valid_case(case):
    op = case.get('op')
    if op == 'erreq':
        return isinstance(case.get('a'), dict) and (isinstance(case.get('b'), dict) or isinstance(case.get('text'), str))
    if op == 'errfilename':
        fn = case.get('fn')
        if fn is not None:
            if not isinstance(fn, dict) or (('s' in fn) == ('b' in fn)):
                return False
            if 'b' in fn and not (isinstance(fn['b'], list) and all(isinstance(b, int) and 0 <= b < 256 for b in fn['b'])):
                return False
            if 's' in fn and not isinstance(fn['s'], str):
                return False
        return isinstance(case.get('msg'), str) and isinstance(case.get('prefix'), str)
    if op == 'errprim':
        f = case.get('f')
        if not isinstance(case.get('s'), str):
            return False
        if f == 'splitlines':
            return isinstance(case.get('keep'), bool)
        if f in ('newline', 'scanner_ctx', 'lowlevel_ctx') and not (isinstance(case.get('pos'), int) and case['pos'] >= 0):
            return False
        if f == 'scanner_ctx':
            return case.get('lineno') is None or (isinstance(case['lineno'], int) and case['lineno'] >= 0)
        if f == 'lowlevel_ctx':
            return case.get('start') is None or (isinstance(case['start'], int) and case['start'] >= 0)
        return f in ('repr', 'rstrip', 'endswith_nl', 'newline')
    return True
