"""C15 -- .bst source parsing recovers exactly the program that was written."""
import atexit
import hashlib
import io
import itertools
import json
import os
import shutil
import tempfile

import compat  # noqa: F401
from props.base import nontrivial, corpus_for  # noqa: F401

ID = 'C15'
LEAN_MODULES = ['PybtexModel.Props.C15']
THEOREMS = {
    'C15_strip_comment': 'strip_comment removes exactly the text from the first % outside a string literal (a % preceded by an odd number of " is kept), for every line; equals the declarative spec',
    'C15_strip_comment_id': 'strip_comment is the identity on lines without % and is idempotent',
    'C15_roundtrip': 'printing any well-formed program with ANY lay-out and parsing it back (parse_string) is the identity',
    'C15_roundtrip_nonvacuous': 'a concrete nested program under a concrete lay-out with comments, CRLF, VT: well-formed, printed text as expected, parses back (kernel evaluation)',
    'C15_layout_independent': 'two lay-outs of one program parse to the same value (white space, line breaks, comments, brace spacing)',
    'C15_commands_table': 'BstParser.COMMANDS as regenerated from /repo equals the reference table of the ten BibTeX commands and their numbers of argument groups',
    'C15_command_case': 'command names are looked up case-insensitively and returned as written',
    'C15_malformed_located': 'well-formed program + offence under ANY lay-out: non-command where a command is due / non-{ where a group is due / text ends with groups due / group never closed => syntax error on the line of the offending lexeme (resp. last line)',
    'C15_malformed_located_nonvacuous': 'concrete instances of the four cases, offence on line 3, and the reference reading names the same lexeme (kernel evaluation)',
    'C15_unterminated_string_partial': 'parser level: a quote with no closing quote after it inside a group => "name or string or ..." expected on the line the scanner is on',
    'C15_fuel_adequate': 'the fuel-indexed loops of the model never run out of fuel; entry points never return model-only outcomes',
    'C15_entry_points_agree_partial': 'plain line breaks: parse_stream text = parse_string text with lines rstripped; with no trailing white space parse_string / parse_stream / parse_file agree',
    'C15_entry_points_agree_neg': 'witness: a string literal spanning a line break with a blank before the break is read differently by parse_string and parse_stream',
}
RULE = ('exhaustive: FUNCTION bodies of <=3 tokens over every token kind (names of operator characters, quoted names, negative '
        'integers, strings containing % # { }) with function literals nested <=2, all commands x 3 spellings singly and in pairs, '
        'each under 4-6 lay-outs; every single-lexeme corruption (delete, duplicate, replace by each kind, truncate) and every '
        'character truncation of a base set; seeded random large programs with random lay-outs; random raw text; random lines for '
        'strip_comment; corpus: all .bst files of tests/data.  non-trivial = source with >= 2 lexemes; distinct by case JSON')
TRUSTED = ['str.upper / \\d are ASCII in the model (command names and digits are drawn from ASCII)',
           'Python twin of the Lean printer in this module (its output is compared with the Lean `print` on every case)']
ASSUMPTIONS = ['no non-ASCII letters in command names, no non-ASCII digits after #',
               'nesting depth below Python\'s recursion limit (the model has no such limit)']

# ------------------------------------------------------------------------------------------------
# implementation side


def _canon_tok(t):
    from pybtex.bibtex.interpreter import FunctionLiteral, Identifier, Integer, QuotedVar, String
    ty = type(t)
    if ty is FunctionLiteral:
        return ['F', [_canon_tok(x) for x in t.body]]
    if ty is Integer:
        return ['Integer', t.value()]
    if ty is String:
        return ['String', t.value()]
    if ty is QuotedVar:
        return ['QuotedVar', t.value()]
    if ty is Identifier:
        return ['Identifier', t.value()]
    raise TypeError('unexpected token object %r' % (t,))


def _canon_prog(cmds):
    out = []
    for c in cmds:
        if not (isinstance(c, list) and c and isinstance(c[0], str)):
            raise TypeError('unexpected command %r' % (c,))
        out.append({'c': c[0], 'g': [[_canon_tok(t) for t in g] for g in c[1:]]})
    return out


def _outcome(thunk):
    from pybtex.scanner import PybtexSyntaxError
    try:
        return {'ok': _canon_prog(list(thunk()))}
    except PybtexSyntaxError as e:
        return {'err': type(e).__name__, 'line': e.lineno, 'msg': e.args[0] if e.args else None}
    except Exception as e:  # noqa
        return {'err': compat.pybtex_error_kind(e)}


_TMP = None


def _tmpfile():
    global _TMP
    if _TMP is None or _TMP[0] != os.getpid():
        d = tempfile.mkdtemp(prefix='verif-c15-')
        atexit.register(shutil.rmtree, d, True)
        _TMP = (os.getpid(), os.path.join(d, 'x.bst'))
    return _TMP[1]


def outcomes(text):
    from pybtex.bibtex import bst
    res = {'string': _outcome(lambda: bst.parse_string(text)),
           'stream': _outcome(lambda: bst.parse_stream(io.StringIO(text)))}
    path = _tmpfile()
    with open(path, 'w', encoding='utf-8', newline='') as f:
        f.write(text)
    res['file'] = _outcome(lambda: bst.parse_file(path, encoding='utf-8'))
    return res


def _digest(o):
    """Large results (corpus files) are compared through a digest + size."""
    if isinstance(o, dict) and 'ok' in o:
        s = json.dumps(o['ok'], sort_keys=True, ensure_ascii=False)
        return {'ok_sha1': hashlib.sha1(s.encode('utf-8')).hexdigest(), 'commands': len(o['ok'])}
    return o


# ------------------------------------------------------------------------------------------------
# Python twin of Spec/Bst.lean `render` / `print` (checked against the Lean one on every case)

def lex_text(l):
    k = l[0]
    if k == 'w':
        return l[1]
    if k == 'i':
        return '#' + str(l[1])
    if k == 's':
        return '"' + l[1] + '"'
    return k


def needs_gap(prev, nxt):
    return prev is not None and prev[0] in ('w', 'i') and nxt[0] == 'w'


def gap_text(g):
    return ''.join(it[1] if it[0] == 'ws' else '%' + it[1] + it[2] for it in g)


def render(lexs, layout):
    gaps = layout['gaps']
    out = []
    prev = None
    for i, l in enumerate(lexs):
        g = gaps[i] if i < len(gaps) else []
        out.append(' ' if needs_gap(prev, l) and not g else gap_text(g))
        out.append(lex_text(l))
        prev = l
    n = len(lexs)
    out.append(gap_text(gaps[n] if n < len(gaps) else []))
    if layout.get('trailer') is not None:
        out.append('%' + layout['trailer'])
    return ''.join(out)


def tok_lexemes(t):
    k = t[0]
    if k == 'Integer':
        return [['i', t[1]]]
    if k == 'String':
        return [['s', t[1]]]
    if k == 'QuotedVar':
        return [['w', "'" + t[1]]]
    if k == 'Identifier':
        return [['w', t[1]]]
    out = [['{']]
    for x in t[1]:
        out += tok_lexemes(x)
    return out + [['}']]


def prog_lexemes(prog):
    out = []
    for c in prog:
        out.append(['w', c['c']])
        for g in c['g']:
            out.append(['{'])
            for t in g:
                out += tok_lexemes(t)
            out.append(['}'])
    return out


def case_text(case):
    op = case['op']
    if op == 'bstrt':
        return render(prog_lexemes(case['prog']), case['layout'])
    if op == 'bstlex':
        return render(case['lexs'], case['layout'])
    if op == 'bstparse':
        if 'file' in case:
            return open(os.path.join(compat.REPO, case['file']), encoding='utf-8', newline='').read()
        return case['src']
    raise ValueError(op)


def impl(case):
    op = case['op']
    if op == 'bststrip':
        from pybtex.bibtex import bst
        try:
            return bst.strip_comment(case['line'])
        except Exception as e:  # noqa
            return {'err': compat.pybtex_error_kind(e)}
    text = case_text(case)
    res = outcomes(text)
    if case.get('digest'):
        return {k: _digest(v) for k, v in res.items()}
    if op != 'bstparse':
        res['text'] = text
    return res


def to_request(case):
    if case['op'] == 'bstparse' and 'file' in case:
        return {'op': 'bstparse', 'src': case_text(case)}
    return case


def model_out(case, reply):
    out = reply.get('out')
    if case.get('digest'):
        return {k: _digest(v) for k, v in out.items()}
    return out


# ------------------------------------------------------------------------------------------------
# oracle: the clauses of the property evaluated on the implementation's output, reference values
# from the Lean spec (reply['spec'])

def _reparse(text):
    from pybtex.bibtex import bst
    return _outcome(lambda: bst.parse_string(text))


def oracle(case, impl_out, reply):
    fails = []
    op = case['op']
    spec = reply.get('spec')
    if op == 'bststrip':
        if impl_out != spec:
            fails.append('comment: strip_comment(%r) = %r, but the text before the first %% outside a string literal is %r' % (
                case['line'], impl_out, spec))
        return fails
    if case.get('digest'):
        s = impl_out['string']
        if 'ok_sha1' not in s:
            fails.append('corpus: style file %s is rejected: %r' % (case.get('file'), s))
        if not (impl_out['string'] == impl_out['stream'] == impl_out['file']):
            fails.append('entry_points: parse_string / parse_stream / parse_file differ on %s' % case.get('file'))
        return fails
    s = impl_out['string']
    if op == 'bstrt':
        if impl_out.get('text') != reply['out'].get('text'):
            fails.append('printer: the Python twin of the printer differs from the Lean print (harness problem)')
        if spec['wf']:
            if s != {'ok': spec['prog']}:
                fails.append('roundtrip: parse_string(print(p, L)) = %s differs from the program p' % json.dumps(s, ensure_ascii=False)[:300])
            if spec['plain'] and not (impl_out['stream'] == s and impl_out['file'] == s):
                fails.append('entry_points: parse_stream/parse_file differ from parse_string on a printed program: %s / %s' % (
                    json.dumps(impl_out['stream'], ensure_ascii=False)[:200], json.dumps(impl_out['file'], ensure_ascii=False)[:200]))
    elif op == 'bstlex':
        if impl_out.get('text') != reply['out'].get('text'):
            fails.append('printer: the Python twin of the printer differs from the Lean render (harness problem)')
        if spec['wf']:
            want = spec['reading']
            if s != want:
                clause = 'roundtrip' if 'ok' in want else 'malformed_located'
                fails.append('%s: parse_string gives %s, the lexeme sequence reads as %s' % (
                    clause, json.dumps(s, ensure_ascii=False)[:300], json.dumps(want, ensure_ascii=False)[:300]))
            if spec['plain'] and not (impl_out['stream'] == s and impl_out['file'] == s):
                fails.append('entry_points: parse_stream/parse_file differ from parse_string on rendered lexemes')
    elif op == 'bstparse':
        # comments: parsing is unaffected by removing, from every line, the text from the first % outside a string
        again = _reparse('\n'.join(spec['stripped']) + '\n')
        if again != s:
            fails.append('comment: parse_string(src) = %s but without the comments (%r) it is %s' % (
                json.dumps(s, ensure_ascii=False)[:200], spec['stripped'][:5], json.dumps(again, ensure_ascii=False)[:200]))
        if 'err' in s and not s['err'].startswith('INTERNAL'):
            nlines = max(1, len(spec['lines']))
            if not (isinstance(s.get('line'), int) and 1 <= s['line'] <= nlines):
                fails.append('malformed_located: error line %r is not a line of the source (%d lines)' % (s.get('line'), nlines))
        if spec['plain'] and spec['notrail'] and not (impl_out['stream'] == s and impl_out['file'] == s):
            fails.append('entry_points: parse_stream/parse_file differ from parse_string on plain text: %s / %s' % (
                json.dumps(impl_out['stream'], ensure_ascii=False)[:200], json.dumps(impl_out['file'], ensure_ascii=False)[:200]))
    if isinstance(s, dict) and str(s.get('err', '')).startswith('INTERNAL'):
        fails.append('malformed_located: parse_string raised a non-pybtex exception %s' % s['err'])
    return fails


def buckets(case, impl_out):
    op = case['op']
    if op == 'bststrip':
        return ['strip:' + ('cut' if isinstance(impl_out, str) and impl_out != case['line'] else 'same')]
    s = impl_out.get('string', {}) if isinstance(impl_out, dict) else {}
    if 'err' in s:
        kind = '%s:%s' % (s['err'], (s.get('msg') or '')[:14])
    else:
        kind = 'ok'
    return ['%s:%s:%s' % (op, case.get('lay', case.get('kind', '-')), kind)]


def nontrivial(case, impl_out):  # noqa: F811
    if case['op'] == 'bststrip':
        return '%' in case['line'] or '"' in case['line']
    if case['op'] == 'bstrt':
        return len(prog_lexemes(case['prog'])) >= 2
    if case['op'] == 'bstlex':
        return len(case['lexs']) >= 2
    return len(case_text(case).split()) >= 2


def valid_case(case):
    return isinstance(case, dict) and case.get('op') in ('bstrt', 'bstlex', 'bstparse', 'bststrip')


# ------------------------------------------------------------------------------------------------
# generators

STYLE_FILES = ['plain', 'apacite', 'jurabib', 'alpha', 'unsrt', 'unsrt_mixed', 'IEEEtran']


def corpus():
    known = [
        {'op': 'bstparse', 'kind': 'kat', 'src': 'ENTRY {a}{}{b}\nFUNCTION {f} {#-1 \'x "100% {" := { + } }% c\nREAD'},
        {'op': 'bstparse', 'kind': 'kat', 'src': 'read\n\nfoo {'},
        {'op': 'bstparse', 'kind': 'kat', 'src': 'FUNCTION {f} {"abc\n'},
        {'op': 'bstparse', 'kind': 'kat', 'src': 'ITERATE {x\n\n'},
    ]
    return known + corpus_for(ID)


def style_file_cases():
    """The .bst files of tests/data (the three of tests/bst_parser_test + the others), compared through a digest.
    Appended after the generated cases so that a small generated input is reported first when something breaks."""
    return [{'op': 'bstparse', 'kind': 'file', 'file': 'tests/data/%s.bst' % n, 'digest': True} for n in STYLE_FILES
            if os.path.exists(os.path.join(compat.REPO, 'tests/data/%s.bst' % n))]


ATOMS_QUICK = [['Identifier', ':='], ['QuotedVar', 'x'], ['Integer', -1], ['String', '%#{'], ['Identifier', "a'+*"]]
ATOMS_MORE = [['Identifier', '+'], ['Identifier', '*'], ['QuotedVar', ':='], ['QuotedVar', ''], ['Integer', 0],
              ['Integer', 12], ['String', ''], ['String', 'a b}']]

ARITY = {'ENTRY': 3, 'EXECUTE': 1, 'FUNCTION': 2, 'INTEGERS': 1, 'ITERATE': 1, 'MACRO': 2, 'READ': 0, 'REVERSE': 1,
         'SORT': 0, 'STRINGS': 1}   # generator-side only (shapes of the generated programs); the model uses the regenerated table

WS_ALL = [chr(c) for c in [9, 10, 11, 12, 13, 28, 29, 30, 31, 32, 133, 160, 5760, 8192, 8193, 8194, 8195, 8196, 8197, 8198,
                           8199, 8200, 8201, 8202, 8232, 8233, 8239, 8287, 12288]]
SEPS = [chr(c) for c in [10, 11, 12, 13, 28, 29, 30, 133, 8232, 8233]]


def mk_layout(name, n):
    """Named lay-outs for a text of n lexemes (n + 1 gaps)."""
    if name == 'space':
        return {'gaps': [[]] + [[['ws', ' ']] for _ in range(n)], 'trailer': None}
    if name == 'newline':
        return {'gaps': [[['ws', '\n']] for _ in range(n + 1)], 'trailer': None}
    if name == 'comment':
        return {'gaps': [[['cm', ' c"%', '\n']]] + [[['ws', ' '], ['cm', 'it\'s "100%', '\n']] for _ in range(n)], 'trailer': 'end "'}
    if name == 'crlf':
        return {'gaps': [[['ws', '\r'], ['ws', '\n']] for _ in range(n + 1)], 'trailer': None}
    if name == 'tight':
        return {'gaps': [], 'trailer': None}
    if name == 'exotic':
        cyc = [[['ws', '\x0b']], [['cm', 'x', '\r'], ['ws', '\n']], [['ws', '\x85'], ['ws', '\t']], [['cm', '', ' ']],
               [['ws', '\r']], [['ws', '\xa0'], ['cm', '%"', '\x0c'], ['ws', '　']]]
        return {'gaps': [cyc[i % len(cyc)] for i in range(n + 1)], 'trailer': 'z'}
    raise ValueError(name)


def rt_case(prog, lay):
    return {'op': 'bstrt', 'lay': lay, 'prog': prog, 'layout': mk_layout(lay, len(prog_lexemes(prog)))}


def seqs(alphabet, maxlen):
    for n in range(maxlen + 1):
        for t in itertools.product(alphabet, repeat=n):
            yield list(t)


def token_universe(atoms, depth, inner_len):
    toks = list(atoms)
    for _ in range(depth):
        toks = list(atoms) + [['F', b] for b in seqs(toks, inner_len)]
    return toks


def spellings(name):
    return [name, name.lower(), name.capitalize()[:2] + name[2:].lower().swapcase() if len(name) > 2 else name.capitalize()]


def command(name_as_written, body):
    ar = ARITY[name_as_written.upper()]
    groups = [[['Identifier', 'f.%d' % i]] for i in range(ar)]
    if ar:
        groups[-1] = body
    return {'c': name_as_written, 'g': groups}


def gen_exhaustive(tier, info):
    atoms = ATOMS_QUICK if tier == 'quick' else ATOMS_QUICK + ATOMS_MORE
    layouts = ['space', 'newline', 'comment', 'crlf'] + (['tight', 'exotic'] if tier != 'quick' else [])
    toks = token_universe(atoms, 2, 1)
    cases = []
    nb = 0
    for body in seqs(toks, 3):
        nb += 1
        prog = [{'c': 'FUNCTION', 'g': [[['Identifier', 'f']], body]}]
        for lay in layouts:
            cases.append(rt_case(prog, lay))
    cmds = []
    for name in ARITY:
        for sp in spellings(name):
            cmds.append(command(sp, [['Identifier', 'a'], ['F', [['Integer', -1]]]]))
    npairs = 0
    for prog in [[c] for c in cmds] + [[a, b] for a in cmds for b in cmds]:
        npairs += 1
        for lay in layouts + (['tight'] if tier == 'quick' else []):
            cases.append(rt_case(prog, lay))
    info['scope'] = ('round trip: all %d FUNCTION bodies of <=3 tokens over %d tokens (%d atoms incl. operator names, quoted names, '
                     'negative integers, strings with %% # { }, + function literals nested <=2 with <=1 inner token) x lay-outs %r; '
                     'all %d programs of 1 or 2 commands over the ten commands x 3 spellings; ' % (
                         nb, len(toks), len(atoms), layouts, npairs))
    return cases


REPLACEMENTS = [['w', 'foo'], ['w', "'q"], ['w', 'READ'], ['w', 'function'], ['i', -1], ['s', 'x%'], ['{'], ['}']]


def gen_corruptions(tier, info):
    bases = []
    body = [['Identifier', ':='], ['F', [['String', '%'], ['F', []]]], ['Integer', -1]]
    for name in ARITY:
        bases.append([command(name, body)])
    bases += [[command('ENTRY', body), command('read', [])], [command('Function', body), command('ITERATE', body)],
              [command('sort', []), command('MACRO', body), command('EXECUTE', [['QuotedVar', 'x']])]]
    layouts = ['space', 'newline', 'crlf'] + (['comment', 'tight'] if tier != 'quick' else [])
    cases = []
    ntext = 0
    for prog in bases:
        lexs = prog_lexemes(prog)
        variants = []
        for i in range(len(lexs)):
            variants.append(('delete', lexs[:i] + lexs[i + 1:]))
            variants.append(('duplicate', lexs[:i + 1] + lexs[i:]))
            variants.append(('truncate', lexs[:i]))
            for r in REPLACEMENTS:
                if r != lexs[i]:
                    variants.append(('replace', lexs[:i] + [r] + lexs[i + 1:]))
        for kind, v in variants:
            for lay in layouts:
                cases.append({'op': 'bstlex', 'kind': kind, 'lay': lay, 'lexs': v, 'layout': mk_layout(lay, len(v))})
        # every truncation of the text (cuts inside tokens: unterminated strings, '#', '#-')
        for lay in ['space', 'newline', 'comment']:
            text = render(lexs, mk_layout(lay, len(lexs)))
            for k in range(len(text)):
                ntext += 1
                cases.append({'op': 'bstparse', 'kind': 'cut', 'lay': lay, 'src': text[:k]})
    info['scope'] = info.get('scope', '') + ('corruptions: every delete / duplicate / truncate / replace-by-%d-lexemes of every lexeme of %d base '
                                             'programs (all ten commands) x lay-outs %r; every character truncation of their texts (%d)' % (
                                                 len(REPLACEMENTS), len(bases), layouts, ntext))
    return cases


NAME_CHARS = "abcxyz.$:=+*-<>!?&|~^_/\\@;,()[]'0123456789"
STR_CHARS = 'ab %#{}\'\\~.,$ \t'


def rand_name(rng):
    while True:
        n = ''.join(rng.choice(NAME_CHARS) for _ in range(rng.randint(1, 8)))
        if n[0] != "'":
            return n


def rand_tok(rng, depth):
    r = rng.random()
    if r < 0.35:
        return ['Identifier', rand_name(rng)]
    if r < 0.5:
        return ['QuotedVar', ''.join(rng.choice(NAME_CHARS) for _ in range(rng.randint(0, 6)))]
    if r < 0.65:
        return ['Integer', rng.choice([0, 1, -1, 7, -12, 100, rng.randint(-10 ** 6, 10 ** 6), rng.randint(-10 ** 25, 10 ** 25)])]
    if r < 0.8 or depth <= 0:
        return ['String', ''.join(rng.choice(STR_CHARS) for _ in range(rng.randint(0, 10)))]
    return ['F', [rand_tok(rng, depth - 1) for _ in range(rng.randint(0, 4))]]


def rand_case_mask(rng, s):
    return ''.join(c.upper() if rng.random() < 0.5 else c.lower() for c in s)


def rand_prog(rng, ncmd, depth):
    prog = []
    for _ in range(ncmd):
        name = rng.choice(list(ARITY))
        prog.append({'c': rand_case_mask(rng, name),
                     'g': [[rand_tok(rng, depth) for _ in range(rng.randint(0, 6))] for _ in range(ARITY[name])]})
    return prog


COMMENT_CHARS = 'ab %"#{}\'\t'


def rand_gap(rng, plain):
    items = []
    for _ in range(rng.choice([0, 1, 1, 1, 2, 3])):
        r = rng.random()
        if r < 0.55:
            items.append(['ws', rng.choice(' \n\t') if plain or rng.random() < 0.6 else rng.choice(WS_ALL)])
        elif r < 0.7:
            items += [['ws', '\r'], ['ws', '\n']]
        else:
            txt = ''.join(rng.choice(COMMENT_CHARS) for _ in range(rng.randint(0, 8)))
            if plain or rng.random() < 0.6:
                items.append(['cm', txt, '\n'])
            elif rng.random() < 0.5:
                items += [['cm', txt, '\r'], ['ws', '\n']]
            else:
                items.append(['cm', txt, rng.choice(SEPS)])
    return items


def rand_layout(rng, n):
    plain = rng.random() < 0.5
    tr = None
    if rng.random() < 0.3:
        tr = ''.join(rng.choice(COMMENT_CHARS) for _ in range(rng.randint(0, 6)))
    return {'gaps': [rand_gap(rng, plain) for _ in range(n + 1)], 'trailer': tr}


RAW_ALPHABET = ['{', '}', '"', '#', '%', "'", '-', '0', '1', '9', 'a', 'B', ' ', ' ', '\n', '\n', '\r', '\t', ':=', 'READ', 'read ',
                'FUNCTION', 'ENTRY ', 'iterate{x}', '{a}', '#1', '#-2', '"s"', '\x0b', '\x85', ' ', ' \n', '\r\n', '%c\n', '+', 'x$']


RAW_PREFIX = ['', '', 'FUNCTION {f} {', 'ENTRY {a}', 'MACRO {', 'read\n', 'INTEGERS', 'FUNCTION {f}\n{ "a', 'SORT %c\n', 'EXECUTE {x} ']


def rand_raw(rng):
    return rng.choice(RAW_PREFIX) + ''.join(rng.choice(RAW_ALPHABET) for _ in range(rng.randint(0, 14)))


def rand_line(rng):
    return ''.join(rng.choice(['%', '"', 'a', ' ', '#', '{', '}', 'b', '\t', "'"]) for _ in range(rng.randint(0, 9)))


def gen_cases(tier, rng, info):
    cases = gen_exhaustive(tier, info)
    cases += gen_corruptions(tier, info)
    # exhaustive strip_comment: every line of length <= n over { % " a blank }
    n = 6 if tier == 'quick' else 8
    nstrip = 0
    for k in range(n + 1):
        for t in itertools.product('%"a ', repeat=k):
            nstrip += 1
            cases.append({'op': 'bststrip', 'line': ''.join(t)})
    info['scope'] += '; strip_comment: all %d lines of length <= %d over {%%, ", a, blank}' % (nstrip, n)
    info['exhaustive'] = True
    q = tier == 'quick'
    for i in range(300 if q else 6000):
        prog = rand_prog(rng, rng.randint(0, 6) if i % 10 else rng.randint(20, 60), rng.randint(0, 4))
        lay = rand_layout(rng, len(prog_lexemes(prog)))
        cases.append({'op': 'bstrt', 'lay': 'random', 'prog': prog, 'layout': lay})
    for i in range(1500 if q else 40000):
        prog = rand_prog(rng, rng.randint(1, 3), 2)
        lexs = prog_lexemes(prog)
        for _ in range(rng.randint(1, 2)):
            j = rng.randrange(len(lexs) + 1)
            r = rng.random()
            if r < 0.3 and lexs:
                del lexs[min(j, len(lexs) - 1)]
            elif r < 0.6:
                lexs.insert(j, rng.choice(REPLACEMENTS + [['w', rand_name(rng)]]))
            elif r < 0.8 and lexs:
                lexs[min(j, len(lexs) - 1)] = rng.choice(REPLACEMENTS)
            else:
                lexs = lexs[:j]
        cases.append({'op': 'bstlex', 'kind': 'random', 'lay': 'random', 'lexs': lexs, 'layout': rand_layout(rng, len(lexs))})
    for i in range(3000 if q else 80000):
        cases.append({'op': 'bstparse', 'kind': 'raw', 'src': rand_raw(rng)})
    for i in range(1000 if q else 30000):
        cases.append({'op': 'bststrip', 'line': rand_line(rng)})
    cases += style_file_cases()
    return cases


LEVEL_TEXT = ('Machine-checked proofs (Lean 4) about an executable model of pybtex/bibtex/bst.py + the Scanner pieces it uses: '
              'strip_comment characterised exactly; print-then-parse is the identity for every well-formed program under every '
              'lay-out (any of the 29 white-space characters, %-comments ended by any line break, optional space around braces, '
              'any letter case of command names); located syntax errors after a well-formed prefix; agreement of the entry points. '
              'The model is tied to the code by a differential check (exhaustive small scope + random + the seven style files of '
              'tests/data) and the oracle compares the implementation with an independent reference reading of lexeme sequences.')
LEVEL_NOTE = ('Trusted: Lean kernel; axioms propext/Classical.choice/Quot.sound only; the hand-written model (Model/BstParse.lean, '
              'Model/Scanner.lean, Model/Lines.lean) corresponds to the Python code only as far as the differential check explores; '
              're, str.splitlines, str.rstrip, str.upper and int() are modelled (ASCII letters/digits), not verified; the arity table is '
              'regenerated from BstParser.COMMANDS on every run and must equal the reference table (theorem C15_commands_table).  The model '
              'follows the code as repaired by proposed_fixes/C15-1.diff = /repo 5237556 (a command with too few groups is a syntax error).  Strings spanning several lines are parsed as the code does, but '
              'line numbers after them are off (the scanner does not count line breaks inside tokens) and parse_stream rstrips inside them '
              '(C15_entry_points_agree_neg); they are outside WFProg.  Not proved: parse_stream round trip for printed programs with trailing '
              'blanks, end-to-end (source-level) form of the unterminated-string error; both are covered by the correspondence only.')
