"""C15 -- .bst source parsing recovers exactly the program that was written."""
import atexit
import hashlib
import io
import itertools
import json
import os
import shutil
import tempfile

import compat  # noqa: F401
from props.base import nontrivial, corpus_for  # noqa: F401
from props import c15_func

ID = 'C15'
LEAN_MODULES = ['PybtexModel.Props.C15', 'PybtexModel.Props.C15x']
THEOREMS = {
    'C15_strip_comment': 'strip_comment removes exactly the text from the first % outside a string literal (a % preceded by an odd number of " is kept), for every line; equals the declarative spec',
    'C15_strip_comment_id': 'strip_comment is the identity on lines without % and is idempotent',
    'C15_roundtrip': 'printing any well-formed program with ANY lay-out and parsing it back (parse_string) is the identity',
    'C15_roundtrip_nonvacuous': 'a concrete nested program under a concrete lay-out with comments, CRLF, VT: well-formed, printed text as expected, parses back (kernel evaluation)',
    'C15_layout_independent': 'two lay-outs of one program parse to the same value (white space, line breaks, comments, brace spacing)',
    'C15_commands_table': 'BstParser.COMMANDS as regenerated from /repo equals the reference table of the ten BibTeX commands and their numbers of argument groups',
    'C15_command_case': 'conjunct 1: [model wiring] on the SPEC function cmdArity (defined as a lookup of the ASCII-upper-cased name); conjunct 2 (a program well-formed up to the letter case of its command names parses back to itself, spelling kept): corollary of C15_roundtrip, whose WFProg admits any letter case; the claim about the CODE is carried by C15_roundtrip + C15_commands_table',
    'C15_malformed_located': 'FOUR offence shapes behind a well-formed program (not all malformed text), ANY lay-out: a well-formed non-command lexeme where a command is due / a well-formed lexeme other than { where a group is due / text ends with groups due / ONE group of complete tokens never closed (any depth: C15_unclosed_groups_located) => syntax error on the line of the offence (resp. last line)',
    'C15_malformed_located_nonvacuous': 'C15_malformed_located INSTANTIATED per case (twice for case 1): prefix, offence and lay-out exhibited, every hypothesis discharged, the rendered source shown EQUAL to the literal text and the named line to be 3, the rejection of the literal derived from the theorem; the reference reading names the same lexeme',
    'C15_unclosed_groups_located': 'the text ends while groups are open at ANY depth (an argument group and function literals nested in it, each holding complete tokens: what a cut between two tokens or several missing } leave), behind a well-formed program, under ANY lay-out and final comment: premature end of file on the last line',
    'C15_unclosed_groups_located_nonvacuous': 'the theorem instantiated with two open levels: hypotheses discharged, rendered source = literal text, last line 3, rejection derived from the theorem',
    'C15_unterminated_string_partial': 'parser level only (the internal parse_group loop on a scanner state, not a source text; superseded end-to-end by C15_lexical_error_located): white space without CR, then a quote with no closing quote after it => "name or string or ..." expected on the line the scanner is on',
    'C15_fuel_adequate': 'the fuel-indexed loops of the model never run out of fuel; entry points never return model-only outcomes',
    'C15_entry_points_agree_partial': 'plain line breaks: parse_stream text = parse_string text with lines rstripped; with no trailing white space parse_string / parse_stream / parse_file agree',
    'C15_entry_points_agree_neg': 'witness: a string literal spanning a line break with a blank before the break is read differently by parse_string and parse_stream',
    'C15_lexical_error_located': 'well-formed prefix under ANY lay-out + text that cannot begin a token (# without an ASCII integer behind it: #, #-, #+1, #a; a " never closed) followed by anything: rejected on the line where that text starts - inside a group at any depth of open function literals ("name or string or ... expected"), where a command is due, where a { is due',
    'C15_lexical_error_located_nonvacuous': 'the broken tokens of the review are lexBad, real tokens are not; instances of the three cases with the offence on line 3; the reference reading readBad names the same place (kernel evaluation)',
    'C15_int_too_long_located': 'an integer literal with more digits than int() converts, inside a group behind a well-formed prefix: PybtexSyntaxError "integer literal too long" on the line of the literal (repaired parse_group, C15-3)',
    'C15_int_too_long_located_nonvacuous': 'the regenerated interpreter limit equals the reference limit 4300; 10^4299 is a well-formed integer token, 10^4300 is not',
    'C15_equality': 'the == of parse results (Variable.__eq__, Function.__eq__, list.__eq__) is structural equality; two printed well-formed programs parse to equal values iff the same program was written, whatever the lay-outs',
    'C15_equality_nonvacuous': 'tokens differing in a leaf value, a leaf class or a nested body are unequal; command names compare as written',
    'C15_command_ascii': 'a name accepted by the arity table consists of ASCII letters and upper-cases to a table entry; every command of every ACCEPTED source is one of the ten commands with exactly its number of groups (the only proved fact about arbitrary accepted sources: there is no theorem "parse_string(src) = p implies src spells p")',
    'C15_roundtrip_entry_points': 'printing any well-formed program with any lay-out whose line breaks are \\n / \\r\\n and reading it back through parse_stream or parse_file is the identity too - trailing blanks allowed (no noTrailingWs proviso)',
    'C15_roundtrip_entry_points_nonvacuous': 'a lay-out with blanks before \\n, \\r\\n, a comment and the end of text: plain breaks, trailing white space, parse_stream and parse_file read the program back (kernel evaluation)',
    'C15_error_names_line_of_source': 'EVERY source text (no hypothesis at all): when parse_string rejects it the error is one of the three PybtexSyntaxError classes, its lineno l satisfies 1 <= l <= number of lines of the source (str.splitlines, at least 1), and str(error) = "syntax error in line <l>: <message>" with the decimal spelling of the same l (PybtexSyntaxError.__str__ = Errors.syntaxStr of C16); parse_string only - parse_stream / parse_file hand the parser text that may contain a lone CR',
    'C15_error_names_line_of_source_nonvacuous': 'two rejected sources whose error is on their LAST line (the bound is attained): line, number of lines and the literal text of str(error); the first has plain breaks and parse_stream rejects it on the same line (kernel evaluation)',
    'C15_error_names_line_of_source_stream': 'the same for parse_stream, for EVERY source whose line breaks are \\n / \\r\\n only (hypothesis plainBreaks): PybtexSyntaxError class, 1 <= lineno <= number of lines, str(error) spells that line',
    'C15_error_names_line_of_source_stream_neg': 'witness that plainBreaks is needed: the one-line stream read<CR><CR>foo is rejected "in line 3" by parse_stream (the scanner counts a lone CR, the stream does not end a line there)',
    'C15_token_is_consumed_text': 'Scanner.required with any list of patterns that match a non-empty prefix (hypothesis PatSound, discharged for the three lists of bst.py in _nonvacuous): a returned token value is exactly the text consumed after the white space, is not empty, and only eat_whitespace moves the line number (never backwards)',
    'C15_token_is_consumed_text_nonvacuous': 'PatSound holds for the pattern lists of parse_group, parse_command and the group opener; a concrete scan returns #-12 on line 2',
    'C15_command_ascii_nonvacuous': 'long-s ORT / dotless-i TERATE are not commands (rejected on their line), #<Arabic digit> is no integer, sOrT is a command',
}
RULE = ('exhaustive: FUNCTION bodies of <=3 tokens over every token kind (names of operator characters, quoted names, negative '
        'integers, strings containing % # { }) with function literals nested <=2, all commands x 3 spellings singly and in pairs, '
        'each under 4-6 lay-outs; every single-lexeme corruption (delete, duplicate, replace by each kind, truncate) and every '
        'character truncation of a base set; seeded random large programs with random lay-outs; random raw text; random lines for '
        'strip_comment; corpus: all .bst files of tests/data; every lexeme of the base programs replaced by lexically broken pieces (#, #-, '
        '#+1, #a, "x, x") and by Unicode look-alikes (long-s / dotless-i command names, non-ASCII decimal digits); integers of 4299-5000 '
        'digits and nesting 50-1000 deep (flat comparison); pairs of programs differing in exactly one place compared with the real ==; function level (ops bstscan / bstgroup / bstlit / bstlines / bstconst): '
        'eat_whitespace, update_lineno, required with the three pattern lists, parse_group, parse_command, the literal constructors, the line '
        'conventions and the text each entry point hands to BstParser on all short texts + random ones; the character classes of the compiled '
        'patterns over all code points; str(error) and error.filename of every rejection.  '
        'non-trivial = source with >= 2 lexemes; distinct by case JSON')
TRUSTED = ['Python twin of the Lean printer in this module (its output is compared with the Lean `print` on every case)',
           'Errors.syntaxStr (Model/Errors.lean, property C16) as the model of PybtexSyntaxError.__str__; compared with str(error) on every rejected case',
           'sys.get_int_max_str_digits() of the running interpreter (regenerated into Gen/BstCommands.lean; must equal the reference 4300)']
ASSUMPTIONS = ['function literals nested less than DEEP_NESTING = 300 levels deep: beyond about 0.7 x sys.getrecursionlimit() levels the recursive '
               'parse_group raises RecursionError (recorded finding C15-deep-nesting-recursion; the model and the theorems have no such limit)',
               'integer tokens of at most 4300 digits are well-formed (WFProg / wfInt); longer ones are rejected with a syntax error (C15-3)']

# ------------------------------------------------------------------------------------------------
# implementation side


def _canon_tok(t):
    from pybtex.bibtex.interpreter import FunctionLiteral, Identifier, Integer, QuotedVar, String
    ty = type(t)
    if ty is FunctionLiteral:
        return ['F', [_canon_tok(x) for x in t.body]]
    if ty is Integer:
        return ['Integer', t.value()]
    if ty is String:
        return ['String', t.value()]
    if ty is QuotedVar:
        return ['QuotedVar', t.value()]
    if ty is Identifier:
        return ['Identifier', t.value()]
    raise TypeError('unexpected token object %r' % (t,))


def _canon_prog(cmds):
    out = []
    for c in cmds:
        if not (isinstance(c, list) and c and isinstance(c[0], str)):
            raise TypeError('unexpected command %r' % (c,))
        out.append({'c': c[0], 'g': [[_canon_tok(t) for t in g] for g in c[1:]]})
    return out


FILE_TAG = '<FILE>'


def _err_fields(e, path=None):
    """What a caller sees of a PybtexSyntaxError: class, lineno, args[0], str(error), error.filename (the scratch file of
    this harness is written <FILE>)."""
    try:
        text = str(e)
    except Exception as x:  # noqa
        text = compat.pybtex_error_kind(x)
    fn = getattr(e, 'filename', None)
    if path is not None and fn == path:
        fn = FILE_TAG
    return {'err': type(e).__name__, 'line': e.lineno, 'msg': e.args[0] if e.args else None, 'str': text, 'filename': fn}


def _core(o):
    """An outcome without the rendering fields (the reference readings of the spec have class, line and message only)."""
    if isinstance(o, dict) and 'err' in o:
        return {k: v for k, v in o.items() if k not in ('str', 'filename')}
    return o


def _outcome(thunk, path=None):
    from pybtex.scanner import PybtexSyntaxError
    try:
        return {'ok': _canon_prog(list(thunk()))}
    except PybtexSyntaxError as e:
        return _err_fields(e, path)
    except Exception as e:  # noqa
        return {'err': compat.pybtex_error_kind(e)}


def _flat_toks(toks):
    """Pre-order token list with explicit braces, integers as decimal strings; iterative (no recursion: used for very
    deep nesting)."""
    from pybtex.bibtex.interpreter import FunctionLiteral, Identifier, Integer, QuotedVar, String
    tags = {Integer: 'i', String: 's', QuotedVar: 'q', Identifier: 'n'}
    out = []
    depth = 0
    stack = [iter(toks)]
    while stack:
        try:
            t = next(stack[-1])
        except StopIteration:
            stack.pop()
            if stack:
                out.append('}')
            continue
        ty = type(t)
        if ty is FunctionLiteral:
            out.append('{')
            stack.append(iter(t.body))
            depth = max(depth, len(stack) - 1)
        elif ty in tags:
            v = t.value()
            out.append([tags[ty], str(v) if ty is Integer else v])
        else:
            raise TypeError('unexpected token object of type %s' % ty.__name__)
    return out, depth


def _outcome_flat(thunk, path=None):
    from pybtex.scanner import PybtexSyntaxError
    try:
        cmds = list(thunk())
        prog = []
        depth = 0
        for c in cmds:
            gs = []
            for g in c[1:]:
                f, d = _flat_toks(g)
                depth = max(depth, d)
                gs.append(f)
            prog.append({'c': c[0], 'g': gs})
        return {'ok_flat': prog, 'depth': depth}
    except PybtexSyntaxError as e:
        return _err_fields(e, path)
    except Exception as e:  # noqa
        return {'err': compat.pybtex_error_kind(e)}


_TMP = None


def _tmpfile():
    global _TMP
    if _TMP is None or _TMP[0] != os.getpid():
        d = tempfile.mkdtemp(prefix='verif-c15-')
        atexit.register(shutil.rmtree, d, True)
        _TMP = (os.getpid(), os.path.join(d, 'x.bst'))
    return _TMP[1]


def outcomes(text, flat=False):
    from pybtex.bibtex import bst
    oc = _outcome_flat if flat else _outcome
    res = {'string': oc(lambda: bst.parse_string(text)),
           'stream': oc(lambda: bst.parse_stream(io.StringIO(text)))}
    path = _tmpfile()
    with open(path, 'w', encoding='utf-8', newline='') as f:
        f.write(text)
    res['file'] = oc(lambda: bst.parse_file(path, encoding='utf-8'), path)
    return res


def equality(text1, text2):
    """The real `==` / `!=` of the parse results (lists of str and of the interpreter's token objects)."""
    from pybtex.bibtex import bst

    def parse(t):
        try:
            return list(bst.parse_string(t))
        except Exception:  # noqa
            return None
    a, a2, b = parse(text1), parse(text1), parse(text2)
    res = {'text1': text1, 'text2': text2, 'p1': _outcome(lambda: bst.parse_string(text1)),
           'p2': _outcome(lambda: bst.parse_string(text2)), 'eq': None, 'ne': None, 'eq_self': None}
    try:
        if a is not None and b is not None:
            res['eq'] = bool(a == b)
            res['ne'] = bool(a != b)
        if a is not None and a2 is not None:
            res['eq_self'] = bool(a == a2)
    except Exception as e:  # noqa
        res['eq'] = compat.pybtex_error_kind(e)
    return res


def _digest(o):
    """Large results (corpus files) are compared through a digest + size."""
    if isinstance(o, dict) and 'ok' in o:
        s = json.dumps(o['ok'], sort_keys=True, ensure_ascii=False)
        return {'ok_sha1': hashlib.sha1(s.encode('utf-8')).hexdigest(), 'commands': len(o['ok'])}
    return o


# ------------------------------------------------------------------------------------------------
# Python twin of Spec/Bst.lean `render` / `print` (checked against the Lean one on every case)

def lex_text(l):
    k = l[0]
    if k == 'w':
        return l[1]
    if k == 'i':
        return '#' + str(l[1])
    if k == 's':
        return '"' + l[1] + '"'
    if k == 'raw':
        return l[1]
    return k


def needs_gap(prev, nxt):
    return prev is not None and prev[0] in ('w', 'i') and nxt[0] == 'w'


def gap_text(g):
    return ''.join(it[1] if it[0] == 'ws' else '%' + it[1] + it[2] for it in g)


def render(lexs, layout):
    gaps = layout['gaps']
    out = []
    prev = None
    for i, l in enumerate(lexs):
        g = gaps[i] if i < len(gaps) else []
        out.append(' ' if needs_gap(prev, l) and not g else gap_text(g))
        out.append(lex_text(l))
        prev = l
    n = len(lexs)
    out.append(gap_text(gaps[n] if n < len(gaps) else []))
    if layout.get('trailer') is not None:
        out.append('%' + layout['trailer'])
    return ''.join(out)


def tok_lexemes(t):
    k = t[0]
    if k == 'Integer':
        return [['i', t[1]]]
    if k == 'String':
        return [['s', t[1]]]
    if k == 'QuotedVar':
        return [['w', "'" + t[1]]]
    if k == 'Identifier':
        return [['w', t[1]]]
    out = [['{']]
    for x in t[1]:
        out += tok_lexemes(x)
    return out + [['}']]


def prog_lexemes(prog):
    out = []
    for c in prog:
        out.append(['w', c['c']])
        for g in c['g']:
            out.append(['{'])
            for t in g:
                out += tok_lexemes(t)
            out.append(['}'])
    return out


def case_text(case):
    op = case['op']
    if op == 'bstrt':
        return render(prog_lexemes(case['prog']), case['layout'])
    if op == 'bstlex':
        return render(case['lexs'], case['layout'])
    if op == 'bstparse':
        if 'file' in case:
            return open(os.path.join(compat.REPO, case['file']), encoding='utf-8', newline='').read()
        return case['src']
    raise ValueError(op)


def impl(case):
    op = case['op']
    if op in c15_func.FUNCTION_OPS:
        return c15_func.impl(case, _err_fields, _flat_toks)
    if op == 'bststrip':
        from pybtex.bibtex import bst
        try:
            return bst.strip_comment(case['line'])
        except Exception as e:  # noqa
            return {'err': compat.pybtex_error_kind(e)}
    if op == 'bsteq':
        return equality(render(prog_lexemes(case['prog']), case['layout']), render(prog_lexemes(case['prog2']), case['layout2']))
    text = case_text(case)
    res = outcomes(text, flat=bool(case.get('flat')))
    if case.get('digest'):
        return {k: _digest(v) for k, v in res.items()}
    if op != 'bstparse':
        res['text'] = text
    return res


def to_request(case):
    if case['op'] == 'bstconst':
        return {'op': 'bstconst'}
    if case['op'] == 'bstparse' and 'file' in case:
        return {'op': 'bstparse', 'src': case_text(case)}
    return case


def model_out(case, reply):
    out = reply.get('out')
    if case.get('digest'):
        return {k: _digest(v) for k, v in out.items()}
    return out


# ------------------------------------------------------------------------------------------------
# oracle: the clauses of the property evaluated on the implementation's output, reference values
# from the Lean spec (reply['spec'])

def _reparse(text):
    from pybtex.bibtex import bst
    return _outcome(lambda: bst.parse_string(text))


COMMANDS_REF = {'ENTRY': 3, 'EXECUTE': 1, 'FUNCTION': 2, 'INTEGERS': 1, 'ITERATE': 1, 'MACRO': 2, 'READ': 0, 'REVERSE': 1,
                'SORT': 0, 'STRINGS': 1}    # the ten commands of the property ("all ten commands ... with their argument groups")
_ASCII_UP = {i: i - 32 for i in range(ord('a'), ord('z') + 1)}
_ASCII_INT = __import__('re').compile(r'#(-?[0-9]+)')


def _ints_of(groups):
    """Integer values of a canonical (nested or flat) group list, iteratively."""
    out = []
    stack = [groups]
    while stack:
        x = stack.pop()
        if isinstance(x, list):
            if len(x) == 2 and x[0] in ('Integer', 'i') and not isinstance(x[1], list):
                out.append(int(x[1]))
            else:
                stack.extend(x)
    return out


def accepted_clauses(text, s):
    """Clauses on an ACCEPTED source (parse_string returned a program): every command name is an ASCII-case spelling of one
    of the ten commands and carries that command's number of groups; every integer token is spelled in the source with
    ASCII digits ('malformed source is rejected': 'ſORT' is no command, '#٣' no integer)."""
    fails = []
    prog = s.get('ok', s.get('ok_flat'))
    if prog is None:
        return fails
    asc = None
    for c in prog:
        name = c['c']
        ar = COMMANDS_REF.get(name.translate(_ASCII_UP)) if isinstance(name, str) else None
        if ar is None:
            fails.append('command_names: %r is accepted as a command; it is not one of the ten commands in any ASCII letter case' % (name,))
        elif ar != len(c['g']):
            fails.append('command_names: command %r is returned with %d argument groups instead of %d' % (name, len(c['g']), ar))
        try:
            ints = _ints_of(c['g'])
        except ValueError:     # longer than this interpreter converts: spelled with ASCII digits or int() had refused it
            ints = []
        for v in ints:
            if asc is None:
                asc = set()
                for m in _ASCII_INT.finditer(text):
                    try:
                        asc.add(int(m.group(1)))
                    except ValueError:
                        pass
            if v not in asc:
                fails.append('integer_tokens: Integer(%d) is returned but the source spells no such integer with ASCII digits' % v)
    return fails[:3]


FUNCTION_OPS = c15_func.FUNCTION_OPS
reconcile = c15_func.reconcile
_SYNTAX_CLASSES = ('PybtexSyntaxError', 'TokenRequired', 'PrematureEOF')


def names_line_clause(impl_out):
    """'malformed source is rejected with a syntax error that names the line': the text of the error (str(error)) says
    'syntax error' and contains the number error.lineno as a word after 'line'."""
    import re
    fails = []
    for ep in ('string', 'stream', 'file'):
        o = impl_out.get(ep) if isinstance(impl_out, dict) else None
        if isinstance(o, dict) and o.get('err') in _SYNTAX_CLASSES and isinstance(o.get('line'), int) and 'str' in o:
            t = o['str']
            if not (isinstance(t, str) and re.search(r'\bline %d\b' % o['line'], t) and 'syntax error' in t):
                fails.append('malformed_located: parse_%s rejects the source on line %d but the text of the error, %r, does not '
                             'name that line as a syntax error' % (ep, o['line'], t))
                break
    return fails


def oracle(case, impl_out, reply):
    fails = []
    op = case['op']
    spec = reply.get('spec')
    if op == 'bststrip':
        if impl_out != spec:
            fails.append('comment: strip_comment(%r) = %r, but the text before the first %% outside a string literal is %r' % (
                case['line'], impl_out, spec))
        return fails
    if op == 'bsteq':
        if impl_out.get('text1') != reply['out'].get('text1') or impl_out.get('text2') != reply['out'].get('text2'):
            fails.append('printer: the Python twin of the printer differs from the Lean print (harness problem)')
        if spec['wf']:
            if impl_out['eq_self'] is not True:
                fails.append('equality: parse(src) == parse(src) is %r for src = %r' % (impl_out['eq_self'], impl_out['text1'][:200]))
            if impl_out['eq'] is not spec['same'] or impl_out['ne'] is not (not spec['same']):
                fails.append('equality: the programs written are %s, but parse(a) == parse(b) is %r and parse(a) != parse(b) is %r '
                             '[a = %r, b = %r]' % ('the same' if spec['same'] else 'different', impl_out['eq'], impl_out['ne'],
                                                   impl_out['text1'][:200], impl_out['text2'][:200]))
        return fails
    if op in FUNCTION_OPS:
        return fails      # function-level correspondence only: the clauses of the property are evaluated on the entry points
    fails += names_line_clause(impl_out)
    if case.get('digest'):
        s = impl_out['string']
        if 'ok_sha1' not in s:
            fails.append('corpus: style file %s is rejected: %r' % (case.get('file'), s))
        if not (_core(impl_out['string']) == _core(impl_out['stream']) == _core(impl_out['file'])):
            fails.append('entry_points: parse_string / parse_stream / parse_file differ on %s' % case.get('file'))
        return fails
    s = impl_out['string']
    if op == 'bstrt':
        if impl_out.get('text') != reply['out'].get('text'):
            fails.append('printer: the Python twin of the printer differs from the Lean print (harness problem)')
        if spec['wf']:
            if s != {'ok': spec['prog']}:
                fails.append('roundtrip: parse_string(print(p, L)) = %s differs from the program p' % json.dumps(s, ensure_ascii=False)[:300])
            if spec['plain'] and not (_core(impl_out['stream']) == _core(s) and _core(impl_out['file']) == _core(s)):
                fails.append('entry_points: parse_stream/parse_file differ from parse_string on a printed program: %s / %s' % (
                    json.dumps(impl_out['stream'], ensure_ascii=False)[:200], json.dumps(impl_out['file'], ensure_ascii=False)[:200]))
    elif op == 'bstlex':
        if impl_out.get('text') != reply['out'].get('text'):
            fails.append('printer: the Python twin of the printer differs from the Lean render (harness problem)')
        if spec['wf']:
            want = spec['reading']
            if _core(s) != want:
                clause = 'roundtrip' if 'ok' in want else 'malformed_located'
                fails.append('%s: parse_string gives %s, the lexeme sequence reads as %s' % (
                    clause, json.dumps(s, ensure_ascii=False)[:300], json.dumps(want, ensure_ascii=False)[:300]))
            if spec['plain'] and not (_core(impl_out['stream']) == _core(s) and _core(impl_out['file']) == _core(s)):
                fails.append('entry_points: parse_stream/parse_file differ from parse_string on rendered lexemes')
    elif op == 'bstparse':
        # comments: parsing is unaffected by removing, from every line, the text from the first % outside a string
        if not case.get('flat'):
            again = _reparse('\n'.join(spec['stripped']) + '\n')
            if again != s:
                fails.append('comment: parse_string(src) = %s but without the comments (%r) it is %s' % (
                    json.dumps(s, ensure_ascii=False)[:200], spec['stripped'][:5], json.dumps(again, ensure_ascii=False)[:200]))
        if 'err' in s and not s['err'].startswith('INTERNAL'):
            nlines = max(1, len(spec['lines']))
            if not (isinstance(s.get('line'), int) and 1 <= s['line'] <= nlines):
                fails.append('malformed_located: error line %r is not a line of the source (%d lines)' % (s.get('line'), nlines))
        if spec['plain'] and spec['notrail'] and not (_core(impl_out['stream']) == _core(s) and _core(impl_out['file']) == _core(s)):
            fails.append('entry_points: parse_stream/parse_file differ from parse_string on plain text: %s / %s' % (
                json.dumps(impl_out['stream'], ensure_ascii=False)[:200], json.dumps(impl_out['file'], ensure_ascii=False)[:200]))
    if isinstance(s, dict) and str(s.get('err', '')).startswith('INTERNAL'):
        depth = spec.get('brace_depth') if isinstance(spec, dict) else None
        fails.append('malformed_located: parse_string raised a non-pybtex exception %s%s' % (
            s['err'], ' [braces nested %d deep]' % depth if depth is not None else ''))
    if isinstance(s, dict) and ('ok' in s or 'ok_flat' in s):
        fails += accepted_clauses(impl_out.get('text', None) if op != 'bstparse' else case_text(case), s)
    return fails


# Python's recursion limit: parse_group is a recursive generator (about two interpreter frames per nesting level).
DEEP_NESTING = 300


def _known_deep_nesting(case, impl_out, failure_text):
    """EXACTLY: parse_string raised RecursionError on a source whose braces are nested at least DEEP_NESTING deep."""
    import re
    m = re.match(r'malformed_located: parse_string raised a non-pybtex exception INTERNAL:RecursionError \[braces nested (\d+) deep\]$',
                 failure_text)
    return bool(m) and int(m.group(1)) >= DEEP_NESTING and case.get('op') == 'bstparse'


KNOWN_MODEL_DIFFERS = {'C15-deep-nesting-recursion'}   # the model parses at every depth; the code hits the interpreter's recursion limit
KNOWN_MATCHERS = {'C15-deep-nesting-recursion': _known_deep_nesting}


def buckets(case, impl_out):
    op = case['op']
    if op in c15_func.FUNCTION_OPS:
        if isinstance(impl_out, dict) and isinstance(impl_out.get('error'), dict):
            res = 'error:' + str(impl_out['error'].get('msg') or impl_out['error'].get('err'))[:14]
        elif isinstance(impl_out, dict) and 'err' in impl_out:
            res = 'error:' + str(impl_out['err'])
        elif isinstance(impl_out, dict) and 'tok' in impl_out:
            res = 'tok:' + str(impl_out['tok'][0])
        else:
            res = 'ok'
        return ['%s:%s:%s' % (op, case.get('which', case.get('kind', '-')), res)]
    if op == 'bststrip':
        return ['strip:' + ('cut' if isinstance(impl_out, str) and impl_out != case['line'] else 'same')]
    if op == 'bsteq':
        return ['bsteq:%s:%s' % (case.get('kind', '-'), impl_out.get('eq') if isinstance(impl_out, dict) else '?')]
    s = impl_out.get('string', {}) if isinstance(impl_out, dict) else {}
    if 'err' in s:
        kind = '%s:%s' % (s['err'], (s.get('msg') or '')[:14])
    else:
        kind = 'ok'
    return ['%s:%s:%s' % (op, case.get('lay', case.get('kind', '-')), kind)]


def nontrivial(case, impl_out):  # noqa: F811
    if case['op'] in c15_func.FUNCTION_OPS:
        return len(case.get('text', case.get('src', case.get('value', 'xx')))) >= 2
    if case['op'] == 'bststrip':
        return '%' in case['line'] or '"' in case['line']
    if case['op'] == 'bstrt':
        return len(prog_lexemes(case['prog'])) >= 2
    if case['op'] == 'bstlex':
        return len(case['lexs']) >= 2
    if case['op'] == 'bsteq':
        return len(prog_lexemes(case['prog'])) + len(prog_lexemes(case['prog2'])) >= 2
    return len(case_text(case).split()) >= 2


def valid_case(case):
    return isinstance(case, dict) and case.get('op') in ('bstrt', 'bstlex', 'bstparse', 'bststrip', 'bsteq') + c15_func.FUNCTION_OPS


# ------------------------------------------------------------------------------------------------
# generators

STYLE_FILES = ['plain', 'apacite', 'jurabib', 'alpha', 'unsrt', 'unsrt_mixed', 'IEEEtran']


def corpus():
    known = [
        {'op': 'bstparse', 'kind': 'kat', 'src': 'ENTRY {a}{}{b}\nFUNCTION {f} {#-1 \'x "100% {" := { + } }% c\nREAD'},
        {'op': 'bstparse', 'kind': 'kat', 'src': 'read\n\nfoo {'},
        {'op': 'bstparse', 'kind': 'kat', 'src': 'FUNCTION {f} {"abc\n'},
        {'op': 'bstparse', 'kind': 'kat', 'src': 'ITERATE {x\n\n'},
    ]
    return known + corpus_for(ID)


def style_file_cases():
    """The .bst files of tests/data (the three of tests/bst_parser_test + the others), compared through a digest.
    Appended after the generated cases so that a small generated input is reported first when something breaks."""
    return [{'op': 'bstparse', 'kind': 'file', 'file': 'tests/data/%s.bst' % n, 'digest': True} for n in STYLE_FILES
            if os.path.exists(os.path.join(compat.REPO, 'tests/data/%s.bst' % n))]


ATOMS_QUICK = [['Identifier', ':='], ['QuotedVar', 'x'], ['Integer', -1], ['String', '%#{'], ['Identifier', "a'+*"]]
ATOMS_MORE = [['Identifier', '+'], ['Identifier', '*'], ['QuotedVar', ':='], ['QuotedVar', ''], ['Integer', 0],
              ['Integer', 12], ['String', ''], ['String', 'a b}']]

ARITY = {'ENTRY': 3, 'EXECUTE': 1, 'FUNCTION': 2, 'INTEGERS': 1, 'ITERATE': 1, 'MACRO': 2, 'READ': 0, 'REVERSE': 1,
         'SORT': 0, 'STRINGS': 1}   # generator-side only (shapes of the generated programs); the model uses the regenerated table

WS_ALL = [chr(c) for c in [9, 10, 11, 12, 13, 28, 29, 30, 31, 32, 133, 160, 5760, 8192, 8193, 8194, 8195, 8196, 8197, 8198,
                           8199, 8200, 8201, 8202, 8232, 8233, 8239, 8287, 12288]]
SEPS = [chr(c) for c in [10, 11, 12, 13, 28, 29, 30, 133, 8232, 8233]]


def mk_layout(name, n):
    """Named lay-outs for a text of n lexemes (n + 1 gaps)."""
    if name == 'space':
        return {'gaps': [[]] + [[['ws', ' ']] for _ in range(n)], 'trailer': None}
    if name == 'newline':
        return {'gaps': [[['ws', '\n']] for _ in range(n + 1)], 'trailer': None}
    if name == 'comment':
        return {'gaps': [[['cm', ' c"%', '\n']]] + [[['ws', ' '], ['cm', 'it\'s "100%', '\n']] for _ in range(n)], 'trailer': 'end "'}
    if name == 'crlf':
        return {'gaps': [[['ws', '\r'], ['ws', '\n']] for _ in range(n + 1)], 'trailer': None}
    if name == 'tight':
        return {'gaps': [], 'trailer': None}
    if name == 'exotic':
        cyc = [[['ws', '\x0b']], [['cm', 'x', '\r'], ['ws', '\n']], [['ws', '\x85'], ['ws', '\t']], [['cm', '', ' ']],
               [['ws', '\r']], [['ws', '\xa0'], ['cm', '%"', '\x0c'], ['ws', '　']]]
        return {'gaps': [cyc[i % len(cyc)] for i in range(n + 1)], 'trailer': 'z'}
    raise ValueError(name)


def rt_case(prog, lay):
    return {'op': 'bstrt', 'lay': lay, 'prog': prog, 'layout': mk_layout(lay, len(prog_lexemes(prog)))}


def seqs(alphabet, maxlen):
    for n in range(maxlen + 1):
        for t in itertools.product(alphabet, repeat=n):
            yield list(t)


def token_universe(atoms, depth, inner_len):
    toks = list(atoms)
    for _ in range(depth):
        toks = list(atoms) + [['F', b] for b in seqs(toks, inner_len)]
    return toks


def spellings(name):
    return [name, name.lower(), name.capitalize()[:2] + name[2:].lower().swapcase() if len(name) > 2 else name.capitalize()]


def command(name_as_written, body):
    ar = ARITY[name_as_written.upper()]
    groups = [[['Identifier', 'f.%d' % i]] for i in range(ar)]
    if ar:
        groups[-1] = body
    return {'c': name_as_written, 'g': groups}


def gen_exhaustive(tier, info):
    atoms = ATOMS_QUICK if tier == 'quick' else ATOMS_QUICK + ATOMS_MORE
    layouts = ['space', 'newline', 'comment', 'crlf'] + (['tight', 'exotic'] if tier != 'quick' else [])
    toks = token_universe(atoms, 2, 1)
    cases = []
    nb = 0
    for body in seqs(toks, 3):
        nb += 1
        prog = [{'c': 'FUNCTION', 'g': [[['Identifier', 'f']], body]}]
        for lay in layouts:
            cases.append(rt_case(prog, lay))
    cmds = []
    for name in ARITY:
        for sp in spellings(name):
            cmds.append(command(sp, [['Identifier', 'a'], ['F', [['Integer', -1]]]]))
    npairs = 0
    for prog in [[c] for c in cmds] + [[a, b] for a in cmds for b in cmds]:
        npairs += 1
        for lay in layouts + (['tight'] if tier == 'quick' else []):
            cases.append(rt_case(prog, lay))
    info['scope'] = ('round trip: all %d FUNCTION bodies of <=3 tokens over %d tokens (%d atoms incl. operator names, quoted names, '
                     'negative integers, strings with %% # { }, + function literals nested <=2 with <=1 inner token) x lay-outs %r; '
                     'all %d programs of 1 or 2 commands over the ten commands x 3 spellings; ' % (
                         nb, len(toks), len(atoms), layouts, npairs))
    return cases


REPLACEMENTS = [['w', 'foo'], ['w', "'q"], ['w', 'READ'], ['w', 'function'], ['i', -1], ['s', 'x%'], ['{'], ['}']]
# lexically broken pieces (no lexeme at all), a lone quote mark of a quoted name, and look-alikes of commands / digits that
# only a Unicode-aware upper() / \d accepts; each entry is a list of lexemes put in place of one
RAW_REPLACEMENTS = [[['raw', '#']], [['raw', '#-']], [['raw', '#+1']], [['raw', '#a']], [['raw', '"x']], [['w', "'"]],
                    [['w', 'x'], ['raw', '"']], [['raw', '#-a1']], [['raw', '#\u0663']], [['raw', '#-\u0967\u0968']],
                    [['raw', '#\U0001d7d1']], [['w', '\u017fORT']], [['w', '\u0131TERATE']], [['w', 'REVER\u017fE']], [['w', '\ufb01']],
                    [['w', '\u017fort'], ['{'], ['}']]]
UNICODE_COMMANDS = ['\u017fORT', '\u017fort', '\u0131TERATE', '\u0131terate', 'REVER\u017fE', '\u017fTRINGS', 'INTEGER\u017f', '\u0131NTEGERS',
                    'FUNCT\u0131ON', 'STR\u0131NGS', '\u0131NTEGER\u017f', 'MACR\u00d6', '\uff32\uff25\uff21\uff24', 'READ\u0301', '\ufb01']
NONASCII_DIGITS = ['\u0663', '\u0967\u0968', '\U0001d7d1', '\uff11', '1\u0663', '\u06f4\u06f2', '\u00b2', '\u2460', '\u0be7']


def gen_corruptions(tier, info):
    bases = []
    body = [['Identifier', ':='], ['F', [['String', '%'], ['F', []]]], ['Integer', -1]]
    for name in ARITY:
        bases.append([command(name, body)])
    bases += [[command('ENTRY', body), command('read', [])], [command('Function', body), command('ITERATE', body)],
              [command('sort', []), command('MACRO', body), command('EXECUTE', [['QuotedVar', 'x']])]]
    layouts = ['space', 'newline', 'crlf'] + (['comment', 'tight'] if tier != 'quick' else [])
    cases = []
    ntext = 0
    nraw = 0
    for prog in bases:
        lexs = prog_lexemes(prog)
        variants = []
        for i in range(len(lexs)):
            variants.append(('delete', lexs[:i] + lexs[i + 1:]))
            variants.append(('duplicate', lexs[:i + 1] + lexs[i:]))
            variants.append(('truncate', lexs[:i]))
            for r in REPLACEMENTS:
                if r != lexs[i]:
                    variants.append(('replace', lexs[:i] + [r] + lexs[i + 1:]))
        for kind, v in variants:
            for lay in layouts:
                cases.append({'op': 'bstlex', 'kind': kind, 'lay': lay, 'lexs': v, 'layout': mk_layout(lay, len(v))})
        # lexically broken pieces and Unicode look-alikes in place of every lexeme
        for i in range(len(lexs)):
            for r in RAW_REPLACEMENTS:
                v = lexs[:i] + r + lexs[i + 1:]
                for lay in (['newline'] if tier == 'quick' else ['space', 'newline', 'crlf', 'comment', 'tight']):
                    nraw += 1
                    cases.append({'op': 'bstlex', 'kind': 'rawrepl', 'lay': lay, 'lexs': v, 'layout': mk_layout(lay, len(v))})
        # every truncation of the text (cuts inside tokens: unterminated strings, '#', '#-')
        for lay in ['space', 'newline', 'comment']:
            text = render(lexs, mk_layout(lay, len(lexs)))
            for k in range(len(text)):
                ntext += 1
                cases.append({'op': 'bstparse', 'kind': 'cut', 'lay': lay, 'src': text[:k]})
    info['scope'] = info.get('scope', '') + ('corruptions: every delete / duplicate / truncate / replace-by-%d-lexemes of every lexeme of %d base '
                                             'programs (all ten commands) x lay-outs %r; every character truncation of their texts (%d); '
                                             'every lexeme of the base programs replaced by each of %d lexically broken pieces / Unicode look-alikes '
                                             '(#, #-, #+1, #a, "x, \', x", non-ASCII digits, long-s / dotless-i command names; %d cases)' % (
                                                 len(REPLACEMENTS), len(bases), layouts, ntext, len(RAW_REPLACEMENTS), nraw))
    return cases


# ------------------------------------------------------------------------------------------------
# Unicode look-alikes, resource limits, equality

def gen_unicode(tier, info):
    """Command names that only str.upper() maps onto a command, integers written with non-ASCII decimal digits."""
    cases = []
    body = [['Identifier', 'a'], ['Integer', 2]]
    for name in UNICODE_COMMANDS:
        for ngroups in (0, 1, 2, 3):
            lexs = [['w', 'READ'], ['w', name]]
            for _ in range(ngroups):
                lexs += [['{'], ['w', 'f'], ['}']]
            lexs += [['w', 'sort']]
            for lay in ('space', 'newline'):
                cases.append({'op': 'bstlex', 'kind': 'unicmd', 'lay': lay, 'lexs': lexs, 'layout': mk_layout(lay, len(lexs))})
    for d in NONASCII_DIGITS:
        for sign in ('', '-'):
            lexs = prog_lexemes([command('FUNCTION', body)])
            lexs = lexs[:-1] + [['raw', '#' + sign + d]] + lexs[-1:] + [['w', 'READ']]
            for lay in ('space', 'newline', 'tight'):
                cases.append({'op': 'bstlex', 'kind': 'unidigit', 'lay': lay, 'lexs': lexs, 'layout': mk_layout(lay, len(lexs))})
            cases.append({'op': 'bstparse', 'kind': 'unidigit', 'src': 'FUNCTION {f}\n{ #%s%s }\n' % (sign, d)})
            cases.append({'op': 'bstparse', 'kind': 'unidigit', 'src': 'FUNCTION {f}\n{ #%s7%s x }\n' % (sign, d)})
    info['scope'] = info.get('scope', '') + ('; Unicode: %d command look-alikes x 0-3 groups x 2 lay-outs, %d non-ASCII digit strings x sign '
                                             'as integer tokens' % (len(UNICODE_COMMANDS), len(NONASCII_DIGITS)))
    return cases


def gen_limits(tier, rng, info):
    """Resource limits of the running interpreter: integer literals around the int() digit limit, very deep nesting.
    Compared in flat form (pre-order token list, integers as decimal strings)."""
    import sys
    limit = sys.get_int_max_str_digits() if hasattr(sys, 'get_int_max_str_digits') else 4300
    cases = []
    for n in ([limit - 1, limit, limit + 1, limit + 700] if limit else [4299, 4301]):
        for sign in ('', '-'):
            for digit in ('7', '0'):
                cases.append({'op': 'bstparse', 'kind': 'bigint', 'flat': True,
                              'src': 'FUNCTION {f}\n{ a\n  #%s%s b }\nREAD' % (sign, digit * n)})
        cases.append({'op': 'bstparse', 'kind': 'bigint', 'flat': True, 'src': 'FUNCTION {f} {#%s%s}' % ('0' * (n - 3), '123')})
    depths = [50, 100, 200, 400, 600, 800, 1000] if tier == 'quick' else [50, 100, 150, 200, 250, 299, 300, 400, 500, 600, 700, 800, 900, 1000, 1500]
    for d in depths:
        cases.append({'op': 'bstparse', 'kind': 'deep', 'flat': True, 'src': 'FUNCTION {f} {' + '{' * d + '}' * d + '}'})
        cases.append({'op': 'bstparse', 'kind': 'deep', 'flat': True,
                      'src': 'FUNCTION {f}\n{' + ''.join('{ a%d #%d\n' % (i, i) for i in range(d)) + '"s"' + '}' * d + '}\nREAD'})
        cases.append({'op': 'bstparse', 'kind': 'deep', 'flat': True, 'src': 'ITERATE {' + '{x ' * d + '}' * (d - 1)})   # one brace short
    info['scope'] = info.get('scope', '') + ('; limits: integer literals of %s digits; function literals nested %r deep' % (
        '/'.join(str(n) for n in ([limit - 1, limit, limit + 1, limit + 700] if limit else [4299, 4301])), depths))
    return cases


def leaf_variants(tok):
    """Tokens that differ from `tok` (another value of the same class, the same value in another class, another body)."""
    k, v = tok
    if k == 'Integer':
        return [['Integer', v + 1], ['Integer', -v if v else 5], ['String', str(v)], ['Identifier', 'n%d' % abs(v)]]
    if k == 'String':
        out = [['String', v + 'x'], ['String', v[:-1] if v else ' '], ['QuotedVar', 'q']]
        if v and all(c in NAME_CHARS for c in v) and v[0] != "'":
            out += [['Identifier', v], ['QuotedVar', v]]
        if v.swapcase() != v:
            out.append(['String', v.swapcase()])
        return out
    if k == 'Identifier':
        return [['Identifier', v + 'x'], ['QuotedVar', v], ['String', v], ['Identifier', v.swapcase() if v.swapcase() != v else v + '.']]
    if k == 'QuotedVar':
        return [['QuotedVar', v + 'x'], ['String', v], ['String', "'" + v]] + ([['Identifier', v]] if v and v[0] != "'" else [])
    return [['F', v + [['Integer', 0]]], ['F', v[1:]] if v else ['F', [['F', []]]], ['F', [['F', v]]], ['Identifier', 'f']]


def one_leaf_changes(prog):
    """All programs that differ from `prog` in exactly one place (a token replaced / dropped / doubled at any depth, a command
    name respelled, a command dropped)."""
    def tok_changes(toks):
        for i, t in enumerate(toks):
            for r in leaf_variants(t):
                yield toks[:i] + [r] + toks[i + 1:]
            yield toks[:i] + toks[i + 1:]
            yield toks[:i + 1] + toks[i:]
            if t[0] == 'F':
                for b in tok_changes(t[1]):
                    yield toks[:i] + [['F', b]] + toks[i + 1:]
    for ci, c in enumerate(prog):
        for gi, g in enumerate(c['g']):
            for g2 in tok_changes(g):
                yield prog[:ci] + [{'c': c['c'], 'g': c['g'][:gi] + [g2] + c['g'][gi + 1:]}] + prog[ci + 1:]
        if c['c'].swapcase() != c['c']:
            yield prog[:ci] + [{'c': c['c'].swapcase(), 'g': c['g']}] + prog[ci + 1:]
        yield prog[:ci] + prog[ci + 1:]


def gen_equality(tier, rng, info):
    """parse(a) == parse(b) exactly when a and b spell the same program (the real == of the interpreter's token classes)."""
    bases = [[command('FUNCTION', [['Integer', 1], ['String', 'a'], ['Identifier', 'x'], ['QuotedVar', 'x'],
                                   ['F', [['Integer', 0], ['F', [['String', '']]]]]]), command('read', [])],
             [command('ENTRY', [['Identifier', 'b']]), command('MACRO', [['String', 'jan']]), command('SORT', [])]]
    for _ in range(2 if tier == 'quick' else 30):
        bases.append(rand_prog(rng, rng.randint(1, 3), 2))
    cases = []
    lays = ['space', 'newline', 'comment', 'tight']
    n = 0
    for p in bases:
        np_ = len(prog_lexemes(p))
        for la in lays[:2]:
            for lb in lays:
                cases.append({'op': 'bsteq', 'kind': 'same', 'prog': p, 'layout': mk_layout(la, np_), 'prog2': p,
                              'layout2': mk_layout(lb, np_)})
        for q in one_leaf_changes(p):
            n += 1
            la, lb = lays[n % 2], lays[(n // 2) % 4]
            cases.append({'op': 'bsteq', 'kind': 'leaf', 'prog': p, 'layout': mk_layout(la, np_), 'prog2': q,
                          'layout2': mk_layout(lb, len(prog_lexemes(q)))})
    info['scope'] = info.get('scope', '') + ('; equality: %d base programs against themselves under other lay-outs and against every program '
                                             'that differs in one place (token replaced by another value / class, dropped, doubled, at any '
                                             'depth; command respelled or dropped): %d pairs' % (len(bases), len(cases)))
    return cases


NAME_CHARS = "abcxyz.$:=+*-<>!?&|~^_/\\@;,()[]'0123456789"
STR_CHARS = 'ab %#{}\'\\~.,$ \t'


def rand_name(rng):
    while True:
        n = ''.join(rng.choice(NAME_CHARS) for _ in range(rng.randint(1, 8)))
        if n[0] != "'":
            return n


def rand_tok(rng, depth):
    r = rng.random()
    if r < 0.35:
        return ['Identifier', rand_name(rng)]
    if r < 0.5:
        return ['QuotedVar', ''.join(rng.choice(NAME_CHARS) for _ in range(rng.randint(0, 6)))]
    if r < 0.65:
        return ['Integer', rng.choice([0, 1, -1, 7, -12, 100, rng.randint(-10 ** 6, 10 ** 6), rng.randint(-10 ** 25, 10 ** 25)])]
    if r < 0.8 or depth <= 0:
        return ['String', ''.join(rng.choice(STR_CHARS) for _ in range(rng.randint(0, 10)))]
    return ['F', [rand_tok(rng, depth - 1) for _ in range(rng.randint(0, 4))]]


def rand_case_mask(rng, s):
    return ''.join(c.upper() if rng.random() < 0.5 else c.lower() for c in s)


def rand_prog(rng, ncmd, depth):
    prog = []
    for _ in range(ncmd):
        name = rng.choice(list(ARITY))
        prog.append({'c': rand_case_mask(rng, name),
                     'g': [[rand_tok(rng, depth) for _ in range(rng.randint(0, 6))] for _ in range(ARITY[name])]})
    return prog


COMMENT_CHARS = 'ab %"#{}\'\t'


def rand_gap(rng, plain):
    items = []
    for _ in range(rng.choice([0, 1, 1, 1, 2, 3])):
        r = rng.random()
        if r < 0.55:
            items.append(['ws', rng.choice(' \n\t') if plain or rng.random() < 0.6 else rng.choice(WS_ALL)])
        elif r < 0.7:
            items += [['ws', '\r'], ['ws', '\n']]
        else:
            txt = ''.join(rng.choice(COMMENT_CHARS) for _ in range(rng.randint(0, 8)))
            if plain or rng.random() < 0.6:
                items.append(['cm', txt, '\n'])
            elif rng.random() < 0.5:
                items += [['cm', txt, '\r'], ['ws', '\n']]
            else:
                items.append(['cm', txt, rng.choice(SEPS)])
    return items


def rand_layout(rng, n):
    plain = rng.random() < 0.5
    tr = None
    if rng.random() < 0.3:
        tr = ''.join(rng.choice(COMMENT_CHARS) for _ in range(rng.randint(0, 6)))
    return {'gaps': [rand_gap(rng, plain) for _ in range(n + 1)], 'trailer': tr}


RAW_ALPHABET = ['{', '}', '"', '#', '%', "'", '-', '+', '0', '1', '9', 'a', 'B', ' ', ' ', '\n', '\n', '\r', '\t', ':=', 'READ', 'read ', '\u0663', '\u017fort ',
                'FUNCTION', 'ENTRY ', 'iterate{x}', '{a}', '#1', '#-2', '"s"', '\x0b', '\x85', ' ', ' \n', '\r\n', '%c\n', '+', 'x$']


RAW_PREFIX = ['', '', 'FUNCTION {f} {', 'ENTRY {a}', 'MACRO {', 'read\n', 'INTEGERS', 'FUNCTION {f}\n{ "a', 'SORT %c\n', 'EXECUTE {x} ']


def rand_raw(rng):
    return rng.choice(RAW_PREFIX) + ''.join(rng.choice(RAW_ALPHABET) for _ in range(rng.randint(0, 14)))


def rand_line(rng):
    return ''.join(rng.choice(['%', '"', 'a', ' ', '#', '{', '}', 'b', '\t', "'"]) for _ in range(rng.randint(0, 9)))


def gen_cases(tier, rng, info):
    cases = gen_exhaustive(tier, info)
    cases += gen_corruptions(tier, info)
    cases += gen_unicode(tier, info)
    cases += gen_limits(tier, rng, info)
    cases += gen_equality(tier, rng, info)
    # exhaustive strip_comment: every line of length <= n over { % " a blank }
    n = 6 if tier == 'quick' else 8
    nstrip = 0
    for k in range(n + 1):
        for t in itertools.product('%"a ', repeat=k):
            nstrip += 1
            cases.append({'op': 'bststrip', 'line': ''.join(t)})
    info['scope'] += '; strip_comment: all %d lines of length <= %d over {%%, ", a, blank}' % (nstrip, n)
    info['exhaustive'] = True
    q = tier == 'quick'
    for i in range(300 if q else 6000):
        prog = rand_prog(rng, rng.randint(0, 6) if i % 10 else rng.randint(20, 60), rng.randint(0, 4))
        lay = rand_layout(rng, len(prog_lexemes(prog)))
        cases.append({'op': 'bstrt', 'lay': 'random', 'prog': prog, 'layout': lay})
    for i in range(1500 if q else 40000):
        prog = rand_prog(rng, rng.randint(1, 3), 2)
        lexs = prog_lexemes(prog)
        for _ in range(rng.randint(1, 2)):
            j = rng.randrange(len(lexs) + 1)
            r = rng.random()
            if r < 0.3 and lexs:
                del lexs[min(j, len(lexs) - 1)]
            elif r < 0.5:
                lexs.insert(j, rng.choice(REPLACEMENTS + [['w', rand_name(rng)]]))
            elif r < 0.6:
                lexs[j:j] = rng.choice(RAW_REPLACEMENTS)
            elif r < 0.72 and lexs:
                lexs[min(j, len(lexs) - 1)] = rng.choice(REPLACEMENTS)
            elif r < 0.8 and lexs:
                k = min(j, len(lexs) - 1)
                lexs[k:k + 1] = rng.choice(RAW_REPLACEMENTS + [[['raw', '#' + rng.choice(['', '-', '+', '--']) + rng.choice(['', 'x', '1', '\u0663', '"'])]]])
            else:
                lexs = lexs[:j]
        cases.append({'op': 'bstlex', 'kind': 'random', 'lay': 'random', 'lexs': lexs, 'layout': rand_layout(rng, len(lexs))})
    for i in range(3000 if q else 80000):
        cases.append({'op': 'bstparse', 'kind': 'raw', 'src': rand_raw(rng)})
    for i in range(1000 if q else 30000):
        cases.append({'op': 'bststrip', 'line': rand_line(rng)})
    cases += c15_func.gen(tier, rng, info, rand_raw, rand_name, STR_CHARS)
    cases += style_file_cases()
    return cases


LEVEL_TEXT = ('Machine-checked proofs (Lean 4) about an executable model of pybtex/bibtex/bst.py + the Scanner pieces it uses: '
              'strip_comment characterised exactly; print-then-parse is the identity for every well-formed program under every '
              'lay-out (any of the 29 white-space characters, %-comments ended by any line break, optional space around braces, '
              'any letter case of command names); located syntax errors for listed offence shapes after a well-formed prefix (incl. text '
              'ending inside groups at any depth); agreement of the entry points. '
              'The model is tied to the code by a differential check (exhaustive small scope + random + the seven style files of '
              'tests/data) and the oracle compares the implementation with an independent reference reading of lexeme sequences.')
LEVEL_NOTE = ('Trusted: Lean kernel; axioms propext/Classical.choice/Quot.sound only; the hand-written model (Model/BstParse.lean, '
              'Model/Scanner.lean, Model/Lines.lean) corresponds to the Python code only as far as the differential check explores; '
              're, str.splitlines, str.rstrip, str.translate and int() are modelled, not verified; the arity table and the int() digit limit are '
              'regenerated on every run and must equal the reference values (theorems C15_commands_table, C15_int_too_long_located_nonvacuous).  The model '
              'follows the code as repaired by proposed_fixes/C15-1.diff = /repo 5237556 (a command with too few groups is a syntax error), '
              'C15-2.diff (command names and integer digits are ASCII: long-s ORT and #<Arabic 3> are rejected) and C15-3.diff (an integer literal '
              'beyond the int() digit limit is a syntax error instead of ValueError).  Nesting several hundred levels deep raises RecursionError '
              '(recorded finding C15-deep-nesting-recursion).  Strings spanning several lines are parsed as the code does, but '
              'line numbers after them are off (the scanner does not count line breaks inside tokens) and parse_stream rstrips inside them '
              '(C15_entry_points_agree_neg); they are outside WFProg.  NOT PROVED: (1) general rejection -- no theorem says that EVERY '
              'source that is not a lay-out of a well-formed program is rejected; rejection with the right line is proved for the offence '
              'shapes of C15_malformed_located (4), C15_unclosed_groups_located, C15_lexical_error_located (3 positions) and '
              'C15_int_too_long_located behind a well-formed prefix; (2) soundness -- no theorem says that parse_string(src) = p implies '
              'that src spells p (the only fact about arbitrary accepted sources is C15_command_ascii, conjunct 2); a statement would '
              'need a spelling relation that admits multi-line strings and integer literals with leading zeros.  Both directions on '
              'arbitrary text (random raw text, every single-lexeme corruption and character truncation) are covered by the differential '
              'check and its independent reference reading only.  C15_command_case conjunct 1 and C15_unterminated_string_partial are '
              'about the spec function / an internal parser function (see their clause texts).  Function-level ops compare Scanner.eat_whitespace / '
              'update_lineno / required, parse_group, parse_command, the literal constructors, the line splitting of the three entry points and '
              'the text handed to BstParser one by one (pos and lineno in and out); the character classes [^#"{}\\s], [0-9], \\s, [^"] and '
              'the line breaks of str.splitlines are compared over ALL code points on every run (op bstconst) instead of being regenerated; '
              'Scanner.pos at the moment of an error, get_error_context / TokenRequired.get_context (modelled for C16) and the encoding '
              'argument of parse_file (always utf-8 here) are not part of the C15 model.')
