"""C09, extension: function-level correspondence and further entry points.

case ::= {"op": "fmt", "backend": B, "encoding": str|null, "php_extra": bool, "fn": F, "args": {...}}
             F = format_str {s} | format_tag {name, text} | format_href {url, text, external} | format_protected {text}
               | render_sequence {list} | symbol {name} | write_entry {key, label, text}
               | write_prologue {labels, preamble} | write_epilogue {}
       | {"op": "fmt", "fn": "longest_label", "args": {"labels": [...]}}   FormattedBibliography.get_longest_label()
       | {"op": "fmt", "fn": "width", "args": {"s": str}}                   pybtex.textutils.width
       | {"op": "fmt", "fn": "escape", "args": {"s": str}}                  the `escape` html.py / markdown.py import
       | {"op": "parse", "text": str, "level": int}                         LaTeXParser(text).parse(level) + scanner state
       | {"op": "render_as", "tree": tree, "name": str}                     text.render_as(name)

The real method is called on its own with already rendered arguments (any string, not only what a rendering produces), so
that a disagreement is localised to one function.  Oracle clauses are those of the property text that make sense for one call
(empty fragments vanish; HTML / Markdown / plain text `format_str`; LaTeX braces around exactly the text; `parse(0)` keeps
depths / locates the error); everything else is model-vs-code correspondence.
"""
import itertools

import compat  # noqa: F401
from props import c08
from props import c09_readers as R


def P():
    from props import c09
    return c09


FMT_FUNCS = ('format_str', 'format_tag', 'format_href', 'format_protected', 'render_sequence', 'symbol', 'write_entry',
             'write_prologue', 'write_epilogue')
HELPERS = ('longest_label', 'width', 'escape')


# ------------------------------------------------------------------------------------------------
# the implementation side
# ------------------------------------------------------------------------------------------------

def impl_fmt(case):
    p = P()
    fn = case['fn']
    a = case['args']
    try:
        if fn == 'longest_label':
            from pybtex.richtext import Text
            from pybtex.style import FormattedBibliography, FormattedEntry
            bib = FormattedBibliography([FormattedEntry('k%d' % i, Text(), lab) for i, lab in enumerate(a['labels'])], p._style())
            return {'text': bib.get_longest_label()}
        if fn == 'width':
            from pybtex.textutils import width
            return {'int': width(a['s'])}
        if fn == 'escape':
            from pybtex.backends import html, markdown
            r = html.escape(a['s'])
            if markdown.escape(a['s']) != r:
                return {'exception': 'INTERNAL:two-escapes', 'detail': 'html.escape and markdown.escape differ'}
            return {'text': r}
        b = p.make_backend(case['backend'], case.get('encoding'), bool(case.get('php_extra')))
        if fn == 'format_str':
            r = b.format_str(a['s'])
        elif fn == 'format_tag':
            r = b.format_tag(a['name'], a['text'])
        elif fn == 'format_href':
            r = b.format_href(a['url'], a['text'], bool(a.get('external')))
        elif fn == 'format_protected':
            r = b.format_protected(a['text'])
        elif fn == 'render_sequence':
            r = b.render_sequence(list(a['list']))
        elif fn == 'symbol':
            try:
                r = b.symbols[a['name']]
            except KeyError:
                return {'unknown_symbol': a['name']}
        else:
            out = []
            b.output = out.append
            if fn == 'write_entry':
                b.write_entry(a['key'], a['label'], a['text'])
            elif fn == 'write_prologue':
                from pybtex.richtext import Text
                from pybtex.style import FormattedBibliography, FormattedEntry
                b.formatted_bibliography = FormattedBibliography(
                    [FormattedEntry('k%d' % i, Text(), lab) for i, lab in enumerate(a['labels'])], p._style(), preamble=a['preamble'])
                b.write_prologue()
            elif fn == 'write_epilogue':
                b.write_epilogue()
            else:
                raise ValueError(fn)
            r = ''.join(out)
        if not isinstance(r, str):
            return {'exception': 'INTERNAL:not-a-string', 'detail': repr(type(r))}
        return {'text': r}
    except Exception as e:
        return p._exc(e)


def impl_parse(case):
    from pybtex.markup import LaTeXParser
    from pybtex.scanner import PybtexSyntaxError
    p = P()
    try:
        parser = LaTeXParser(case['text'])
        try:
            t = parser.parse(case['level'])
        except PybtexSyntaxError as e:
            info = e.error_context_info
            if info[0] != e.lineno or ('%s' % e) != 'syntax error in line %d: unbalanced braces' % e.lineno:
                return {'exception': 'INTERNAL:inconsistent-error', 'detail': '%r %r %s' % (e.lineno, info, e)}
            return {'error': [e.lineno, info[1]]}
        return {'tree': c08.dump(t), 'pos': parser.pos, 'lineno': parser.lineno}
    except Exception as e:
        return p._exc(e)


def impl_render_as(case):
    from pybtex.plugin import PluginNotFound
    p = P()
    try:
        obj = c08.build(case['tree'])
        try:
            return {'text': obj.render_as(case['name'])}
        except PluginNotFound:
            return {'plugin_not_found': case['name']}
    except Exception as e:
        return p._unknown_symbol(e, [case['tree']]) or p._exc(e)


def model_out(case, reply):
    out = reply['out']
    op = case['op']
    if out == 'EncodeError':
        return {'exception': 'PybtexError'}
    if op == 'fmt':
        if out == 'KeyError':
            return {'unknown_symbol': case['args'].get('name')}
        return out
    if op == 'render_as':
        if out == 'PluginNotFound':
            return {'plugin_not_found': case['name']}
        if out == 'KeyError':
            names = [y for y in P()._symbols(case['tree'], []) if y not in P().KNOWN_SYMBOLS]
            return {'unknown_symbol': names[0] if names else None}
        return out
    return out


# ------------------------------------------------------------------------------------------------
# oracle: the clauses of the property text that apply to one call
# ------------------------------------------------------------------------------------------------

def _html_chars(s):
    ok, why, runs = R.html_read(s)
    if not ok:
        return None
    return ''.join(r[1] for r in runs)


def oracle_fmt(case, io_, spec):
    p = P()
    fn = case['fn']
    a = case['args']
    fails = []
    if fn in HELPERS:
        if 'text' not in io_ and 'int' not in io_:
            return ['fmt_total: %s(%r) raised %s (%s)' % (fn, a, io_.get('exception'), io_.get('detail'))]
        if fn == 'escape' and _html_chars(io_['text']) != a['s']:
            fails.append('html_text: escape(%r) = %r is read back as %r' % (a['s'], io_['text'], _html_chars(io_['text'])))
        return fails
    b = case['backend']
    enc = case.get('encoding')
    if 'unknown_symbol' in io_:
        return [] if fn == 'symbol' and a['name'] not in p.KNOWN_SYMBOLS else ['fmt_total: KeyError(%r) from %s' % (io_['unknown_symbol'], fn)]
    if 'text' not in io_:
        kind = io_.get('exception', '')
        strings = [a.get('s', ''), a.get('url', '')]
        if b == 'latex' and fn in ('format_str', 'format_href') and not all(p._encodable(x, enc) for x in strings):
            if kind.startswith('INTERNAL:'):
                return ['render_error_class: %s of latex.Backend(%r) on %r raised %s (%s), not a pybtex error' % (fn, enc, strings, kind, io_.get('detail'))]
            return []
        return ['fmt_total: %s.%s(%r) raised %s (%s)' % (b, fn, a, kind, io_.get('detail'))]
    out = io_['text']
    text = a.get('text')
    if fn in ('format_tag', 'format_href') and text == '' and out != '':
        fails.append('empty_vanishes: %s.%s with an empty text returns %r' % (b, fn, out))
    if fn == 'format_str':
        s = a['s']
        if b == 'html' and _html_chars(out) != s:
            fails.append('html_text: format_str(%r) = %r is read back as %r by html.parser' % (s, out, _html_chars(out)))
        if b == 'markdown' and p.md_match(s, out, 0) != len(out):
            fails.append('md_escaped: format_str(%r) = %r: an escapable character is not escaped (or something else is altered)' % (s, out))
        if b == 'plaintext' and out != s:
            fails.append('plain: format_str(%r) = %r' % (s, out))
        if b == 'latex':
            if p.brace_balanced(s) and not p.brace_balanced(out):
                fails.append('latex_balanced: format_str(%r) = %r is not brace-balanced' % (s, out))
            if not p._encodable(out, enc):
                fails.append('latex_encodable: latex.Backend(%r).format_str(%r) = %r, which %s cannot represent' % (enc, s, out, enc))
            lost = [c for c in s if not p._encodable(c, enc) and p.untranslatable(c, enc)]
            if lost:
                fails.append('latex_untranslatable: latex.Backend(%r).format_str(%r) = %r although %r has no translation' % (enc, s, out, lost[:3]))
    if b == 'latex' and text and fn in ('format_tag', 'format_protected', 'format_href'):
        # the command and braces enclose exactly the text they were attached to
        url_short = fn == 'format_href' and out == '\\url{%s}' % a['url']
        if not url_short:
            head = out[:-(len(text) + 2)] if out.endswith('{%s}' % text) else None
            if head is None:
                fails.append('latex_scope: %s(%r) = %r does not end in the braced text' % (fn, a, out))
            elif fn != 'format_href' and ('{' in head or '}' in head):
                fails.append('latex_scope: %s(%r) = %r: braces before the group of the text' % (fn, a, out))
        if spec.get('text_balanced') and not p.brace_balanced(out):
            fails.append('latex_balanced: %s(%r) = %r is not brace-balanced' % (fn, a, out))
    if b == 'html' and text and fn in ('format_tag', 'format_protected', 'format_href') and spec.get('text_html') is not None:
        name_ok = fn != 'format_tag' or p._IDENT.match(a['name'])
        url_ok = fn != 'format_href' or p.ordinary_url(a['url'])
        if name_ok and url_ok:
            got = _html_chars(out)
            if got != spec['text_html']:
                fails.append('html_wellformed: %s(%r) = %r: html.parser reads %r, the text is %r' % (fn, a, out, got, spec['text_html']))
    if b == 'plaintext' and fn in ('format_tag', 'format_href', 'format_protected') and out != text:
        fails.append('plain: %s(%r) = %r' % (fn, a, out))
    return fails


def oracle_parse(case, io_, spec):
    p = P()
    if 'exception' in io_:
        return ['from_latex_total: LaTeXParser(%r).parse(%d) raised %s (%s)' % (case['text'][:80], case['level'], io_['exception'], io_.get('detail'))]
    if case['level'] != 0:
        return []          # the property speaks about whole values (level 0); other levels: correspondence only
    fails = []
    at = spec['unbalanced_at']
    if at is not None:
        exp = [1 + R_count_newlines(case['text'][:at]), at]
        if io_.get('error') != exp:
            fails.append('from_latex_error_located: unbalanced text %r: expected the syntax error at (line, pos) = %r, got %r' % (
                case['text'][:80], exp, io_.get('error', 'a result')))
        return fails
    if 'error' in io_:
        return ['from_latex_error_located: balanced text %r reported as unbalanced at %r' % (case['text'][:80], io_['error'])]
    got = p.tree_depths(io_['tree'], 0, [])
    if got != spec['depths'] or got != p.brace_depths(case['text']):
        fails.append('from_latex_depth: the rich text has (char, depth) %r, the text has %r' % (got[:40], spec['depths'][:40]))
    return fails


def R_count_newlines(s):
    return s.count('\n') + s.count('\r') - s.count('\r\n')


def oracle_render_as(case, io_, spec):
    p = P()
    if 'exception' in io_:
        return ['render_total: render_as(%r) raised %s (%s)' % (case['name'], io_['exception'], io_.get('detail'))]
    if 'text' in io_ and spec.get('backend'):
        direct = p.impl_render({'tree': case['tree'], 'backend': spec['backend']})
        if direct.get('text') != io_['text']:
            return ['render_as_same: render_as(%r) = %r, render(%s.Backend()) = %r' % (case['name'], io_['text'], spec['backend'], direct)]
    return []


# ------------------------------------------------------------------------------------------------
# generators
# ------------------------------------------------------------------------------------------------

FMT_CONFIGS = [('html', None, False), ('markdown', None, False), ('markdown', None, True), ('latex', None, False), ('latex', 'ascii', False),
               ('latex', 'iso-8859-2', False), ('plaintext', None, False)]
RENDERED = ['', 'x', 'a}b', '{a}', '<i>x</i>', 'R&amp;D', '\\emph{x}', '*', ' ', 'a<b', u'é']
LABEL_POOL = ['i', 'W', 'ab', 'ba', 'M', '', u'é', u'中', u'ﬁ', 'A+', '{x}']


def fmt_case(b, enc, php, fn, **args):
    return {'op': 'fmt', 'backend': b, 'encoding': enc, 'php_extra': php, 'fn': fn, 'args': args}


def fmt_cases(quick):
    p = P()
    for b, enc, php in FMT_CONFIGS:
        for s in list(p.strings_upto(p.ALPHA, 1)) + p.WORDS + p.NONASCII_WORDS:
            yield fmt_case(b, enc, php, 'format_str', s=s)
        for n in p.TAGS_KNOWN + p.TAGS_UNKNOWN + p.TAGS_ODD:
            for t in RENDERED:
                yield fmt_case(b, enc, php, 'format_tag', name=n, text=t)
        for u in p.URLS + p.URLS_ODD[:2] + p.URLS_SYNTAX[:3] + [u'http://x/é', u'€']:
            for t in ['', 'x', u, 'a}b', '<i>x</i>']:
                for e in (False, True):
                    yield fmt_case(b, enc, php, 'format_href', url=u, text=t, external=e)
        # the text a LaTeX backend compares with: the encoded URL
        for u, t in [('a_b', 'a\\_b'), ('~', '\\textasciitilde'), ('a&b', 'a\\&b'), (u'http://x/é', "http://x/\\'e")]:
            yield fmt_case(b, enc, php, 'format_href', url=u, text=t, external=False)
        for t in RENDERED:
            yield fmt_case(b, enc, php, 'format_protected', text=t)
        for lst in ([], ['a'], ['a', '', 'b'], ['<', '>'], ['{', '}']):
            yield fmt_case(b, enc, php, 'render_sequence', list=lst)
        for n in list(p.KNOWN_SYMBOLS) + ['emdash', '']:
            yield fmt_case(b, enc, php, 'symbol', name=n)
        for lab in p.LABELS_META[:: (2 if quick else 1)]:
            for key in ('k', 'a_b{c}'):
                for t in ('x', ''):
                    yield fmt_case(b, enc, php, 'write_entry', key=key, label=lab, text=t)
        for labels in ([], ['1'], ['1', '22', 'WW'], ['ab', 'ba'], ['', ''], ['}', '{{'], [u'é', 'e']):
            for pre in ('', 'PRE', '\\newcommand{\\x}{y}'):
                yield fmt_case(b, enc, php, 'write_prologue', labels=labels, preamble=pre)
        yield fmt_case(b, enc, php, 'write_epilogue')
    for e in ('latin-1', 'ascii', 'cp1252', 'UTF-8'):
        yield fmt_case('html', e, False, 'write_prologue', labels=['1'], preamble='')
    for n in range(4 if not quick else 3):
        for ls in itertools.product(LABEL_POOL, repeat=n):
            yield {'op': 'fmt', 'fn': 'longest_label', 'args': {'labels': list(ls)}}
    for cp in list(range(32, 127)) + [0xe9, 0x141, 0x3b1, 0x4e2d, 0xfb01, 0x2013, 0xa0, 9, 10]:
        yield {'op': 'fmt', 'fn': 'width', 'args': {'s': chr(cp)}}
    for s in ['', 'ab', 'WWW', 'iii', 'Knu66', u'naïve', 'A+', '[1]']:
        yield {'op': 'fmt', 'fn': 'width', 'args': {'s': s}}
    for s in list(p.strings_upto(p.ALPHA, 1 if quick else 2)) + p.WORDS:
        yield {'op': 'fmt', 'fn': 'escape', 'args': {'s': s}}


def parse_cases(quick):
    p = P()
    for v in p.strings_upto('a{}', 5 if quick else 6):
        for level in (0, 1, 2):
            yield {'op': 'parse', 'text': v, 'level': level}
    for v in p.strings_upto('a{}\n\r', 4):
        if '\n' in v or '\r' in v:
            for level in (0, 1):
                yield {'op': 'parse', 'text': v, 'level': level}
    for v in ['a}b', 'a{b}c}d{e', '{x}}', 'a\n}\nb', '{a\n}b}\n}', 'abc', '', '}', '}}', 'a{b', 'The {TeX}book} rest']:
        for level in (0, 1, 2, 3, 7):
            yield {'op': 'parse', 'text': v, 'level': level}


RENDER_AS_NAMES = ['html', 'latex', 'markdown', 'plaintext', 'md', 'text', '', 'nosuch', 'HTML', '.html', 'bibtex', 'plain']


def render_as_cases():
    p = P()
    node = c08.node
    trees = ['a<b & {c}_d', node({'k': 'tag', 'n': 'em'}, ['looooooong']), node({'k': 'text'}, ['Longcat is ', node({'k': 'tag', 'n': 'em'}, ['x']), '!']),
             node({'k': 'href', 'u': 'http://x/', 'e': False}, ['http://x/']), node({'k': 'prot'}, ['TeX', p.SYMS[0]]), {'y': 'emdash'}]
    for n in RENDER_AS_NAMES:
        for t in trees:
            yield {'op': 'render_as', 'tree': t, 'name': n}


def rand_cases(rng, n):
    p = P()
    out = []
    for _ in range(n):
        r = rng.random()
        b, enc, php = rng.choice(FMT_CONFIGS)
        if b == 'latex' and rng.random() < 0.5:
            enc = rng.choice(p.ENCODINGS)
        s = p.rand_string(rng) if rng.random() < 0.85 else rng.choice(p.NONASCII_WORDS)
        t = rng.choice(RENDERED) if rng.random() < 0.5 else p.rand_string(rng)
        if r < 0.25:
            out.append(fmt_case(b, enc, php, 'format_str', s=s))
        elif r < 0.4:
            out.append(fmt_case(b, enc, php, 'format_tag', name=rng.choice(p.TAGS_KNOWN + p.TAGS_UNKNOWN), text=t))
        elif r < 0.55:
            out.append(fmt_case(b, enc, php, 'format_href', url=rng.choice(p.URLS + p.URLS_SYNTAX), text=t, external=rng.random() < 0.5))
        elif r < 0.65:
            out.append(fmt_case(b, enc, php, 'write_entry', key=rng.choice(p.KEYS_META), label=s[:4], text=t))
        elif r < 0.75:
            out.append({'op': 'fmt', 'fn': 'longest_label', 'args': {'labels': [p.rand_string(rng) for _ in range(rng.randint(0, 5))]}})
        else:
            v = p.rand_value(rng, rng.randint(1, 4))
            out.append({'op': 'parse', 'text': v, 'level': rng.choice([0, 0, 1, 1, 2, 3])})
    return out


def valid_case(case):
    p = P()
    op = case.get('op')
    if op == 'fmt':
        fn = case.get('fn')
        a = case.get('args')
        if not isinstance(a, dict):
            return False
        need = {'longest_label': ['labels'], 'width': ['s'], 'escape': ['s'], 'format_str': ['s'], 'format_tag': ['name', 'text'],
                'format_href': ['url', 'text'], 'format_protected': ['text'], 'render_sequence': ['list'], 'symbol': ['name'],
                'write_entry': ['key', 'label', 'text'], 'write_prologue': ['labels', 'preamble'], 'write_epilogue': []}.get(fn)
        if need is None:
            return False
        for k in need:
            v = a.get(k)
            if k in ('labels', 'list'):
                if not (isinstance(v, list) and all(isinstance(x, str) for x in v)):
                    return False
            elif not isinstance(v, str):
                return False
        if fn in HELPERS:
            return True
        return (case.get('backend') in p.BACKENDS and case.get('encoding') in p.ENCODINGS and case.get('php_extra') in (None, True, False)
                and (case.get('encoding') is None or case['backend'] in ('latex', 'html')))
    if op == 'parse':
        return isinstance(case.get('text'), str) and isinstance(case.get('level'), int) and 0 <= case['level'] <= 50
    if op == 'render_as':
        return isinstance(case.get('name'), str) and p._tree_ok(case.get('tree'))
    return False


def buckets(case, impl_out):
    op = case['op']
    kind = ('text' if 'text' in impl_out or 'int' in impl_out or 'tree' in impl_out else 'unknown-symbol' if 'unknown_symbol' in impl_out
            else 'not-found' if 'plugin_not_found' in impl_out else 'error' if 'error' in impl_out else 'exception:%s' % impl_out.get('exception'))
    if op == 'fmt':
        if case['fn'] in HELPERS:
            return ['fmt:' + case['fn']]
        b = ['fmt:%s:%s' % (case['backend'], case['fn'])]
        if kind != 'text':
            b.append('fmt:%s:%s' % (case['fn'], kind))
        if case.get('encoding'):
            b.append('fmt:encoding:%s' % case['encoding'])
        return b
    if op == 'parse':
        return ['parse:level-%d:%s' % (min(case['level'], 3), 'error' if 'error' in impl_out else 'ok')]
    return ['render_as:%s:%s' % (case['name'], kind)]


def nontrivial(case, impl_out):
    op = case['op']
    if op == 'fmt':
        return bool(impl_out.get('text')) or 'int' in impl_out
    if op == 'parse':
        return '{' in case['text'] or '}' in case['text']
    return bool(impl_out.get('text'))
