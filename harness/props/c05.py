"""C05 -- citation resolution: cited, wildcard and cross-referenced entries, in order."""
import itertools

import compat  # noqa: F401
from props.base import to_request, corpus_for  # noqa: F401
from props import dbcommon

ID = 'C05'
LEAN_MODULES = ['PybtexModel.Props.C05']
THEOREMS = {
    'C05_expand_spec': 'the cited part of the result = case-insensitive de-duplication (first spelling wins) of the citation list with * replaced in place by all database keys in database order',
    'C05_crossref_spec': 'the appended part = the uncited parents in the order their reference count over the cited list reaches min_crossrefs; reports = the dangling cross-references of cited entries',
    'C05_no_dup': 'no two keys of the result are equal up to case',
    'C05_cited_first_in_order': 'explicitly cited keys come first, in first-citation order, de-duplicated; cross-referenced extras only after every cited key',
    'C05_wildcard_db_order': '* stands for every database entry in database order (those not already cited)',
    'C05_threshold': 'an uncited parent is appended iff at least min_crossrefs cited entries reference it, exactly once, in the order the threshold is reached',
    'C05_missing_reported': 'a cited key missing from the database is reported and not kept by both front ends, which never crash',
    'C05_dangling_reported': 'a dangling cross-reference of a cited entry is reported (bad cross-reference), its target is never added',
    'C05_citation_spelling_wins': 'the spelling of a key in the citation list wins over its spelling in the database',
    'C05_filtered_eq_unfiltered_partial': 'reading restricted to the wanted citations then resolving = reading everything then resolving, up to key case, provided every referenced parent is cited or follows a cited child that references it',
    'C05_filtered_neg': 'witness: an uncited parent that precedes its only child is lost by the filtered reading (finding #16)',
}
RULE = ('exhaustive: every file of <=N entries (keys a, B, c in that order; N=2 quick, 3 thorough) x every crossref assignment '
        '{none, each key, each key in the other case, dangling} x every citation list of length <=3 over {a, B, c, A (case variant), '
        'q (unknown), *} x min_crossrefs 1..3, each observed in both reading modes and through both engine front ends; plus files with '
        'duplicate keys; plus seeded random larger files.  non-trivial = some entry has a crossref and the citation list is non-empty; '
        'distinct by case JSON')
TRUSTED = ['str.lower is ASCII in the model (keys are drawn from ASCII)',
           'the .bib text generated from a case is parsed by the real reader; C01 is about that reader']
ASSUMPTIONS = ['keys, field names and values are ASCII without braces/commas/white space in keys',
               'problems are observed in capture mode (errors.capture), i.e. every report is collected']
SERIAL = False

BST = r'''ENTRY { note } {} {}
FUNCTION {show} { "\bibitem{" cite$ * "}" * write$ newline$ }
READ
ITERATE {show}
'''


def _canon_errs(errs):
    return [dbcommon.report(e) for e in errs]


def _plugins(by_name):
    """Plugin arguments for the front ends.  Looking a plugin up by name scans the installed entry points
    (3 ms per lookup, 5 lookups per Python-engine run; C17 is about that), so most cases hand the plugin classes
    over directly -- `find_plugin` returns a class argument unchanged -- and every 64th case uses the names."""
    if by_name:
        return {'bib_format': 'bibtex', 'style': 'unsrt', 'kw': {}}
    from pybtex.database.input.bibtex import Parser
    from pybtex.style.formatting.unsrt import Style
    from pybtex.style.labels.number import LabelStyle
    from pybtex.style.names.plain import NameStyle
    from pybtex.style.sorting.none import SortingStyle
    return {'bib_format': Parser, 'style': Style,
            'kw': {'bib_format': Parser, 'label_style': LabelStyle, 'name_style': NameStyle, 'sorting_style': SortingStyle}}


def _mode(text, cits, m, wanted, by_name=False):
    from pybtex import errors
    from pybtex.database import parse_string
    try:
        with errors.capture() as errs:
            kw = {'wanted_entries': list(cits)} if wanted else {}
            bib = parse_string(text, _plugins(by_name)['bib_format'], **kw)
        read_reports = _canon_errs(errs)
        with errors.capture() as errs:
            expanded = list(bib._expand_wildcard_citations(list(cits)))
        with errors.capture() as errs:
            resolved = list(bib.add_extra_citations(list(cits), m))
        return {'db': list(bib.entries.keys()), 'entry_keys': [e.key for e in bib.entries.values()],
                'read_reports': read_reports, 'expanded': expanded, 'resolved': resolved, 'reports': _canon_errs(errs)}
    except Exception as e:  # noqa
        return compat.pybtex_error_kind(e)


def _bibtex_engine(text, cits, m, by_name=False):
    from pybtex import errors
    import pybtex.bibtex
    try:
        with errors.capture() as errs:
            out = pybtex.bibtex.format_from_string(text, dbcommon.bst_path('c05', BST), citations=list(cits), min_crossrefs=m)
        return {'keys': [k for k, _ in dbcommon.split_bibitems(out)], 'reports': _canon_errs(errs)}
    except Exception as e:  # noqa
        return compat.pybtex_error_kind(e)


def _python_engine(text, cits, m, by_name=False):
    from pybtex import errors
    import pybtex
    try:
        pl = _plugins(by_name)
        with errors.capture() as errs:
            out = pybtex.format_from_string(text, pl['style'], citations=list(cits), min_crossrefs=m,
                                            output_backend=dbcommon.key_backend(), **pl['kw'])
        return {'keys': [k for k, _ in dbcommon.split_bibitems(out)], 'reports': _canon_errs(errs)}
    except Exception as e:  # noqa
        return compat.pybtex_error_kind(e)


def _by_name(case):
    import json
    import zlib
    return zlib.crc32(json.dumps(case, sort_keys=True).encode('utf-8')) % 64 == 0


def impl(case):
    text = dbcommon.bib_text(case['file'])
    cits, m = case['citations'], case['min_crossrefs']
    bn = _by_name(case)
    return {'unfiltered': _mode(text, cits, m, False, bn), 'filtered': _mode(text, cits, m, True, bn),
            'bibtex': _bibtex_engine(text, cits, m, bn), 'python': _python_engine(text, cits, m, bn)}


def model_out(case, reply):
    return reply['out']


def valid_case(case):
    if set(case) != {'op', 'file', 'citations', 'min_crossrefs'} or case['op'] != 'resolve':
        return False
    if not dbcommon.valid_file(case['file']):
        return False
    if not isinstance(case['min_crossrefs'], int) or isinstance(case['min_crossrefs'], bool):
        return False
    return all(c == '*' or dbcommon.KEY_OK.match(c) for c in case['citations'])


def _low(l):
    return [k.lower() for k in l]


def _consistent(cits):
    """repeated citations of a key are spelled consistently (C20 makes anything else an .aux error)"""
    seen = {}
    for c in cits:
        if seen.setdefault(c.lower(), c) != c:
            return False
    return True


def _xref(e):
    for n, v in e['fields']:
        if n.lower() == 'crossref':
            return v
    return None


def explain_filtered(case):
    """Finding #16 (DESIGN.md section 4): is there a cited entry whose parent is in the file, is not cited,
    and occurs only before every cited child that references it?  Returns the list of such parents."""
    cits = case['citations']
    if '*' in cits:
        return []
    low = set(_low(cits))
    first = {}
    for i, e in enumerate(case['file']):
        first.setdefault(e['key'].lower(), i)
    lost = []
    parents = set()
    for c in low:
        if c in first:
            x = _xref(case['file'][first[c]])
            if x is not None and x.lower() not in low and x.lower() in first:
                parents.add(x.lower())
    for x in sorted(parents):
        children = [i for k, i in first.items() if k in low and (_xref(case['file'][i]) or '').lower() == x]
        occ = [i for i, e in enumerate(case['file']) if e['key'].lower() == x]
        if all(o < min(children) for o in occ):
            lost.append(x)
    return lost


def oracle(case, impl_out, reply):
    """The clauses of the property, evaluated on the implementation with the spec's values."""
    spec = reply['spec']
    cits = case['citations']
    fails = []
    for side in ('unfiltered', 'filtered', 'bibtex', 'python'):
        if isinstance(impl_out[side], str):
            what = 'missing_reported' if spec['missing'] else 'never_crash'
            fails.append('%s: %s front end raised %s (cited keys without database entry: %r)' % (what, side, impl_out[side], spec['missing']))
    if fails:
        return fails
    u, f = impl_out['unfiltered'], impl_out['filtered']
    # whole database, then select
    if u['db'] != spec['db']:
        fails.append('read_first_wins: database keys %r, reference %r' % (u['db'], spec['db']))
    if [r for r in u['read_reports']] != [['repeated', k] for k in spec['repeated']]:
        fails.append('read_first_wins: reported %r, repeated keys are %r' % (u['read_reports'], spec['repeated']))
    if u['resolved'] != spec['resolved']:
        which = 'expanded_spec' if u['expanded'] != spec['expanded'] else 'threshold'
        fails.append('%s: add_extra_citations gives %r, the property demands %r' % (which, u['resolved'], spec['resolved']))
    low = _low(u['resolved'])
    if len(set(low)) != len(low):
        fails.append('no_dup: %r contains two keys equal up to case' % (u['resolved'],))
    dang = [['bad_crossref', c, x] for c, x in spec['dangling']]
    if u['reports'] != dang:
        fails.append('dangling_reported: reports %r, dangling cross-references of cited entries are %r' % (u['reports'], spec['dangling']))
    # citation spelling wins (explicit citations before any wildcard keep their first spelling)
    pre = list(itertools.takewhile(lambda c: c != '*', cits))
    seen, firsts = set(), []
    for c in pre:
        if c.lower() not in seen:
            seen.add(c.lower())
            firsts.append(c)
    if u['resolved'][:len(firsts)] != firsts:
        fails.append('citation_spelling_wins: result %r does not start with the citations as spelled %r' % (u['resolved'], firsts))
    # filtered reading = unfiltered reading, up to key case
    if _low(f['resolved']) != _low(spec['resolved']) or [r[:1] + _low(r[1:]) for r in f['reports']] != [r[:1] + _low(r[1:]) for r in dang]:
        tag = 'filtered_eq_unfiltered' if spec['proviso'] else 'filtered_eq_unfiltered_parent_first'
        fails.append('%s: reading with wanted_entries=citations resolves to %r reports %r; reading everything gives %r reports %r' % (
            tag, f['resolved'], f['reports'], spec['resolved'], dang))
    # both engine front ends: keys of the \bibitem lines; missing and dangling reported
    for side in ('bibtex', 'python'):
        e = impl_out[side]
        if _low(e['keys']) != _low(spec['present']):
            tag = 'engine_keys' if spec['proviso'] else 'engine_keys_parent_first'
            fails.append('%s: %s engine emits %r, the property demands %r' % (tag, side, e['keys'], spec['present']))
        elif _consistent(cits):
            want = [k for k in spec['present'] if k.lower() in seen]
            got = [k for k in e['keys'] if k.lower() in seen]
            if want != got:
                fails.append('citation_spelling_wins: %s engine emits %r for the citations %r' % (side, got, want))
        miss = [r[1] for r in e['reports'] if r[0] == 'missing']
        if _low(miss) != _low(spec['missing']) and spec['proviso']:
            fails.append('missing_reported: %s engine reports missing %r, cited keys without an entry are %r' % (side, miss, spec['missing']))
        if any(k.lower() in _low(spec['missing']) for k in e['keys']):
            fails.append('missing_reported: %s engine keeps a key that has no database entry: %r' % (side, e['keys']))
        bad = [r[1:] for r in e['reports'] if r[0] == 'bad_crossref']
        if [_low(b) for b in bad] != [_low(d) for d in spec['dangling']] and spec['proviso']:
            fails.append('dangling_reported: %s engine reports %r, dangling cross-references are %r' % (side, bad, spec['dangling']))
        other = [r for r in e['reports'] if r[0] not in ('missing', 'bad_crossref', 'repeated')]
        if other:
            fails.append('never_crash: %s engine reported something else: %r' % (side, other[:2]))
    return fails


def _parent_first(case, impl_out, text):
    """Matcher for finding #16: the failure is one of the filtered-reading clauses, the ordering proviso does
    not hold, and an uncited parent does precede every cited child that references it."""
    tag = text.split(':')[0]
    if tag not in ('filtered_eq_unfiltered_parent_first', 'engine_keys_parent_first'):
        return False
    return bool(explain_filtered(case))


KNOWN_MATCHERS = {'C05-filtered-parent-before-child': _parent_first}


def buckets(case, impl_out):
    b = ['n=%d' % len(case['file']), 'cits=%d' % len(case['citations']), 'm=%d' % case['min_crossrefs']]
    if '*' in case['citations']:
        b.append('wildcard')
    u = impl_out.get('unfiltered')
    if isinstance(u, dict):
        if len(u['resolved']) > len(u['expanded']):
            b.append('parent_appended')
        if u['reports']:
            b.append('dangling')
        if u['read_reports']:
            b.append('repeated_key')
        f = impl_out.get('filtered')
        if isinstance(f, dict) and _low(f['resolved']) != _low(u['resolved']):
            b.append('filtered_differs')
    for side in ('bibtex', 'python'):
        e = impl_out.get(side)
        if isinstance(e, dict) and any(r[0] == 'missing' for r in e['reports']):
            b.append(side + '_missing_reported')
        elif isinstance(e, str):
            b.append(side + '_' + e)
    return b


def nontrivial(case, impl_out):
    return bool(case['citations']) and any(_xref(e) is not None for e in case['file'])


def corpus():
    return corpus_for(ID)


KEYS = ['a', 'B', 'c']
OTHER = {'a': 'A', 'B': 'b', 'c': 'C'}


def _entry(key, xref, xname='crossref'):
    fields = [['note', 'n' + key]]
    if xref is not None:
        fields.append([xname, xref])
    return {'key': key, 'type': 'misc', 'fields': fields, 'persons': []}


def _cit_lists(symbols, maxlen):
    for n in range(maxlen + 1):
        for t in itertools.product(symbols, repeat=n):
            yield list(t)


def _exhaustive(nmax):
    cases = []
    cit_lists = list(_cit_lists(['a', 'B', 'c', 'A', 'q', '*'], 3))
    for n in range(nmax + 1):
        keys = KEYS[:n]
        targets = [None] + keys + [OTHER[k] for k in keys] + ['zz']
        for xs in itertools.product(targets, repeat=n):
            file = [_entry(k, x) for k, x in zip(keys, xs)]
            for cits in cit_lists:
                for m in (1, 2, 3):
                    cases.append({'op': 'resolve', 'file': file, 'citations': cits, 'min_crossrefs': m})
    return cases


def _duplicates(tier):
    """files in which a key occurs twice (up to case): the first entry wins, the later one is reported"""
    cases = []
    seqs = [['a', 'A'], ['a', 'a'], ['a', 'B', 'A'], ['a', 'A', 'B'], ['B', 'a', 'A']]
    targets = [None, 'a', 'B', 'zz']
    cit_lists = list(_cit_lists(['a', 'B', 'A', '*'], 2))
    for keys in seqs:
        for xs in itertools.product(targets, repeat=len(keys)):
            file = [_entry(k, x) for k, x in zip(keys, xs)]
            for cits in cit_lists:
                for m in ((1, 2) if tier == 'thorough' else (1,)):
                    cases.append({'op': 'resolve', 'file': file, 'citations': cits, 'min_crossrefs': m})
    return cases


POOL = ['k1', 'K2', 'knuth84', 'Lam:86', 'x', 'Y', 'book-1', 'Proc.A', 'zeta', 'Eta']


def _competing(tier):
    """several uncited parents competing for the threshold: children of two (thorough: also three) parents, cited in every
    order (all permutations of every subset), so that a parent referenced first need not reach the threshold first."""
    cases = []
    per = 2 if tier == 'quick' else 3
    for nparents in ((2,) if tier == 'quick' else (2, 3)):
        parents = ['P%d' % i for i in range(1, nparents + 1)]
        children = [('c%d%d' % (i, j), 'P%d' % i) for i in range(1, nparents + 1) for j in range(1, (per if nparents == 2 else 2) + 1)]
        file = [_entry(k, x) for k, x in children] + [_entry(p, None) for p in parents]
        names = [k for k, _x in children]
        for r in range(2, len(names) + 1):
            if len(names) > 5 and r not in (len(names) - 1, len(names)):
                continue
            for cits in itertools.permutations(names, r):
                for m in (2, 3):
                    cases.append({'op': 'resolve', 'file': file, 'citations': list(cits), 'min_crossrefs': m})
    return cases


def _variant(rng, k):
    r = rng.random()
    if r < 0.6:
        return k
    if r < 0.8:
        return k.swapcase()
    return k.upper() if rng.random() < 0.5 else k.lower()


def _random_case(rng):
    n = rng.randint(0, 8)
    keys = rng.sample(POOL, min(n, len(POOL)))
    if keys and rng.random() < 0.25:  # a duplicate, maybe in another case
        keys.insert(rng.randint(0, len(keys)), _variant(rng, rng.choice(keys)))
    file = []
    for k in keys:
        r = rng.random()
        if r < 0.35 or not keys:
            x = None
        elif r < 0.9:
            x = _variant(rng, rng.choice(keys))
        else:
            x = 'nowhere'
        file.append(_entry(k, x, rng.choice(['crossref', 'crossref', 'Crossref', 'CROSSREF'])))
    cits = []
    for _ in range(rng.randint(0, 7)):
        r = rng.random()
        if r < 0.75 and keys:
            cits.append(_variant(rng, rng.choice(keys)))
        elif r < 0.85:
            cits.append('*')
        else:
            cits.append(rng.choice(['unknown', 'Unknown', 'q']))
    return {'op': 'resolve', 'file': file, 'citations': cits, 'min_crossrefs': rng.choice([1, 1, 2, 2, 3, 0, -1, 4])}


def gen_cases(tier, rng, info):
    nmax = 2 if tier == 'quick' else 3
    cases = _exhaustive(nmax)
    n_ex = len(cases)
    dup = _duplicates(tier)
    cases += dup
    comp = _competing(tier)
    cases += comp
    info['exhaustive'] = True
    info['scope'] = ('every file of <=%d entries over keys %r x crossref in {none, each key, each key in the other case, zz} x every citation '
                     'list of length <=3 over [a, B, c, A, q, *] x min_crossrefs 1..3: %d cases; duplicate-key files: %d cases; '
                     'competing uncited parents (children of 2-3 parents cited in every order, min_crossrefs 2..3): %d cases; '
                     'each case observed unfiltered, filtered and through both engines' % (nmax, KEYS[:nmax], n_ex, len(dup), len(comp)))
    nrand = 3000 if tier == 'quick' else 60000
    for _ in range(nrand):
        cases.append(_random_case(rng))
    return cases


LEVEL_TEXT = ('Machine-checked proofs (Lean 4) over an executable model of BibliographyData.add_entry / want_entry / '
              '_expand_wildcard_citations / _get_crossreferenced_citations / add_extra_citations, the parse-time filtering of the '
              '.bib reader and the two engines\' front ends (built on the container models of C13): the model equals a short '
              'declarative specification of the resolved list, with the stated corollaries.  The model is tied to the code by a '
              'correspondence check that is exhaustive over all small databases x cross-reference assignments x citation lists x '
              'min_crossrefs in both reading modes and through both engines, and sampled beyond.')
LEVEL_NOTE = ('Trusted: Lean kernel; axioms propext/Classical.choice/Quot.sound only; the hand-written models correspond to the Python '
              'code only as far as the differential check explores; str.lower is ASCII in the model; problems are observed in capture '
              'mode.  The model follows the code with proposed_fixes/C05-1 applied (Python engine reports a missing cited key). '
              'Filtered reading equals unfiltered reading only under the ordering proviso (parent cited, or after a cited child): '
              'C05_filtered_eq_unfiltered_partial + C05_filtered_neg; the remaining input class is known finding '
              'C05-filtered-parent-before-child.')
