"""C05 -- citation resolution: cited, wildcard and cross-referenced entries, in order."""
import itertools

import compat  # noqa: F401
from props.base import to_request, corpus_for  # noqa: F401
from props import dbcommon
from props import c05_api

ID = 'C05'
# ops that observe a private intermediate of the code (the private generators _get_crossreferenced_citations / _expand_wildcard_citations): a disagreement there alone -- every public op of the run agreeing,
# no oracle clause failing -- is not counted (harness/check.py, PRIVATE_OPS)
PRIVATE_OPS = ('xref_citations',)

LEAN_MODULES = ['PybtexModel.Props.C05', 'PybtexModel.Props.C05x']
THEOREMS = {
    'C05_reader_wf': 'domain: every database the reader builds from a file of well-formed entries (filtered by citations or not) satisfies DbWF, and reading never raises: the hypothesis DbWF of the theorems below is a container invariant, no hidden restriction',
    'C05_expand_spec': 'the cited part of the result = case-insensitive de-duplication (first spelling wins) of the citation list with * replaced in place by all database keys in database order',
    'C05_crossref_spec': 'the appended part = the uncited parents in the order their reference count over the cited list reaches min_crossrefs; reports = the dangling cross-references of the entries that go into the bibliography (cited, then appended)',
    'C05_no_dup': 'no two keys of the result are equal up to case',
    'C05_cited_first_in_order': 'explicit citations that stand BEFORE any wildcard (hypothesis: * not in pre) come first, in first-citation order, de-duplicated, spelled as first cited; the rest of the cited part is an existential tail here (fully determined by C05_expand_spec); cross-referenced extras only after every cited key',
    'C05_wildcard_db_order': '* stands for every database entry in database order: after explicit citations pre WITHOUT a wildcard the first * contributes exactly the database keys not cited in pre, in database order and DATABASE spelling (what follows is an existential tail, determined by C05_expand_spec); [*] alone resolves to the whole database in order',
    'C05_threshold': 'an uncited parent is appended iff at least min_crossrefs cited entries reference it, exactly once, in the order the threshold is reached',
    'C05_missing_reported': 'a cited key missing from the database is reported and not kept by both front ends, which never end in an uncaught exception; the BibTeX engine emits exactly the resolved keys that have an entry, the Python engine the stored keys of those entries: proved equal only UP TO LETTER CASE (exact spelling: C05_citation_spelling_engines)',
    'C05_dangling_reported': 'a dangling cross-reference of an entry that goes into the bibliography (cited or appended by the threshold) is reported (bad cross-reference), its target is never added',
    'C05_citation_spelling_wins': "PARTIAL (holds only before a wildcard / under consistent spelling): filtered reading: a stored key matching a citation is SOME citation's spelling, and is c when every citation of it is spelled c; the first-cited spellings of citations BEFORE any * are a prefix of the result. Unqualified the clause is false: C05_spelling_exact; engines: C05_citation_spelling_engines",
    'C05_citation_spelling_engines': "reading both engines use (file filtered by the citations), wherever a * stands: an explicit citation c cited in one consistent spelling (the quantifier's proviso) is in the resolved list as c and in no other spelling; every key either engine emits that equals c up to case is c; both emit c when the file has its entry",
    'C05_spelling_exact': "exact rule, every database / citation list / threshold: a cited key is spelled as at its FIRST occurrence up to case in the *-substituted list (citation's spelling iff cited before the first *, else the database's); appended keys as in the database; a key a * contributes is there in the database spelling and NO other: the citation does NOT win there",
    'C05_filtered_eq_unfiltered_partial': 'reading restricted to the wanted citations then resolving gives the same keys (and the same dangling references of cited entries) as reading everything then resolving, up to key case, provided every referenced parent is cited or follows a cited child that references it',
    'C05_filtered_neg': 'witness: an uncited parent that precedes its only child is lost by the filtered reading (finding C05-filtered-parent-before-child)',
    'C05_filtered_entries_partial': 'under the strong ordering proviso (the FIRST entry of an uncited parent follows a cited child that references it, and its own cross-reference target is cited, absent or later still) the filtered reading stores the same ENTRY (type, fields, persons) under every resolved key as the unfiltered one and gives the same keys and reports',
    'C05_constants_tied': "[tie to the source] the constants the model and the specification hard-code equal the ones harness/tablegen/c05.py reads from /repo on every run: the cross-reference field name, the wildcard, the engines' default citations = ['*'], one common default min_crossrefs in the five signatures that have one, one wording of the missing-entry report in both engines",
    'C05_constructor_eq_reader': "[model wiring] the model of BibliographyData(entries, wanted_entries) / add_entries (fold of add_entry) equals the model of the reader's entry loop (the same fold with the SkipEntry guard in front): the guard repeats add_entry's own first test; that both models are the code is the differential check (ops add_entries, resolve)",
    'C05_format_bibliography_spec': "hypothesis DbWF db (container invariant, C05_reader_wf): format_bibliography(db, citations) never ends in KeyError, formats exactly the resolved citations that have an entry, in order, each under the DATABASE's spelling of its key, reports the dangling cross-references of the resolved list and then every resolved key without entry as missing",
    'C05_none_is_whole_database': "hypothesis DbWF db: format_bibliography(db) with citations=None equals format_bibliography(db, ['*']), formats every entry in database order under the database's keys (also when a key is *), appends nothing, reports no missing entry and exactly the dangling cross-references of all entries",
    'C05_read_whole_first_wins': "for every file of well-formed entries: reading it whole never raises, the database is the specification's readAll of the file (first entry of every key up to case, file order, spelled as there) and exactly the later entries whose key is already there are reported as repeated, in file order (reference values of the oracle clause read_first_wins)",
    'C05_style_whole_spec': 'for every file of well-formed entries, citation list and threshold (no hypothesis on the database): format_bibliography(parse(file), citations) never raises, formats exactly the citations resolved against readAll(file) that have an entry, in order, under the spelling of the first entry of that key in the file, reports the dangling cross-references of the resolved list and then the resolved keys without entry',
    'C05_python_engine_factors': '[model wiring] the Python engine = filtered reading, then format_bibliography(db, citations), reader reports first',
    'C05_min_crossrefs_floor': 'hypothesis DbWF db and min_crossrefs <= 1: add_extra_citations(citations, min_crossrefs) = add_extra_citations(citations, 1), keys and reports',
    'C05_fold_is_python_lower_partial': "PARTIAL: for every key in foldDomain (decidable: no capital sigma, and str.lower() of every character is the one character the ASCII folding gives) the ASCII folding `lower` of all C05 models/specs equals the model lowerPy of Python's whole-string str.lower() over the interpreter's regenerated tables",
    'C05_fold_ascii': 'every string of code points < 128 is in foldDomain (table fact, kernel-evaluated)',
    'C05_fold_neg': "witness: for 'É' the ASCII folding differs from str.lower(): keys with non-ASCII characters that str.lower() changes are outside the modelled domain",
    'C05_filtered_entries_neg': 'witness: a duplicate of an uncited parent before its child: same keys, but the filtered reading stores the later duplicate and reports no repeated entry (finding C05-filtered-duplicate-parent)',
}
RULE = ('exhaustive: every file of <=N entries (keys a, B, c in that order; N=2 quick, 3 thorough) x every crossref assignment '
        '{none, each key, each key in the other case, dangling} x every citation list of length <=3 over {a, B, c, A (case variant), '
        'q (unknown), *} x min_crossrefs 1..3, each observed in both reading modes (keys, stored entries, reports; add_extra_citations '
        'called twice on the same object) and through both engine front ends (keys, note of every emitted entry, reports); plus files '
        'with duplicate keys (also duplicates of uncited parents around their children); values with @ " = # ( ) and braces, also '
        'whole fake entries, in cited and uncited entries; the same files given as two or three .bib files to one reader / engine run; '
        'appended parents with cross-references of their own (dangling, before, after); the odd keys * and empty cross-references; '
        'plus keys with non-ASCII characters that str.lower() leaves alone (cited in both letter cases of their ASCII letters; as parents of two and three children); '
        'plus function-level families that call the anchored methods DIRECTLY on a database built by BibliographyData(entries=...): the constructor / '
        'add_entries / want_entry / get_canonical_key (every sequence of <=3 keys over a, A, B, c x wanted sets), _get_crossreferenced_citations and '
        '_expand_wildcard_citations on raw lists, both remove_missing_citations, format_bibliography with citations None / given and min_crossrefs '
        'default / given, both engines with the defaults of their signatures, str.lower() of keys; every report also compared as full message text; '
        'plus seeded random larger files.  non-trivial = some entry has a crossref and the citation list is non-empty; distinct by case JSON')
TRUSTED = ["keys are folded with ASCII lower-casing in the model; proved equal to the model of str.lower() on foldDomain (all ASCII keys and keys whose non-ASCII characters str.lower() leaves alone: C05_fold_is_python_lower_partial, C05_fold_ascii); generators stay inside foldDomain, the op `fold` compares str.lower() with the model on every code point below U+0250 and Greek/Cyrillic/Armenian",
           'the .bib text generated from a case is parsed by the real reader; C01 is about that reader',
           'the Python engine shows a note through the unsrt misc template: the rendered text is the note without braces plus a final period']
ASSUMPTIONS = ['keys are without braces/commas/white space, ASCII or with non-ASCII characters that str.lower() leaves alone (ß ς ŉ ǰ ﬁ é ж 日 ſ ...; foldDomain); field names are ASCII; values are ASCII without backslash and %, braces balanced, '
               'white space normalised (C01 is about everything else a value can be)',
               'problems are observed in capture mode (errors.capture), i.e. every report is collected',
               'the model follows the code with proposed_fixes/C05-2 applied (dangling cross-reference of an appended parent is reported)']
SERIAL = False

BST = r'''ENTRY { note } {} {}
FUNCTION {show} { "\bibitem{" cite$ * "}" * write$ newline$
  "note=" note missing$ { "<MISSING>" } { note } if$ * write$ newline$ }
READ
ITERATE {show}
'''


def _canon_errs(errs):
    return [dbcommon.report(e) for e in errs]


def _plugins(by_name):
    """Plugin arguments for the front ends.  Looking a plugin up by name scans the installed entry points
    (3 ms per lookup, 5 lookups per Python-engine run; C17 is about that), so most cases hand the plugin classes
    over directly -- `find_plugin` returns a class argument unchanged -- and every 64th case uses the names."""
    if by_name:
        return {'bib_format': 'bibtex', 'style': 'unsrt', 'kw': {}}
    from pybtex.database.input.bibtex import Parser
    from pybtex.style.formatting.unsrt import Style
    from pybtex.style.labels.number import LabelStyle
    from pybtex.style.names.plain import NameStyle
    from pybtex.style.sorting.none import SortingStyle
    return {'bib_format': Parser, 'style': Style,
            'kw': {'bib_format': Parser, 'label_style': LabelStyle, 'name_style': NameStyle, 'sorting_style': SortingStyle}}


def texts(case):
    """the .bib sources of a case: one, or several when the case says where to `split` the entry list"""
    file = case['file']
    cuts = case.get('split')
    if not cuts:
        return [dbcommon.bib_text(file)]
    bounds = [0] + list(cuts) + [len(file)]
    return [dbcommon.bib_text(file[a:b]) for a, b in zip(bounds, bounds[1:])]


def _mode(txts, cits, m, wanted, by_name=False):
    import io
    from pybtex import errors
    from pybtex.database import parse_string
    from pybtex.plugin import find_plugin
    try:
        with errors.capture() as errs:
            kw = {'wanted_entries': list(cits)} if wanted else {}
            if len(txts) == 1:
                bib = parse_string(txts[0], _plugins(by_name)['bib_format'], **kw)
            else:
                # what both engines do: one reader object, parse_files over all the files
                parser = find_plugin('pybtex.database.input', _plugins(by_name)['bib_format'])(**kw)
                bib = parser.parse_files([io.StringIO(t) for t in txts])
        read_reports = _canon_errs(errs)
        with errors.capture() as errs:
            expanded = list(bib._expand_wildcard_citations(list(cits)))
        with errors.capture() as errs:
            resolved = list(bib.add_extra_citations(list(cits), m))
        # the same question put a second time to the same database object
        with errors.capture() as errs2:
            resolved2 = list(bib.add_extra_citations(list(cits), m))
        return {'db': list(bib.entries.keys()), 'entry_keys': [e.key for e in bib.entries.values()],
                'contents': [[e.key, e.type, [[n, v] for n, v in e.fields.items()]] for e in bib.entries.values()],
                'read_reports': read_reports, 'expanded': expanded, 'resolved': resolved, 'reports': _canon_errs(errs),
                'resolved_again': resolved2, 'reports_again': _canon_errs(errs2)}
    except Exception as e:  # noqa
        return compat.pybtex_error_kind(e)


def _bibtex_engine(txts, cits, m, by_name=False):
    from pybtex import errors
    import pybtex.bibtex
    try:
        with errors.capture() as errs:
            out = pybtex.bibtex.format_from_strings(txts, dbcommon.bst_path('c05', BST), citations=list(cits), min_crossrefs=m)
        items = dbcommon.split_bibitems(out)
        notes = []
        for _k, lines in items:
            body = '\n'.join(lines)
            v = body[5:].rstrip('\n') if body.startswith('note=') else 'UNPARSED:' + body
            notes.append(None if v == '<MISSING>' else v)
        return {'keys': [k for k, _ in items], 'reports': _canon_errs(errs), 'notes': notes}
    except Exception as e:  # noqa
        return compat.pybtex_error_kind(e)


def py_note(v):
    """what the unsrt misc template shows of a note: braces are grouping only, a period ends the sentence"""
    return '' if v is None else v.replace('{', '').replace('}', '')


def _python_engine(txts, cits, m, by_name=False):
    from pybtex import errors
    import pybtex
    try:
        pl = _plugins(by_name)
        with errors.capture() as errs:
            out = pybtex.format_from_strings(txts, pl['style'], citations=list(cits), min_crossrefs=m,
                                             output_backend=dbcommon.key_backend(), **pl['kw'])
        items = dbcommon.split_bibitems(out)
        notes = []
        for _k, lines in items:
            body = '\n'.join(lines).rstrip('\n')
            notes.append(body[:-1] if body.endswith('.') else body)
        return {'keys': [k for k, _ in items], 'reports': _canon_errs(errs), 'notes': notes}
    except Exception as e:  # noqa
        return compat.pybtex_error_kind(e)


def _style_whole(txts, cits, m, by_name=False):
    """the Python engine's front end on a database READ WHOLE: `style.format_bibliography(bib_data, citations)` -- the
    selection the property describes, made after reading (the engine entry points read with wanted_entries=citations,
    which hides what this function does with the citation list, e.g. with an empty one)"""
    import io
    from pybtex import errors
    from pybtex.database import parse_string
    from pybtex.plugin import find_plugin
    try:
        pl = _plugins(by_name)
        with errors.capture():
            if len(txts) == 1:
                bib = parse_string(txts[0], pl['bib_format'])
            else:
                bib = find_plugin('pybtex.database.input', pl['bib_format'])().parse_files([io.StringIO(t) for t in txts])
        kw = dict((k, v) for k, v in pl['kw'].items() if k != 'bib_format')
        style = find_plugin('pybtex.style.formatting', pl['style'])(min_crossrefs=m, **kw)
        with errors.capture() as errs:
            fb = style.format_bibliography(bib, list(cits))
            keys = [e.key for e in fb]
        return {'keys': keys, 'reports': _canon_errs(errs)}
    except Exception as e:  # noqa
        return compat.pybtex_error_kind(e)


def compare_view(io_):
    """everything is compared (`style_whole` has been inside the model since Model/CitationsX.lean: `styleWhole`)"""
    return io_


def _by_name(case):
    import json
    import zlib
    return zlib.crc32(json.dumps(case, sort_keys=True).encode('utf-8')) % 64 == 0


def impl(case):
    if case['op'] != 'resolve':
        return c05_api.IMPL[case['op']](case)
    txts = texts(case)
    cits, m = case['citations'], case['min_crossrefs']
    bn = _by_name(case)
    return {'unfiltered': _mode(txts, cits, m, False, bn), 'filtered': _mode(txts, cits, m, True, bn),
            'bibtex': _bibtex_engine(txts, cits, m, bn), 'python': _python_engine(txts, cits, m, bn),
            'style_whole': _style_whole(txts, cits, m, bn)}


def model_out(case, reply):
    if case['op'] != 'resolve':
        return c05_api.model_out(case, reply)
    out = reply['out']
    py = out.get('python')
    if isinstance(py, dict) and isinstance(py.get('notes'), list):
        py = dict(py)
        py['notes'] = [py_note(v) for v in py['notes']]
        out = dict(out)
        out['python'] = py
    return out


def valid_case(case):
    if isinstance(case, dict) and case.get('op') in c05_api.IMPL:
        return c05_api.valid_case(case)
    if isinstance(case, dict) and isinstance(case.get('file'), list) and c05_api.has_unicode(case):
        return valid_case(c05_api.asciified(case))
    if not ({'op', 'file', 'citations', 'min_crossrefs'} <= set(case) <= {'op', 'file', 'citations', 'min_crossrefs', 'split'}) or case['op'] != 'resolve':
        return False
    if not dbcommon.valid_file(case['file'], allow_empty=True, rich_values=True, odd_keys=True):
        return False
    if any(e['type'].lower() != 'misc' for e in case['file']):   # the Python engine formats through the unsrt template of @misc
        return False
    if any(len(v) > 60 for e in case['file'] for _n, v in e['fields']):   # write$ breaks lines at 79 columns
        return False
    if any('note' not in [n.lower() for n, _v in e['fields']] or e['persons'] for e in case['file']):
        return False   # every entry has a note of its own (an inherited one is C14's subject)
    if not isinstance(case['min_crossrefs'], int) or isinstance(case['min_crossrefs'], bool):
        return False
    if 'split' in case:
        cuts = case['split']
        if not isinstance(cuts, list) or not cuts or any(not isinstance(c, int) or isinstance(c, bool) for c in cuts):
            return False
        if list(cuts) != sorted(cuts) or cuts[0] < 0 or cuts[-1] > len(case['file']):
            return False
    return all(c == '*' or dbcommon.KEY_OK.match(c) for c in case['citations'])


def _low(l):
    return [k.lower() for k in l]


def _consistent(cits):
    """repeated citations of a key are spelled consistently (C20 makes anything else an .aux error)"""
    seen = {}
    for c in cits:
        if seen.setdefault(c.lower(), c) != c:
            return False
    return True


def _xref(e):
    for n, v in e['fields']:
        if n.lower() == 'crossref':
            return v
    return None


def _first(case):
    first = {}
    for i, e in enumerate(case['file']):
        first.setdefault(e['key'].lower(), i)
    return first


def _uncited_parents(case):
    """{parent key (lower): index of the first effective entry of a cited key that references it}, for the parents that are
    in the file and are not cited themselves (no wildcard among the citations)"""
    cits = case['citations']
    if '*' in cits:
        return {}
    low = set(_low(cits))
    first = _first(case)
    parents = {}
    for c in low:
        if c in first:
            x = _xref(case['file'][first[c]])
            if x is not None and x.lower() not in low and x.lower() in first:
                parents[x.lower()] = min(parents.get(x.lower(), len(case['file'])), first[c])
    return parents


def _occurrences(case, k):
    return [i for i, e in enumerate(case['file']) if e['key'].lower() == k]


def explain_filtered(case):
    """Finding C05-filtered-parent-before-child: is there a cited entry whose parent is in the file, is not cited,
    and occurs only before every cited child that references it?  Returns the list of such parents."""
    return sorted(x for x, child in _uncited_parents(case).items() if all(o < child for o in _occurrences(case, x)))


def explain_duplicate_parent(case):
    """Finding C05-filtered-duplicate-parent: an uncited parent with one entry before the first cited child that references it
    (the one the unfiltered reading keeps) and another one after it (the one the filtered reading stores)."""
    return sorted(x for x, child in _uncited_parents(case).items()
                  if any(o < child for o in _occurrences(case, x)) and any(o > child for o in _occurrences(case, x)))


def explain_duplicate_chain(case):
    """Finding C05-filtered-duplicate-parent-chain: keys that are not cited, occur more than once in the file, and whose FIRST entry
    stands before the entry that makes the key wanted in the filtered reading -- a cited child, or an uncited parent that has itself
    become wanted (the wanted set grows while the file is read) -- while a LATER entry stands after it: the filtered reading stores
    the later one.  Found by replaying the growth of the wanted set over the file."""
    cits = case['citations']
    if '*' in cits:
        return []
    low = set(_low(cits))
    wanted, stored = set(low), {}
    for i, e in enumerate(case['file']):
        k = e['key'].lower()
        if k in wanted and k not in stored:
            stored[k] = i
            x = _xref(e)
            if x is not None:
                wanted.add(x.lower())
    first = _first(case)
    return sorted(k for k, i in stored.items() if k not in low and first[k] != i)


def explain_grandparent(case):
    """Finding C05-filtered-grandparent-before-parent: an uncited parent x (kept by the filtered reading: an entry of it follows
    a cited child) whose own cross-reference target y is in the file, is not cited, and occurs only before the entry of x
    that the filtered reading stores.  Returns [(x, y)]."""
    out = []
    low = set(_low(case['citations']))
    for x, child in _uncited_parents(case).items():
        later = [o for o in _occurrences(case, x) if o > child]
        if not later:
            continue
        y = _xref(case['file'][later[0]])
        if y is None or y.lower() in low or y.lower() == x:
            continue
        occ = _occurrences(case, y.lower())
        if occ and all(o < later[0] for o in occ):
            out.append((x, y.lower()))
    return sorted(out)


def _contents(mode):
    return {k.lower(): [t, f] for k, t, f in mode['contents']}


def _repeated(mode):
    d = {}
    for r in mode['read_reports']:
        if r[0] == 'repeated':
            d.setdefault(r[1].lower(), []).append(r[1])
    return d


def oracle(case, impl_out, reply):
    """The clauses of the property, evaluated on the implementation with the spec's values."""
    if case['op'] != 'resolve':
        return c05_api.oracle(case, impl_out, reply)
    spec = reply['spec']
    cits = case['citations']
    fails = []
    for side in ('unfiltered', 'filtered', 'bibtex', 'python'):
        if isinstance(impl_out[side], str):
            what = 'missing_reported' if spec['missing'] else 'never_crash'
            fails.append('%s: %s front end raised %s (cited keys without database entry: %r)' % (what, side, impl_out[side], spec['missing']))
    if fails:
        return fails
    u, f = impl_out['unfiltered'], impl_out['filtered']
    # whole database, then select
    if u['db'] != spec['db']:
        fails.append('read_first_wins: database keys %r, reference %r' % (u['db'], spec['db']))
    if [r for r in u['read_reports']] != [['repeated', k] for k in spec['repeated']]:
        fails.append('read_first_wins: reported %r, repeated keys are %r' % (u['read_reports'], spec['repeated']))
    if u['resolved'] != spec['resolved']:
        which = 'expanded_spec' if u['expanded'] != spec['expanded'] else 'threshold'
        fails.append('%s: add_extra_citations gives %r, the property demands %r' % (which, u['resolved'], spec['resolved']))
    low = _low(u['resolved'])
    if len(set(low)) != len(low):
        fails.append('no_dup: %r contains two keys equal up to case' % (u['resolved'],))
    dang = [['bad_crossref', c, x] for c, x in spec['dangling']]
    if u['reports'] != dang:
        fails.append('dangling_reported: reports %r, dangling cross-references of the entries that go into the bibliography are %r' % (
            u['reports'], spec['dangling']))
    # the answer is a function of the database, the citations and min_crossrefs: asking again gives it again
    for name, mode in (('unfiltered', u), ('filtered', f)):
        if mode['resolved_again'] != mode['resolved'] or mode['reports_again'] != mode['reports']:
            fails.append('threshold_again: a second add_extra_citations on the same (%s) database gives %r reports %r, the first gave %r reports %r' % (
                name, mode['resolved_again'], mode['reports_again'], mode['resolved'], mode['reports']))
    # citation spelling wins (explicit citations before any wildcard keep their first spelling)
    pre = list(itertools.takewhile(lambda c: c != '*', cits))
    seen, firsts = set(), []
    for c in pre:
        if c.lower() not in seen:
            seen.add(c.lower())
            firsts.append(c)
    if u['resolved'][:len(firsts)] != firsts:
        fails.append('citation_spelling_wins: result %r does not start with the citations as spelled %r' % (u['resolved'], firsts))
    # filtered reading = unfiltered reading, up to key case: keys and reports ...
    lost = explain_filtered(case) if not spec['proviso'] else []
    dup = explain_duplicate_parent(case) if not spec['proviso_strong'] else []
    grand = explain_grandparent(case) if not spec['proviso_strong'] else []
    chain = explain_duplicate_chain(case) if not spec['proviso_strong'] else []
    lowrep = lambda rs: [r[:1] + _low(r[1:]) for r in rs]   # noqa: E731
    keys_ok = _low(f['resolved']) == _low(spec['resolved'])
    exp_low = set(_low(spec['expanded']))
    f_cited = [r for r in lowrep(f['reports']) if r[1] in exp_low]
    f_extra = [r for r in lowrep(f['reports']) if r[1] not in exp_low]
    d_cited = [r for r in lowrep(dang) if r[1] in exp_low]
    d_extra = [r for r in lowrep(dang) if r[1] not in exp_low]
    if not keys_ok or f_cited != d_cited:
        tag = 'filtered_eq_unfiltered' if spec['proviso'] else 'filtered_eq_unfiltered_parent_first'
        fails.append('%s: reading with wanted_entries=citations resolves to %r reports %r; reading everything gives %r reports %r' % (
            tag, f['resolved'], f['reports'], spec['resolved'], dang))
    elif f_extra != d_extra:
        for r in [r for r in f_extra if r not in d_extra] + [r for r in d_extra if r not in f_extra]:
            fails.append('%s: reading with wanted_entries=citations reports %r for the appended parents; reading everything reports %r [%r]' % (
                _extra_tag('filtered_eq_unfiltered', 'filtered', r, r in f_extra, spec, dup, grand), f_extra, d_extra, r[1]))
    # ... and the entries stored under the resolved keys (type and fields; repeated-entry reports about them)
    fc, uc, fr, ur = _contents(f), _contents(u), _repeated(f), _repeated(u)
    for k in _low(spec['present']):
        if (fc.get(k), fr.get(k, [])) != (uc.get(k), ur.get(k, [])):
            if k in lost:
                tag = 'filtered_eq_unfiltered_parent_first'
            elif k in dup:
                tag = 'filtered_entries_duplicate_parent'
            elif k in chain:
                tag = 'filtered_entries_duplicate_chain'
            else:
                tag = 'filtered_entries'
            fails.append('%s: under key %r the reading with wanted_entries=citations stores %r (repeated-entry reports %r); reading everything stores %r (%r)' % (
                tag, k, fc.get(k), fr.get(k, []), uc.get(k), ur.get(k, [])))
    for name, mode in (('unfiltered', u), ('filtered', f)):
        other = [r for r in mode['read_reports'] if r[0] != 'repeated']
        if other:
            fails.append('never_crash: the %s reading of a well-formed file reported %r' % (name, other[:2]))
    # both engine front ends: keys of the \bibitem lines; missing and dangling reported; the entries shown are the right ones
    want_note = {}
    for k, fields in spec['contents']:
        want_note[k.lower()] = dict((n.lower(), v) for n, v in reversed(fields)).get('note')
    for side in ('bibtex', 'python'):
        e = impl_out[side]
        if _low(e['keys']) != _low(spec['present']):
            tag = 'engine_keys' if spec['proviso'] else 'engine_keys_parent_first'
            fails.append('%s: %s engine emits %r, the property demands %r' % (tag, side, e['keys'], spec['present']))
        else:
            if _consistent(cits):
                want = [k for k in spec['present'] if k.lower() in seen]
                got = [k for k in e['keys'] if k.lower() in seen]
                if want != got:
                    fails.append('citation_spelling_wins: %s engine emits %r for the citations %r' % (side, got, want))
            for k, got in zip(_low(e['keys']), e['notes']):
                exp = want_note.get(k) if side == 'bibtex' else py_note(want_note.get(k))
                if got != exp:
                    tag = 'engine_entries_duplicate_parent' if k in dup else 'engine_entries_duplicate_chain' if k in chain else 'engine_entries'
                    fails.append('%s: %s engine shows the note %r for %r, the entry that counts for that key has %r' % (tag, side, got, k, exp))
        miss = [r[1] for r in e['reports'] if r[0] == 'missing']
        if _low(miss) != _low(spec['missing']) and spec['proviso']:
            fails.append('missing_reported: %s engine reports missing %r, cited keys without an entry are %r' % (side, miss, spec['missing']))
        if any(k.lower() in _low(spec['missing']) for k in e['keys']):
            fails.append('missing_reported: %s engine keeps a key that has no database entry: %r' % (side, e['keys']))
        bad = [[r[0]] + _low(r[1:]) for r in e['reports'] if r[0] == 'bad_crossref']
        if bad != lowrep(dang) and spec['proviso']:
            b_cited, b_extra = [r for r in bad if r[1] in exp_low], [r for r in bad if r[1] not in exp_low]
            if b_cited != d_cited or sorted(b_extra) == sorted(d_extra):
                fails.append('dangling_reported: %s engine reports %r, dangling cross-references are %r' % (side, bad, spec['dangling']))
            else:
                for r in [r for r in b_extra if r not in d_extra] + [r for r in d_extra if r not in b_extra]:
                    fails.append('%s: %s engine reports %r, dangling cross-references are %r [%r]' % (
                        _extra_tag('dangling_reported', 'engine', r, r in b_extra, spec, dup, grand), side, bad, spec['dangling'], r[1]))
        other = [r for r in e['reports'] if r[0] not in ('missing', 'bad_crossref', 'repeated')]
        if other:
            fails.append('never_crash: %s engine reported something else: %r' % (side, other[:2]))
    # the Python engine's front end on the database read whole: the entries formatted are exactly the resolved citations that exist
    sw = impl_out.get('style_whole')
    if isinstance(sw, str):
        fails.append('%s: format_bibliography on the whole database raised %s' % ('missing_reported' if spec['missing'] else 'never_crash', sw))
    elif sw is not None:
        if _low(sw['keys']) != _low(spec['present']):
            fails.append('engine_keys: format_bibliography(whole database, %r) formats %r, the property demands %r' % (cits, sw['keys'], spec['present']))
        miss = [r[1] for r in sw['reports'] if r[0] == 'missing']
        if _low(miss) != _low(spec['missing']):
            fails.append('missing_reported: format_bibliography on the whole database reports missing %r, cited keys without an entry are %r' % (miss, spec['missing']))
    return fails


def _extra_tag(default, where, r, reported, spec, dup, grand):
    """classify a difference in the reports about an APPENDED parent r[1] between the filtered reading and the reference"""
    if not spec['proviso_strong']:
        if r[1] in dup:
            return where + '_entries_duplicate_parent'      # another entry is stored for that key: its cross-reference differs too
        if reported and (r[1], r[2]) in grand:
            return where + '_reports_grandparent_first'
    return default


def _parent_first(case, impl_out, text):
    """Matcher for finding C05-filtered-parent-before-child: the failure is one of the filtered-reading clauses, the ordering
    proviso does not hold, and an uncited parent does precede every cited child that references it."""
    tag = text.split(':')[0]
    if tag not in ('filtered_eq_unfiltered_parent_first', 'engine_keys_parent_first'):
        return False
    return bool(explain_filtered(case))


def _duplicate_parent(case, impl_out, text):
    """Matcher for finding C05-filtered-duplicate-parent: the entry stored / shown under the key of an uncited parent differs,
    and that parent does have one entry before and another after the first cited child that references it."""
    tag = text.split(':')[0]
    if tag not in ('filtered_entries_duplicate_parent', 'engine_entries_duplicate_parent'):
        return False
    return any(repr(k) in text for k in explain_duplicate_parent(case))


def _grandparent_first(case, impl_out, text):
    """Matcher for finding C05-filtered-grandparent-before-parent: only the reports about appended parents differ, each extra
    report of the filtered reading is 'x refers to y' for an appended parent x whose parent y occurs only before it."""
    tag = text.split(':')[0]
    if tag not in ('filtered_reports_grandparent_first', 'engine_reports_grandparent_first'):
        return False
    return bool(explain_grandparent(case))


def _duplicate_chain(case, impl_out, text):
    """Matcher for finding C05-filtered-duplicate-parent-chain: the entry stored / shown under an uncited key differs, and replaying the
    growth of the wanted set says the filtered reading stores a later duplicate of that very key."""
    tag = text.split(':')[0]
    if tag not in ('filtered_entries_duplicate_chain', 'engine_entries_duplicate_chain'):
        return False
    return any(repr(k) in text for k in explain_duplicate_chain(case))


KNOWN_MATCHERS = {'C05-filtered-parent-before-child': _parent_first,
                  'C05-filtered-duplicate-parent-chain': _duplicate_chain,
                  'C05-filtered-duplicate-parent': _duplicate_parent,
                  'C05-filtered-grandparent-before-parent': _grandparent_first}


def buckets(case, impl_out):
    if case['op'] != 'resolve':
        return c05_api.buckets(case, impl_out)
    b = ['n=%d' % len(case['file']), 'cits=%d' % len(case['citations']), 'm=%d' % case['min_crossrefs']]
    if '*' in case['citations']:
        b.append('wildcard')
    if c05_api.has_unicode(case):
        b.append('non_ascii_keys')
    if case.get('split'):
        b.append('files=%d' % (len(case['split']) + 1))
    if any(not dbcommon.VALUE_OK.match(v) for e in case['file'] for _n, v in e['fields']):
        b.append('rich_values')
    if any(not v for e in case['file'] for _n, v in e['fields']):
        b.append('empty_value')
    if explain_duplicate_parent(case):
        b.append('duplicate_parent')
    if explain_grandparent(case):
        b.append('grandparent_first')
    u = impl_out.get('unfiltered')
    if isinstance(u, dict):
        if len(u['resolved']) > len(u['expanded']):
            b.append('parent_appended')
            if any(r[1] in u['resolved'][len(u['expanded']):] for r in u['reports']):
                b.append('appended_parent_dangling')
        if u['reports']:
            b.append('dangling')
        if u['read_reports']:
            b.append('repeated_key')
        f = impl_out.get('filtered')
        if isinstance(f, dict) and _low(f['resolved']) != _low(u['resolved']):
            b.append('filtered_differs')
        if isinstance(f, dict) and any(_contents(f).get(k) != c for k, c in _contents(u).items() if k in _contents(f)):
            b.append('filtered_entry_differs')
    for side in ('bibtex', 'python'):
        e = impl_out.get(side)
        if isinstance(e, dict) and any(r[0] == 'missing' for r in e['reports']):
            b.append(side + '_missing_reported')
        elif isinstance(e, str):
            b.append(side + '_' + e)
    return b


def nontrivial(case, impl_out):
    if case['op'] != 'resolve':
        return c05_api.nontrivial(case, impl_out)
    return bool(case['citations']) and any(_xref(e) is not None for e in case['file'])


def corpus():
    return corpus_for(ID)


KEYS = ['a', 'B', 'c']
OTHER = {'a': 'A', 'B': 'b', 'c': 'C'}


def _entry(key, xref, xname='crossref', note=None):
    fields = [['note', ('n' + key) if note is None else note]]
    if xref is not None:
        fields.append([xname, xref])
    return {'key': key, 'type': 'misc', 'fields': fields, 'persons': []}


def _cit_lists(symbols, maxlen):
    for n in range(maxlen + 1):
        for t in itertools.product(symbols, repeat=n):
            yield list(t)


def _exhaustive(nmax):
    cases = []
    cit_lists = list(_cit_lists(['a', 'B', 'c', 'A', 'q', '*'], 3))
    for n in range(nmax + 1):
        keys = KEYS[:n]
        targets = [None] + keys + [OTHER[k] for k in keys] + ['zz']
        for xs in itertools.product(targets, repeat=n):
            file = [_entry(k, x) for k, x in zip(keys, xs)]
            for cits in cit_lists:
                for m in (1, 2, 3):
                    cases.append({'op': 'resolve', 'file': file, 'citations': cits, 'min_crossrefs': m})
    return cases


def _duplicates(tier):
    """files in which a key occurs twice (up to case): the first entry wins, the later one is reported"""
    cases = []
    seqs = [['a', 'A'], ['a', 'a'], ['a', 'B', 'A'], ['a', 'A', 'B'], ['B', 'a', 'A']]
    targets = [None, 'a', 'B', 'zz']
    cit_lists = list(_cit_lists(['a', 'B', 'A', '*'], 2))
    for keys in seqs:
        for xs in itertools.product(targets, repeat=len(keys)):
            file = [_entry(k, x) for k, x in zip(keys, xs)]
            for cits in cit_lists:
                for m in ((1, 2) if tier == 'thorough' else (1,)):
                    cases.append({'op': 'resolve', 'file': file, 'citations': cits, 'min_crossrefs': m})
    return cases


POOL = ['k1', 'K2', 'knuth84', 'Lam:86', 'x', 'Y', 'book-1', 'Proc.A', 'zeta', 'Eta', 'Weiß2004', 'ﬁx', 'ς1a', 'Straße']


def _competing(tier):
    """several uncited parents competing for the threshold: children of two (thorough: also three) parents, cited in every
    order (all permutations of every subset), so that a parent referenced first need not reach the threshold first."""
    cases = []
    per = 2 if tier == 'quick' else 3
    for nparents in ((2,) if tier == 'quick' else (2, 3)):
        parents = ['P%d' % i for i in range(1, nparents + 1)]
        children = [('c%d%d' % (i, j), 'P%d' % i) for i in range(1, nparents + 1) for j in range(1, (per if nparents == 2 else 2) + 1)]
        file = [_entry(k, x) for k, x in children] + [_entry(p, None) for p in parents]
        names = [k for k, _x in children]
        for r in range(2, len(names) + 1):
            if len(names) > 5 and r not in (len(names) - 1, len(names)):
                continue
            for cits in itertools.permutations(names, r):
                for m in (2, 3):
                    cases.append({'op': 'resolve', 'file': file, 'citations': list(cits), 'min_crossrefs': m})
    return cases


# values a .bib reader must carry through untouched, whether or not the entry is wanted: they look like syntax
RICH = ['see @misc{c, note={FAKE}} end', 'see @misc(c, note = "FAKE") end', 'mail a@b.c', 'say "hi" there', '{nested {deep}} x', '@',
        '"', '@string{k = {v}}', '@comment{@misc{c, note={F}}}', 'x = {y}, z # "w"', '{@}', '', '@misc{p, note={FAKEP}}',
        '@preamble{"P"} @misc{c, crossref={x}, note={F}}']


def _rich_values(tier):
    """entries whose values contain @ " = # ( ) and braces -- up to whole fake entries with the keys of real ones -- before and
    after the real entries, cited or not: both readings must carry every value through and must not see anything inside it"""
    cases = []
    cit_lists = [['c'], ['x'], ['c', 'x'], ['*'], ['C', 'p'], []]
    for r in RICH:
        layouts = [
            [_entry('x', None, note=r), _entry('c', None)],
            [_entry('c', 'p'), _entry('x', None, note=r), _entry('p', None)],
            [_entry('x', 'c', note=r), _entry('c', None)],
            [_entry('c', None), _entry('x', None, note=r)],
            [_entry('x', None, note=r), _entry('c', 'P', note=r), _entry('p', None, note=r)],
        ]
        for file in layouts:
            for cits in cit_lists:
                for m in ((1, 2) if tier == 'thorough' else (1,)):
                    cases.append({'op': 'resolve', 'file': file, 'citations': cits, 'min_crossrefs': m})
    return cases


def _two_files(tier):
    """the entries spread over several .bib files read by ONE reader / one engine run (parse_files, command_read): all files of
    two entries cut in two (thorough: also files of three entries cut in two and three), every crossref assignment"""
    cases = []
    cit_lists = list(_cit_lists(['a', 'B', 'c', 'A', '*'], 2))
    for n, cutss in ((2, [[1]]),) + (((3, [[1], [1, 2], [0, 3]]),) if tier == 'thorough' else ((3, [[1, 2]]),)):
        keys = KEYS[:n]
        targets = [None] + keys + [OTHER[k] for k in keys] + ['zz']
        for xs in itertools.product(targets, repeat=n):
            if n == 3 and tier != 'thorough' and sum(x is not None for x in xs) < 2:
                continue
            file = [_entry(k, x) for k, x in zip(keys, xs)]
            for cits in cit_lists:
                if n == 3 and len(cits) != 1:
                    continue
                for cuts in cutss:
                    for m in (1, 2):
                        cases.append({'op': 'resolve', 'file': file, 'citations': cits, 'min_crossrefs': m, 'split': cuts})
    return cases


def _parents_of_parents(tier):
    """an appended parent with a cross-reference of its own -- dangling, to an entry before it, after it, to itself, to its
    child -- and duplicates of an uncited parent around its child: every order of the entries child c, parent p, grandparent g
    (and a second entry P for the parent), children cited only"""
    cases = []
    for ptarget in (None, 'g', 'G', 'zz', 'p', 'c'):
        for gtarget in (None, 'zz', 'c'):
            base = [_entry('c', 'p'), _entry('p', ptarget), _entry('g', gtarget)]
            extra = [None, _entry('P', ptarget, note='second'), _entry('d', 'P')]
            for ex in extra:
                entries = base + ([ex] if ex else [])
                for perm in itertools.permutations(entries):
                    for cits in (['c'], ['c', 'd'], ['C', 'g']):
                        if 'd' in cits and (ex is None or ex['key'] != 'd'):
                            continue
                        for m in (1, 2):
                            if tier == 'quick' and m == 2 and 'd' not in cits:
                                continue
                            cases.append({'op': 'resolve', 'file': list(perm), 'citations': cits, 'min_crossrefs': m})
    return cases


def _odd(tier):
    """the key `*`, cross-references to `*` and to the empty key, min_crossrefs <= 0"""
    cases = []
    cit_lists = list(_cit_lists(['a', 'A', '*'], 2))
    targets = [None, '', '*', 'a', 'A']
    for keys in (['a'], ['*'], ['a', '*'], ['*', 'a']):
        for xs in itertools.product(targets, repeat=len(keys)):
            file = [_entry(k, x, note='n' + str(i)) for i, (k, x) in enumerate(zip(keys, xs))]
            for cits in cit_lists:
                for m in (0, 1, 2):
                    cases.append({'op': 'resolve', 'file': file, 'citations': cits, 'min_crossrefs': m})
    return cases


def _variant(rng, k):
    r = rng.random()
    if r < 0.6:
        return k
    # only the ASCII letters change case: that is what str.lower() undoes whatever else the key contains ('ß'.upper() is 'SS')
    if r < 0.8:
        return c05_api.ascii_swap(k)
    return ''.join((c.upper() if c.isascii() else c) for c in k) if rng.random() < 0.5 else ''.join((c.lower() if c.isascii() else c) for c in k)


def _rich(rng, keys):
    """a random value out of pieces that look like .bib syntax (braces balanced, white space normalised)"""
    pieces = ['@', '"', '=', '#', '(', ')', ',', 'a@b.c', 'and', 'see', 'x']
    out = []
    for _ in range(rng.randint(1, 5)):
        r = rng.random()
        if r < 0.25 and keys:
            out.append('@misc{%s, note={F%d}}' % (_variant(rng, rng.choice(keys)), rng.randint(0, 9)))
        elif r < 0.35 and keys:
            out.append('@misc(%s, crossref = "%s")' % (rng.choice(keys), rng.choice(keys)))
        elif r < 0.5:
            out.append('{%s}' % rng.choice(pieces))
        else:
            out.append(rng.choice(pieces))
    v = ' '.join(out)
    return v if len(v) <= 60 else v[:v.rfind(' ', 0, 40)] if ' ' in v[:40] and dbcommon.balanced(v[:v.rfind(' ', 0, 40)]) else '@'


def _random_case(rng):
    n = rng.randint(0, 8)
    keys = rng.sample(POOL, min(n, len(POOL)))
    if keys and rng.random() < 0.35:  # a duplicate, maybe in another case
        keys.insert(rng.randint(0, len(keys)), _variant(rng, rng.choice(keys)))
    rich = rng.random() < 0.3
    file = []
    for i, k in enumerate(keys):
        r = rng.random()
        if r < 0.35 or not keys:
            x = None
        elif r < 0.9:
            x = _variant(rng, rng.choice(keys))
        else:
            x = 'nowhere'
        note = _rich(rng, keys) if rich and rng.random() < 0.5 else 'v%d' % i
        file.append(_entry(k, x, rng.choice(['crossref', 'crossref', 'Crossref', 'CROSSREF']), note=note))
    cits = []
    for _ in range(rng.randint(0, 7)):
        r = rng.random()
        if r < 0.75 and keys:
            cits.append(_variant(rng, rng.choice(keys)))
        elif r < 0.85:
            cits.append('*')
        else:
            cits.append(rng.choice(['unknown', 'Unknown', 'q']))
    case = {'op': 'resolve', 'file': file, 'citations': cits, 'min_crossrefs': rng.choice([1, 1, 2, 2, 3, 0, -1, 4])}
    if len(file) >= 2 and rng.random() < 0.25:
        case['split'] = sorted(rng.sample(range(0, len(file) + 1), rng.randint(1, min(3, len(file)))))
    return case


def gen_cases(tier, rng, info):
    nmax = 2 if tier == 'quick' else 3
    cases = _exhaustive(nmax)
    n_ex = len(cases)
    fams = [('duplicate-key files', _duplicates(tier)),
            ('competing uncited parents (children of 2-3 parents cited in every order, min_crossrefs 2..3)', _competing(tier)),
            ('values that look like .bib syntax (@, quotes, braces, whole fake entries) in cited and uncited entries', _rich_values(tier)),
            ('the entries spread over two or three files read by one reader', _two_files(tier)),
            ('every order of child / parent / grandparent (+ a duplicate of the parent or a second child), children cited', _parents_of_parents(tier)),
            ('key *, cross-references to * and to the empty key, min_crossrefs 0..2', _odd(tier))]
    fams += c05_api.families(tier, _entry, _cit_lists)
    for _name, fam in fams:
        cases += fam
    info['exhaustive'] = True
    info['scope'] = ('every file of <=%d entries over keys %r x crossref in {none, each key, each key in the other case, zz} x every citation '
                     'list of length <=3 over [a, B, c, A, q, *] x min_crossrefs 1..3: %d cases; %s; each case observed unfiltered, filtered '
                     '(keys, stored entries, reports; add_extra_citations asked twice) and through both engines (keys, notes, reports)' % (
                         nmax, KEYS[:nmax], n_ex, '; '.join('%s: %d cases' % (name, len(fam)) for name, fam in fams)))
    nrand = 3000 if tier == 'quick' else 60000
    for _ in range(nrand):
        cases.append(_random_case(rng))
    return cases


LEVEL_TEXT = ('Machine-checked proofs (Lean 4) over an executable model of BibliographyData.add_entry / want_entry / '
              '_expand_wildcard_citations / _get_crossreferenced_citations / add_extra_citations, the parse-time filtering of the '
              '.bib reader and the two engines\' front ends (built on the container models of C13): the model equals a short '
              'declarative specification of the resolved list, with the stated corollaries.  The model is tied to the code by a '
              'correspondence check that is exhaustive over all small databases x cross-reference assignments x citation lists x '
              'min_crossrefs in both reading modes and through both engines, and sampled beyond.')
LEVEL_NOTE = ('Trusted: Lean kernel; axioms propext/Classical.choice/Quot.sound only; the hand-written models correspond to the Python '
              'code only as far as the differential check explores; str.lower is ASCII in the model; problems are observed in capture '
              'mode.  The model follows the code with proposed_fixes/C05-1 (Python engine reports a missing cited key) and C05-2 '
              '(dangling cross-reference of an appended parent is reported) applied.  Filtered reading equals unfiltered reading only '
              'under ordering provisos: same keys when every uncited parent follows a cited child (C05_filtered_eq_unfiltered_partial + '
              'C05_filtered_neg; finding C05-filtered-parent-before-child), same entries and reports when moreover the FIRST entry of '
              'such a parent follows the child and its own parent follows it (C05_filtered_entries_partial + C05_filtered_entries_neg; '
              'findings C05-filtered-duplicate-parent, C05-filtered-grandparent-before-parent).  Spelling: "the spelling in the citation list wins" is '
              'NOT true of add_extra_citations on an arbitrary database - a key first contributed by a wildcard keeps the database\'s spelling '
              '(C05_spelling_exact gives the exact rule: first occurrence in the *-substituted list); it is proved for the reading both engines use '
              '(filtered by the citations) under the quantifier\'s proviso that a key is cited in one consistent spelling '
              '(C05_citation_spelling_engines; with inconsistent spellings the BibTeX engine emits the first, the Python engine the last one cited). '
              'C05_cited_first_in_order / C05_wildcard_db_order speak about the citations before the first wildcard only (the rest is an existential '
              'tail there; C05_expand_spec + C05_crossref_spec determine the whole list).  For the Python engine C05_missing_reported proves the emitted '
              'keys only up to letter case.  Databases are abstract (key, entry) lists, DbWF / EntryWF are container invariants every reader-built '
              'database satisfies (C05_reader_wf); keys compare by ASCII lower-casing (C01\'s reader folds with Unicode str.lower(): non-ASCII keys are '
              'differential only) - that folding is proved equal to the model of str.lower() on foldDomain (every ASCII key, every key whose non-ASCII '
              'characters str.lower() leaves alone) and is wrong outside it (C05_fold_neg: keys with non-ASCII capitals are not modelled, generators keep them out); '
              'min_crossrefs <= 1 behaves as 1 (C05_min_crossrefs_floor).  Constants (crossref, *, default citations / min_crossrefs, message templates) are '
              'regenerated from /repo on every run (Gen/C05Consts.lean, C05_constants_tied).  The constructor path, format_bibliography on a given database '
              '(citations None included) and the engines\' defaults are inside the model (Model/CitationsX.lean) with function-level correspondence ops.')
