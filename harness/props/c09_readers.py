"""Independent readers of the four output formats, used by the oracle of C09 (harness/props/c09.py).

Nothing here imports pybtex or knows how the backends build their output.

  html_read(text)      Python's html.parser: well-formedness, character data with the element stack, link targets
  tex_read(text)       a reader of LaTeX text: category codes of plain TeX / LaTeX (escape, group, math shift, alignment tab,
                       parameter, superscript, subscript, active tilde, comment), control words and symbols, the arguments of
                       \\href and \\url; every character of the output is classified as text (with its group depth) or as markup
  tex_read_document    the frame the LaTeX backend writes around the entries (thebibliography, \\bibitem[label]{key})
  md_read(text)        an inline reader of Markdown following the CommonMark 0.30 rules: backslash escapes, entities, code spans,
                       emphasis (delimiter runs, flanking, the rule of three), inline links with their destination, raw inline
                       HTML tags; returns every character with the markup around it and the link targets
  py_sem(tree)         the string of (markup stack, atom) pairs a raw tree denotes (the same thing `sem` of Spec/RichText.lean
                       computes; the oracle cross-checks the two)
"""
import html as _html
import html.entities
import html.parser
import re
import unicodedata

# ------------------------------------------------------------------------------------------------
# trees
# ------------------------------------------------------------------------------------------------


def py_sem(t, stack=()):
    """[(stack, atom)]: atom = a character or {'y': symbol}; stack = tuple of ('tag', n) | ('href', u, e) | ('prot',)"""
    out = []
    if isinstance(t, str):
        for ch in t:
            out.append((stack, ch))
    elif 'y' in t:
        out.append((stack, {'y': t['y']}))
    else:
        k = t['k']
        if k == 'tag':
            st = stack + (('tag', t['n']),)
        elif k == 'href':
            st = stack + (('href', t['u'], bool(t.get('e'))),)
        elif k == 'prot':
            st = stack + (('prot',),)
        else:
            st = stack
        for p in t['p']:
            out.extend(py_sem(p, st))
    return out


def tree_strings(t, out):
    if isinstance(t, str):
        out.append(t)
    elif isinstance(t, dict) and 'p' in t:
        for p in t['p']:
            tree_strings(p, out)
    return out


def tree_map_strings(t, f):
    """the tree with every String part s replaced by f(s)"""
    if isinstance(t, str):
        return f(t)
    if isinstance(t, dict) and 'p' in t:
        d = dict(t)
        d['p'] = [tree_map_strings(p, f) for p in t['p']]
        return d
    return t


def tree_map_nodes(t, f):
    """the tree with every inner node n replaced by f(n) (bottom-up; f gets the node with its parts already mapped)"""
    if isinstance(t, dict) and 'p' in t:
        d = dict(t)
        d['p'] = [tree_map_nodes(p, f) for p in t['p']]
        return f(d)
    return t


# ------------------------------------------------------------------------------------------------
# HTML
# ------------------------------------------------------------------------------------------------

VOID = {'meta', 'br', 'hr', 'img', 'link', 'input'}
_LEGACY = {k for k in html.entities.html5 if not k.endswith(';')}
_MAXNAME = max(len(k) for k in html.entities.html5)


def html5_attr_unescape(s):
    """character references in an attribute value as HTML5 reads them: `&name;`, `&#n;`, `&#xn;`; a legacy name without the
    semicolon only when it is not followed by `=` or an alphanumeric character"""
    out = []
    i, n = 0, len(s)
    while i < n:
        c = s[i]
        if c != '&':
            out.append(c)
            i += 1
            continue
        m = re.compile(r'&#(?:[xX]([0-9a-fA-F]+)|([0-9]+));?').match(s, i)
        if m:
            cp = int(m.group(1), 16) if m.group(1) else int(m.group(2))
            out.append(_html.unescape('&#%d;' % cp))
            i = m.end()
            continue
        hit = None
        for L in range(min(_MAXNAME, n - i - 1), 0, -1):
            name = s[i + 1:i + 1 + L]
            if name in html.entities.html5:
                hit = name
                break
        if hit is None:
            out.append(c)
            i += 1
            continue
        end = i + 1 + len(hit)
        if not hit.endswith(';') and end < n and (s[end] == '=' or s[end].isalnum()):
            out.append(c)
            i += 1
            continue
        out.append(html.entities.html5[hit])
        i = end
    return ''.join(out)


class _Reader(html.parser.HTMLParser):
    def __init__(self):
        super().__init__(convert_charrefs=True)
        self.stack = []
        self.runs = []          # [stack, chars]
        self.links = []         # href of every <a> (None if it has none)
        self.ok = True
        self.why = None

    def handle_starttag(self, tag, attrs):
        if tag == 'a':
            m = re.search(r'\shref="([^"]*)"', self.get_starttag_text() or '')
            self.links.append(html5_attr_unescape(m.group(1)) if m else None)
        if tag not in VOID:
            self.stack.append(tag)

    def handle_startendtag(self, tag, attrs):
        pass

    def handle_endtag(self, tag):
        if not self.stack or self.stack[-1] != tag:
            self.ok = False
            self.why = self.why or 'end tag </%s> with open elements %r' % (tag, self.stack)
        else:
            self.stack.pop()

    def handle_data(self, data):
        if self.runs and self.runs[-1][0] == self.stack:
            self.runs[-1][1] += data
        else:
            self.runs.append([list(self.stack), data])

    def handle_comment(self, data):
        self.ok = False
        self.why = self.why or 'comment'

    def handle_pi(self, data):
        self.ok = False
        self.why = self.why or 'processing instruction'

    def unknown_decl(self, data):
        self.ok = False
        self.why = self.why or 'unknown declaration'


def html_read_links(text):
    """(ok, why, runs, links) -- runs = [[element stack, chars], ...] as Python's html.parser sees the fragment"""
    r = _Reader()
    r.feed(text)
    r.close()
    if r.stack:
        r.ok = False
        r.why = r.why or 'unclosed elements %r' % r.stack
    return r.ok, r.why, [run for run in r.runs if run[1]], r.links


def html_read(text):
    ok, why, runs, _links = html_read_links(text)
    return ok, why, runs


# ------------------------------------------------------------------------------------------------
# LaTeX
# ------------------------------------------------------------------------------------------------

TEXT_WORDS = ('textasciitilde', 'newblock')        # control words that stand for text, not for markup
TEX_SPECIAL = '\\{}$^#%&_~'                        # the characters with a category code other than letter / other
ESCAPED_SYMBOLS = '#$%&_{}'                        # \X stands for the character X


def _balanced_group(s, i):
    """s[i] == '{': index just behind the matching '}' (braces counted verbatim), or None"""
    d = 0
    n = len(s)
    j = i
    while j < n:
        if s[j] == '{':
            d += 1
        elif s[j] == '}':
            d -= 1
            if d == 0:
                return j + 1
        j += 1
    return None


def tex_read(s):
    """Read LaTeX text.  Returns (items, links) or None when the braces are not balanced / an argument is missing.

    items: ('ch', c, depth)      the character c as text (`\\#` is `#`, `\\ ` a blank, `\\textasciitilde` is `~`)
           ('nbsp', '', depth)   the active character `~`
           ('cw', name, depth)   a control word that stands for text (`\\newblock`)
           ('mk', what, depth)   anything else that TeX does not typeset as the character it is: an unknown control sequence,
                                 math shift, super / subscript, alignment tab, parameter character, a comment
    links: the URL arguments of \\href / \\url as hyperref reads them: verbatim when the command is not inside the argument of
           another command; otherwise the characters have been tokenised already, `%` starts a comment and `#` is a
           parameter character: the URL is then reported as None
    A control word followed by `{` is a command applied to that group (no item)."""
    out = []
    links = []
    groups = []          # for every open group: True = argument of a command, False = bare group
    i, n = 0, len(s)
    pending_cmd = False  # the previous token was a control word that takes the next group
    while i < n:
        c = s[i]
        d = len(groups)
        if c == '{':
            groups.append(pending_cmd)
            pending_cmd = False
            i += 1
            continue
        pending_cmd = False
        if c == '}':
            if not groups:
                return None
            groups.pop()
            i += 1
        elif c == '\\':
            j = i + 1
            while j < n and s[j].isascii() and s[j].isalpha():
                j += 1
            if j == i + 1:            # control symbol
                if j >= n:
                    out.append(('mk', '\\', d))
                    i = j
                    continue
                x = s[j]
                if x in ESCAPED_SYMBOLS or x == ' ':
                    out.append(('ch', x, d))
                else:
                    out.append(('mk', '\\' + x, d))
                i = j + 1
                continue
            name = s[i + 1:j]
            i = j
            if name in ('href', 'url'):
                if name == 'href' and s.startswith('[pdfnewwindow]', i):
                    i += len('[pdfnewwindow]')
                if i >= n or s[i] != '{':
                    return None
                k = _balanced_group(s, i)
                if k is None:
                    return None
                url = s[i + 1:k - 1]
                in_argument = any(groups)
                if in_argument and ('%' in url or '#' in url):
                    links.append(None)
                else:
                    links.append(url)
                if name == 'url':
                    for ch in url:
                        out.append(('ch', ch, d + 1))
                    i = k
                else:
                    if k >= n or s[k] != '{':
                        return None
                    i = k
                    pending_cmd = True
            elif name in TEXT_WORDS:
                out.append(('ch', '~', d) if name == 'textasciitilde' else ('cw', name, d))
                while i < n and s[i] == ' ':
                    i += 1
            elif i < n and s[i] == '{':      # a command applied to the group that follows
                pending_cmd = True
            else:
                out.append(('mk', '\\' + name, d))
                while i < n and s[i] == ' ':
                    i += 1
        elif c == '~':                     # an active character: the no-break space
            out.append(('nbsp', '', d))
            i += 1
        elif c == '%':
            k = s.find('\n', i)
            out.append(('mk', '%', d))
            i = n if k < 0 else k + 1
        elif c in '$^_#&':
            out.append(('mk', c, d))
            i += 1
        else:
            out.append(('ch', c, d))
            i += 1
    if groups:
        return None
    return out, links


def tex_read_argument_text(arg):
    """the characters a piece of LaTeX text stands for, or None when some of it is markup / it is not balanced"""
    r = tex_read(arg)
    if r is None:
        return None
    chars = []
    for kind, x, _d in r[0]:
        if kind != 'ch':
            return None
        chars.append(x)
    return ''.join(chars)


def tex_read_document(doc):
    """The frame of a LaTeX bibliography: (preamble, widest-label argument, [(label argument, key argument, body)]) or a string
    saying what is wrong.  An optional argument ends at the first `]` outside braces; one level of braces around the whole
    argument is removed (TeX's rule for delimited arguments)."""
    m = re.search(r'\\begin\{thebibliography\}', doc)
    if not m:
        return 'no \\begin{thebibliography}'
    pre = doc[:m.start()]
    i = m.end()
    if i >= len(doc) or doc[i] != '{':
        return 'no argument of thebibliography'
    k = _balanced_group(doc, i)
    if k is None:
        return 'the argument of thebibliography is not balanced'
    widest = doc[i + 1:k - 1]
    rest = doc[k:]
    tail = '\n\n\\end{thebibliography}\n'
    if not rest.endswith(tail):
        return 'the document does not end with \\end{thebibliography}'
    rest = rest[:-len(tail)]
    entries = []
    pos = 0
    head = '\n\n\\bibitem['
    while pos < len(rest):
        if not rest.startswith(head, pos):
            return 'text outside a \\bibitem at offset %d: %r' % (pos, rest[pos:pos + 30])
        j = pos + len(head)
        d = 0
        a = j
        while j < len(rest) and not (rest[j] == ']' and d == 0):
            if rest[j] == '{':
                d += 1
            elif rest[j] == '}':
                d -= 1
                if d < 0:
                    return 'unbalanced brace in the optional argument of \\bibitem'
            j += 1
        if j >= len(rest):
            return 'the optional argument of \\bibitem does not end'
        label = rest[a:j]
        if len(label) >= 2 and label[0] == '{' and _balanced_group(label, 0) == len(label):
            label = label[1:-1]
        j += 1
        if j >= len(rest) or rest[j] != '{':
            return 'no key argument behind \\bibitem[%s]' % label
        k = _balanced_group(rest, j)
        if k is None:
            return 'the key argument of \\bibitem is not balanced'
        key = rest[j + 1:k - 1]
        if k >= len(rest) or rest[k] != '\n':
            return 'no line break behind \\bibitem[%s]{%s}' % (label, key)
        nxt = rest.find(head, k)
        body = rest[k + 1:] if nxt < 0 else rest[k + 1:nxt]
        entries.append((label, key, body))
        pos = len(rest) if nxt < 0 else nxt
    return pre, widest, entries


# ------------------------------------------------------------------------------------------------
# Markdown (inline structure, CommonMark 0.30)
# ------------------------------------------------------------------------------------------------

ASCII_PUNCT = set('!"#$%&\'()*+,-./:;<=>?@[\\]^_`{|}~')


def _is_ws(c):
    return c in ' \t\n\x0c\r' or unicodedata.category(c) == 'Zs'


def _is_punct(c):
    return c in ASCII_PUNCT or unicodedata.category(c)[0] == 'P'


_TAGNAME = r'[A-Za-z][A-Za-z0-9-]*'
_ATTR = r'(?:[ \t\n]+[A-Za-z_:][A-Za-z0-9_.:-]*(?:[ \t\n]*=[ \t\n]*(?:[^ \t\n"\'=<>`]+|\'[^\']*\'|"[^"]*"))?)'
_OPEN_TAG = re.compile(r'<(' + _TAGNAME + r')(' + _ATTR + r'*)[ \t\n]*(/?)>')
_CLOSE_TAG = re.compile(r'</(' + _TAGNAME + r')[ \t\n]*>')
_AUTOLINK = re.compile(r'<([A-Za-z][A-Za-z0-9+.-]{1,31}:[^\x00-\x20<>]*)>')
_ENTITY = re.compile(r'&(?:#[xX][0-9a-fA-F]{1,6}|#[0-9]{1,7}|[A-Za-z][A-Za-z0-9]{1,31});')


def _unescape_md(s):
    """backslash escapes and entities of a link destination / title"""
    out = []
    i = 0
    while i < len(s):
        if s[i] == '\\' and i + 1 < len(s) and s[i + 1] in ASCII_PUNCT:
            out.append(s[i + 1])
            i += 2
            continue
        m = _ENTITY.match(s, i) if s[i] == '&' else None
        if m and _html.unescape(m.group(0)) != m.group(0):
            out.append(_html.unescape(m.group(0)))
            i = m.end()
            continue
        out.append(s[i])
        i += 1
    return ''.join(out)


def _parse_inline_link(s, i):
    """s[i] == '(' behind a `]`: (destination, index behind the closing parenthesis) or None"""
    n = len(s)
    j = i + 1
    while j < n and s[j] in ' \t\n':
        j += 1
    if j < n and s[j] == '<':
        k = j + 1
        while k < n and s[k] not in '\n<>':
            if s[k] == '\\' and k + 1 < n and s[k + 1] in ASCII_PUNCT:
                k += 1
            k += 1
        if k >= n or s[k] != '>':
            return None
        dest = _unescape_md(s[j + 1:k])
        j = k + 1
    else:
        k = j
        depth = 0
        while k < n:
            c = s[k]
            if c == '\\' and k + 1 < n and s[k + 1] in ASCII_PUNCT:
                k += 2
                continue
            if c == '(':
                depth += 1
            elif c == ')':
                if depth < 1:
                    break
                depth -= 1
            elif c in ' \t\n' or ord(c) < 32 or ord(c) == 127:
                break
            k += 1
        if depth != 0:
            return None
        if k == j and not (k < n and s[k] == ')'):
            return None
        dest = _unescape_md(s[j:k])
        j = k
    k = j
    while k < n and s[k] in ' \t\n':
        k += 1
    if k < n and s[k] in '"\'(' and k > j:
        close = ')' if s[k] == '(' else s[k]
        q = k + 1
        while q < n and s[q] != close:
            if s[q] == '\\' and q + 1 < n and s[q + 1] in ASCII_PUNCT:
                q += 1
            q += 1
        if q >= n:
            return None
        k = q + 1
        while k < n and s[k] in ' \t\n':
            k += 1
    if k < n and s[k] == ')':
        return dest, k + 1
    return None


def _process_emphasis(nodes, bottom):
    """the `process emphasis` procedure of the CommonMark spec on the delimiter nodes behind index `bottom`"""
    def delims_after(idx):
        for q in range(idx + 1, len(nodes)):
            if nodes[q]['t'] == 'delim' and nodes[q]['active']:
                return q
        return None

    def delims_before(idx, low):
        for q in range(idx - 1, low, -1):
            if nodes[q]['t'] == 'delim' and nodes[q]['active']:
                return q
        return None

    openers_bottom = {}
    ci = delims_after(bottom)
    while ci is not None:
        closer = nodes[ci]
        if not closer['can_close'] or closer['n'] == 0:
            ci = delims_after(ci)
            continue
        key = (closer['ch'], closer['can_open'], closer['orig'] % 3)
        low = max(bottom, openers_bottom.get(key, bottom))
        oi = delims_before(ci, low)
        found = False
        while oi is not None:
            opener = nodes[oi]
            if opener['ch'] == closer['ch'] and opener['can_open'] and opener['n'] > 0:
                odd = (closer['can_open'] or opener['can_close']) and closer['orig'] % 3 != 0 and (opener['orig'] + closer['orig']) % 3 == 0
                if not odd:
                    found = True
                    break
            oi = delims_before(oi, low)
        if found:
            use = 2 if closer['n'] >= 2 and opener['n'] >= 2 else 1
            kind = 'strong' if use == 2 else 'em'
            opener['n'] -= use
            closer['n'] -= use
            opener['opens'].append(kind)
            closer['closes'].append(kind)
            for q in range(oi + 1, ci):
                if nodes[q]['t'] == 'delim':
                    nodes[q]['active'] = False
            if closer['n'] == 0:
                ci = delims_after(ci)
        else:
            prev = delims_before(ci, bottom)
            openers_bottom[key] = prev if prev is not None else bottom
            if not closer['can_open']:
                closer['active'] = False
            ci = delims_after(ci)
    for q in range(bottom + 1, len(nodes)):
        if nodes[q]['t'] == 'delim':
            nodes[q]['active'] = False


def md_read(s):
    """Inline reading of a Markdown fragment: ([(char, stack)], [link destinations]) where stack is a tuple of element names
    ('em', 'strong', 'code', 'a', or the name of a raw HTML element), outermost first; None when raw HTML tags are not
    well nested.  Block structure is not interpreted and white space is kept as it is (a line break is the character LF)."""
    nodes = []
    brackets = []     # indices of '[' nodes that may still open a link
    links = []
    n = len(s)
    i = 0

    def text(c):
        nodes.append({'t': 'text', 'c': c})

    while i < n:
        c = s[i]
        if c == '\\':
            if i + 1 < n and s[i + 1] in ASCII_PUNCT:
                text(s[i + 1])
                i += 2
            elif i + 1 < n and s[i + 1] == '\n':
                text('\n')
                i += 2
            else:
                text('\\')
                i += 1
        elif c == '`':
            j = i
            while j < n and s[j] == '`':
                j += 1
            run = j - i
            k = j
            end = None
            while k < n:
                if s[k] == '`':
                    q = k
                    while q < n and s[q] == '`':
                        q += 1
                    if q - k == run:
                        end = k
                        break
                    k = q
                else:
                    k += 1
            if end is None:
                for _ in range(run):
                    text('`')
                i = j
            else:
                content = s[j:end].replace('\n', ' ')
                if len(content) >= 2 and content[0] == ' ' and content[-1] == ' ' and content.strip(' ') != '':
                    content = content[1:-1]
                nodes.append({'t': 'open', 'el': 'code'})
                for ch in content:
                    text(ch)
                nodes.append({'t': 'close', 'el': 'code'})
                i = end + run
        elif c in '*_':
            j = i
            while j < n and s[j] == c:
                j += 1
            before = s[i - 1] if i > 0 else '\n'
            after = s[j] if j < n else '\n'
            left = not _is_ws(after) and (not _is_punct(after) or _is_ws(before) or _is_punct(before))
            right = not _is_ws(before) and (not _is_punct(before) or _is_ws(after) or _is_punct(after))
            if c == '*':
                can_open, can_close = left, right
            else:
                can_open = left and (not right or _is_punct(before))
                can_close = right and (not left or _is_punct(after))
            nodes.append({'t': 'delim', 'ch': c, 'n': j - i, 'orig': j - i, 'can_open': can_open, 'can_close': can_close,
                          'active': True, 'opens': [], 'closes': []})
            i = j
        elif c == '[':
            nodes.append({'t': 'lbr', 'active': True, 'image': False})
            brackets.append(len(nodes) - 1)
            i += 1
        elif c == '!' and i + 1 < n and s[i + 1] == '[':
            nodes.append({'t': 'lbr', 'active': True, 'image': True})
            brackets.append(len(nodes) - 1)
            i += 2
        elif c == ']':
            if not brackets:
                text(']')
                i += 1
                continue
            bi = brackets.pop()
            opener = nodes[bi]
            if not opener['active']:
                text(']')
                i += 1
                continue
            r = _parse_inline_link(s, i + 1) if i + 1 < n and s[i + 1] == '(' else None
            if r is None:
                text(']')
                i += 1
                continue
            dest, j = r
            _process_emphasis(nodes, bi)
            el = 'img' if opener['image'] else 'a'
            nodes[bi] = {'t': 'open', 'el': el}
            nodes.append({'t': 'close', 'el': el})
            links.append((bi, dest))
            if not opener['image']:
                for q in brackets:
                    if not nodes[q]['image']:
                        nodes[q]['active'] = False
            i = j
        elif c == '<':
            m = _AUTOLINK.match(s, i)
            if m:
                links.append((len(nodes), m.group(1)))
                nodes.append({'t': 'open', 'el': 'a'})
                for ch in m.group(1):
                    text(ch)
                nodes.append({'t': 'close', 'el': 'a'})
                i = m.end()
                continue
            m = _OPEN_TAG.match(s, i)
            if m:
                name = m.group(1).lower()
                if name == 'a':
                    h = re.search(r'[ \t\n]href[ \t\n]*=[ \t\n]*"([^"]*)"', m.group(2) or '')
                    links.append((len(nodes), html5_attr_unescape(h.group(1)) if h else None))
                if not m.group(3) and name not in VOID:
                    nodes.append({'t': 'open', 'el': name, 'html': True})
                i = m.end()
                continue
            m = _CLOSE_TAG.match(s, i)
            if m:
                nodes.append({'t': 'close', 'el': m.group(1).lower(), 'html': True})
                i = m.end()
                continue
            text('<')
            i += 1
        elif c == '&':
            m = _ENTITY.match(s, i)
            if m and _html.unescape(m.group(0)) != m.group(0):
                for ch in _html.unescape(m.group(0)):
                    text(ch)
                i = m.end()
            else:
                text('&')
                i += 1
        else:
            text(c)
            i += 1
    _process_emphasis(nodes, -1)
    out = []
    stack = []
    for nd in nodes:
        t = nd['t']
        if t == 'text':
            out.append((nd['c'], tuple(stack)))
        elif t == 'lbr':
            for ch in ('![' if nd['image'] else '['):
                out.append((ch, tuple(stack)))
        elif t == 'open':
            stack.append(nd['el'])
        elif t == 'close':
            if not stack or stack[-1] != nd['el']:
                return None
            stack.pop()
        elif t == 'delim':
            for kind in nd['closes']:
                if not stack or stack[-1] != kind:
                    return None
                stack.pop()
            for _ in range(nd['n']):
                out.append((nd['ch'], tuple(stack)))
            for kind in reversed(nd['opens']):
                stack.append(kind)
    if stack:
        return None
    return out, [d for _k, d in sorted(links, key=lambda x: x[0])]      # in the order in which the links open
