"""C16 -- every problem is a renderable pybtex error, the same in all reporting modes.

Seven driver ops (lean/PybtexModel/Drv/C16.lean):

errhist     histories over {enter, exit, abort-inside, report k, set_strict b} on the REAL
            `pybtex.errors` module (twice: real `with` blocks, and the context-manager protocol
            called by hand), module globals always restored;
errfree     the same module with the context managers left in ANY order (exit the k-th open one):
            the free-order machine of the model follows the code outside the `with` discipline too;
            restoration is judged only on LIFO histories (the quantifier of the property);
errrender   one instance of an error class: str / get_context / get_filename / format_error;
errclasses  the PybtexError subclasses found by importing every module of the package;
errmodes    a real input processed in capture, non-strict, strict mode and through CommandLine.__call__:
            .bib / .aux / .bst / name / plug-in lookup; YAML and BibTeXML documents; runs of the BibTeX engine
            (generated .bst programs with run-time faults, the real styles) and of the Python engine on a small
            database x {unknown entry type, missing field, missing citation, dangling crossref, syntax error ...};
            convert / format_database / make_bibliography; the inputs of the corruption generators of C10 / C15 /
            C20.  Where a reader model exists (C10 .bib reader, C15 .bst parser, C20 .aux reader, C03 interpreter)
            the request carries the input (`src`) and the driver computes the EXPECTED problems from that model
            (reply spec.expected): clause every_problem_reported.  Any non-pybtex exception is a failing input;
errcli      the three real command lines (pybtex, pybtex-convert, pybtex-format) run in-process with an argv
            (--strict in every position, other / rejected / plug-in options, wrong argument counts, same input and
            output, several runs in one interpreter); the model is `cliMain` = save strict; error_code = 0; set_strict_mode(False);
            options; run; finally restore strict;
fmtchars    the letters of a `format.name$` name part (BibTeXNameFormatError unreachable);
errfilename PybtexError.get_filename / format_error with filename None / str / ANY byte string (the byte branch:
            pybtex.io._decode_filename(..., errors='replace') = Model/ErrorsBytes.lean), str.encode('utf-8');
errprim     the primitives of the rendering model one by one against the real thing: str.splitlines, repr, rstrip('\\r\\n'),
            endswith('\\n'), NEWLINE.search, Scanner.get_error_context, LowLevelParser.get_error_context on EVERY parser state
            over small texts (the IndexError points included).   (props/c16_ext.py)
erreq       PybtexError.__eq__ / __hash__ on pairs of real exception objects (and other objects);
errrender also takes `fnb`: the filename attribute is that byte string and the MODEL decodes it.
"""
import contextlib
import importlib
import io
import itertools
import os
import pkgutil
import re
import shutil
import sys
import tempfile
import ast

import compat  # noqa: F401
from props.base import corpus_for  # noqa: F401
from props import c16_ext

ID = 'C16'
LEAN_MODULES = ['PybtexModel.Props.C16', 'PybtexModel.Props.C16Bytes']
THEOREMS = {
    'C16_render_total': 'UNDER Err.WF (a condition for TokenRequired only: parser state in range; next entry, ASSUMPTIONS) format_error is DEFINED for every error value of every class [the content]. Conjuncts 2-3 (= context lines ++ [prefix ++ str(error)], each prefixed by the file name) are [model wiring]: they restate the model function formatErrorLines; the shape is carried by the render_shape clause of the correspondence',
    'C16_render_total_other_classes': 'only TokenRequired carries a well-formedness condition (parser state in range); every other class renders unconditionally',
    'C16_render_filename': 'under Err.WF, with a non-empty file name every rendered line starts with "<file>: " and the last line is the prefixed message',
    'C16_render_no_filename': 'under Err.WF, without a file name (or with an empty one) the lines are exactly context ++ [prefix ++ message]',
    'C16_class_list_exact': 'the class list the harness compares with the PybtexError subclasses enumerated from the source is exactly the set of classes the model has values (a rendering) for: nothing listed without rendering, nothing rendered that is not listed',
    'C16_mode_independent': 'for a computation ABSTRACTED as a fixed report list e1..en + optional fatal error (Comp: all three runs consume the same list, so "same problems, same order" is built into the abstraction; TRUSTED, C16_bib_reader_mode_independent): capture collects exactly [e1..en] and restores the state; non-strict prints the same n warnings in order, error_code = 2 iff n > 0; strict raises e1 first, changes nothing, and its problems are a prefix of the others',
    'C16_warning_text': 'the warning printed in non-strict mode is the rendering with the WARNING prefix, defined for every error',
    'C16_exit_status': "command line (main resets error_code first, so from ANY module state outside a capture): status 0 iff nothing reported, 2 iff only warnings, 1 iff a pybtex error escaped; stderr = the warnings in order then the fatal error; the caller's strict is put back, error_code is left as this run's 0 / 2",
    'C16_capture_restores': '[contexts left innermost first = with blocks] after ANY balanced pattern of nested / aborted capture contexts, from ANY configuration: enclosing frames untouched, captured_errors back to what it was (+ the reports made directly at that level), strict = last set_strict_mode, error_code unchanged unless a warning was printed',
    'C16_capture_restores_outside': 'outside any context captured_errors is None again after the contexts have unwound',
    'C16_capture_nested': 'nested contexts compose: the enclosing context has collected exactly its direct reports, nothing was printed or raised meanwhile, and it goes on collecting',
    'C16_capture_context': 'one context (left normally or by an exception) yields exactly the reports made directly in its body and restores captured_errors and the enclosing frames exactly',
    'C16_direct_body': 'the reference "reports made directly in the body" depends on the body only',
    'C16_wellBracketed_balanced': 'every history of the well-bracketed grammar satisfies the decidable hypothesis (induction over well-bracketed histories)',
    'C16_balanced_iff_wellBracketed': 'the decidable bracket check and the well-bracketed grammar describe the same histories',
    'C16_history_refines_spec': 'for every history that STARTS OUTSIDE any capture context (captured_errors None, no open frame) and NEVER LEAVES A CONTEXT IT DID NOT ENTER (depthAfter 0 ops '
                                'is defined; contexts may stay open at the end): every report does what the reference semantics says from nesting depth and strict flag alone; error_code '
                                'ends as the reference says',
    'C16_error_code_monotone': 'error_code is unchanged or 2, is 2 once a warning was printed, and never decreases along a history',
    'C16_location_stable': '[model wiring] CAPTURE MODE ONLY: after h1 ++ h2 the captured list is l ++ errors built during h1 from the states current at their reports ++ those of h2. True by construction of a pure model (error values are immutable data); the real claim, Python error objects do not alias the mutable context, is carried by mkAuxError (fix C20-2) and the location_stable clause of the correspondence',
    'C16_location_stable_all_modes': '[model wiring, same caveat] the same OUTSIDE capture, strict and non-strict: the observations of a world history are in order the errors built from the '
                                     'states current at their reports, each raised / printed, unchanged by any continuation; captured_errors stays None',
    'C16_location_snapshot': '[model wiring] one definitional unfolding (rfl): getFilename / str of mkAuxError and mkTokenRequired read the filename / lineno fields of the state they were built from; that the Python constructors copy these fields is the modelling decision, carried by the correspondence (errrender, location_stable clause)',
    'C16_no_foreign_exception': 'conjunct 1 [content]: format letters accepted by check_format_chars are accepted by NamePart (BibTeXNameFormatError unreachable, format char in flvj). Conjunct 2 [model wiring]: "SkipEntry does not leave parse_bibliography" is rfl on the three-line guardCommand (type-level, see LEVEL_NOTE); carried by the foreign_exception clause of the correspondence',
    'C16_capture_LIFO_embedding': 'the LIFO assumption of the capture theorems is an embedding: a history of with blocks is the free-order history whose exits leave the most recently entered manager, and the free-order machine (each manager keeps its own value to restore) does on it exactly what the stack machine does',
    'C16_capture_nonLIFO_neg': 'NOT LIFO (enter A, enter B, leave A, leave B): every context has been left but captured_errors is a list for ever, later problems are swallowed -- "leaving capture mode always restores" holds for with blocks only',
    'C16_bib_reader_exits_listed': 'every exit of the .bib reader model (C10) -- each problem reported, the error raised in strict mode -- for EVERY text / mode / wanted set / macro table is an exception object of one of 8 listed PybtexError subclasses; nothing is lost reading the run as a computation; class and str(error) do not depend on what the reader model leaves out',
    'C16_bib_reader_mode_independent': 'mode independence of the .bib reader NOT by construction: what the reader model raises in its own strict mode is what the abstract computation built from its continue-mode run says strict mode raises (head of the collected list, else the same final error), for every text',
    'C16_bst_parser_exits_listed': 'every exit of the .bst parser model (C15), through parse_string / parse_stream / parse_file: the program, or a PrematureEOF / TokenRequired / PybtexSyntaxError of an over-long integer (never a model-only outcome); nothing is reported, so the run is the same computation in every mode',
    'C16_aux_reader_exits_listed': 'every exit of the .aux reader model (C20) over any file system with acyclic inclusion: reports are AuxDataErrors that render exactly as the reader model says (str, context, file name; well-formed for render_total), the fatal error is an AuxDataError or the PybtexError of a file that cannot be opened',
    'C16_main_strict_option': 'the real main() with --strict anywhere among accepted options, from ANY module state: the first problem is the only thing on stderr (ERROR prefix), status 1; without problems status 0; afterwards strict is what the caller had and error_code is 0',
    'C16_main_exit_status': 'main() without --strict is the non-strict run whatever strict and error_code were before: warnings in order then the fatal error; status 1 / 2 / 0 = the reference status of the input; a command line that is not accepted (wrong argument count, rejected option, unknown plug-in) never ends with status 0',
    'C16_main_history_independent': "main() neither depends on nor disturbs the caller's reporting state (repair 8c0015f): from ANY state outside a capture its stderr and exit status are those of the same command line in a fresh interpreter; afterwards strict is the caller's on every way out (options accepted or rejected, --help, unknown plug-in, wrong argument count, fatal error, --strict raise), no capture is open, error_code is 0 or 2; in a sequence of runs in one interpreter every run has the status of its own input",
    'C16_bst_run_end_partial': 'conjuncts 1-2 [content]: a finished BibTeX-engine run (C03 interpreter model, lazily parsed program) has a program that parses completely; a .bst syntax error is the C15 parser model\'s, of a listed class. Conjuncts 3-4 [model wiring]: "foreign ONLY at IErr.internal, unknown ONLY on fuel exhaustion" is the definition of the classifier bstRun (4 also excludes a parser error without pybtex counterpart). Nothing is said about real runs (see _neg): that is errmodes',
    'C16_decode_encodeChar': 'for EVERY character c and byte string rest: bytes.decode("utf-8", "replace") of (c.encode("utf-8") + rest) is c followed by the decoding of rest (all four UTF-8 lengths, incl. the restricted second bytes after E0 / ED / F0 / F4); no hypothesis',
    'C16_filename_bytes_roundtrip': 'for EVERY string s: s.encode("utf-8").decode("utf-8", "replace") = s, so an error whose filename attribute is the UTF-8 byte form of a name has the get_filename() and the format_error text of the error carrying the str name; no hypothesis',
    'C16_decode_length': 'the replace-decoder yields at most one character per byte and at least one character for a non-empty byte string',
    'C16_filename_bytes_total': 'UNDER Err.WF (as C16_render_total): with EVERY byte string as filename attribute, ill-formed UTF-8 included, format_error is defined (= C16_render_total after decoding) and a non-empty byte name decodes to a non-empty name; that get_filename() itself is defined is [by construction]: the model decoder is a total function; for the five classes without a file-name argument the model ignores the attribute',
    'C16_filename_bytes_prefix': 'UNDER Err.WF, for an error of a class whose constructor takes a file name (plain classes, syntax errors, TokenRequired, AuxDataError) and EVERY NON-EMPTY byte string as that name: every line of format_error (context lines and message line) starts with the decoded name + ": "',
    'C16_splitlines_lossless': 'str.splitlines as modelled, for EVERY text: with keepends the pieces concatenate to the text again; without it no piece contains a line separator',
    'C16_context_lines_single': 'for every error value whose context is defined: each context line format_error puts before the message contains no line separator (it is ONE line and gets its own file-name prefix)',
    'C16_eq_equivalence': '[by construction: __eq__ is modelled as equality of str(), __hash__ as str(); tie = op erreq] PybtexError.__eq__ (str(self) == str(other)) is reflexive, symmetric, transitive, contains identity of values, and __hash__ is consistent with it, for all error values of all classes',
    'C16_eq_ignores_location_neg': 'witness: an AuxDataError in a.aux line 3 with context and a PybtexError in b.bib are == although class, file name and format_error differ: == on captured lists cannot tell problems apart that differ in class or location',
    'C16_decode_illformed_examples': 'kernel-evaluated instances of the maximal-subpart replacement rule of CPython (stray continuation byte, over-long lead, restricted second byte, truncated prefix before ASCII, surrogate, above U+10FFFF, prefix cut off by the end)',
    'C16_fs_encoding_modelled': '[table check] the codec of sys.getfilesystemencoding() of the running interpreter (Gen/C16Tables.lean, regenerated on every run) is the UTF-8 the byte-file-name model decodes with',
    'C16_constants_match_source': '[table check] the constants the rendering / reporting model hard-codes equal the literals read from the source on every run: default prefix of format_error / print_error, prefix and error_code value of report_error, error_type of PybtexSyntaxError / UndefinedMacro, the str.splitlines separators of the interpreter, the exit status of an escaped pybtex error (sys.exit(1) in CommandLine.__call__), the format letters of check_format_chars, the file-name template "{0}: {1}"',
    'C16_repr_table_examples': '[table check] repr escapes what the regenerated str.isprintable table says outside Latin-1 (U+200B, U+FEFF, private use, unassigned, plane 14) and nothing else (letters, dashes, currency, CJK)',
    'C16_bst_run_foreign_neg': 'the recorded finding C16-bst-illformed-program: "a" #1 +, EXECUTE {cite$}, ITERATE {undefined} have no pybtex outcome (TypeError / AttributeError / KeyError in the Python code)',
}
RULE = ('errmodes also: every .bst run-time fault of a table x 2 databases, real styles and the 4 Python styles x every fault entry x 2 citation '
        'lists through the BibTeX and the Python engine; every truncation + random corruptions of a YAML and a BibTeXML document; convert / '
        'format_database / make_bibliography; inputs of the C10 / C15 / C20 generators (expected problems computed by the driver from the '
        'reader models); errcli: the three real mains in-process x argv patterns; errfree: every history of <=N operations with exits in any order; '
        'errhist: every history of <=N operations (N=5 quick, 7 thorough) over {enter, exit, abort, report, set_strict T/F} in which no '
        'exit precedes its enter, closed with the missing exits, from strict and non-strict start, + seeded random longer ones; '
        'errrender: for each class found in the source a grid of constructor arguments (messages, file names str/bytes/empty/None, '
        'line numbers, every in-range parser position of every text over a small alphabet of line separators) + random; '
        'errmodes: hand-made and randomly corrupted .bib/.aux/.bst/name/plugin inputs in the three modes and through CommandLine; '
        'non-trivial = history with a report inside or after a context / instance with context or file name / input with >=1 problem; '
        'distinct by case JSON')
TRUSTED = ['str.splitlines, repr() of str, rstrip, NEWLINE.search are modelled by hand and compared with the interpreter function by function on '
           'every run (errprim; repr / splitlines over every code point in the thorough tier); the non-printable table of repr and the '
           'separators of splitlines are regenerated from the interpreter (Gen/C16Tables.lean); int formatting is modelled, not verified',
           'byte file names: decoded by the MODEL (Model/ErrorsBytes.lean = bytes.decode("utf-8", "replace"), compared with '
           'pybtex.io._decode_filename on every run, errfilename) in errrender / errfilename; only in real runs (errmodes / errcli) a byte '
           'file name found on an exception object is still decoded by the harness; a file-system encoding other than UTF-8 stops the build '
           '(C16_fs_encoding_modelled)',
           'stderr plumbing (pybtex.io.stderr), sys.exit and optparse are observed, not modelled',
           'the computation abstraction: the sequence of report_error calls of a run does not depend on the reporting mode '
           '(report_error returns nothing); proved of the .bib reader model (C16_bib_reader_mode_independent), trivial for the .bst parser '
           '(no reports); for the .aux reader, the engines and the other entry points checked on the real inputs, not proved',
           'optparse is reduced to what it does to the error channel (--strict callback, rejected option -> status 2, --help/--version -> 0, '
           'exception from a load_plugin option); universal-newline translation of text files is done by the harness before a text reaches a reader model',
           'the expected problems of an input are computed by the reader models of C10 / C15 / C20 / C03 (tied to the code by those properties\' own checks)']
ASSUMPTIONS = ['TokenRequired instances come from parser states in which get_error_context does not index out of range '
               '(CtxInfo.WF: Scanner 1 <= lineno <= number of lines; LowLevelParser command_start < pos, inside the text)',
               'capture contexts are left in LIFO order (with-statement discipline) -- outside it restoration FAILS (C16_capture_nonLIFO_neg); '
               'the free-order machine is still tied to the code (errfree)',
               'error_code set by report_error OUTSIDE main() stays set until something resets it (C16_error_code_monotone); main() itself resets it (8c0015f)',
               '.bst programs are well-formed in the sense of the C03 model (no IErr.internal): otherwise recorded finding C16-bst-illformed-program',
               'entry types do not coincide with the name of a format_* helper of the Python style (@title, @url ...: legacy fall-back, see proposed_fixes/C16-3.md)',
               'the file-system encoding of the running interpreter is UTF-8 (not assumed silently: C16_fs_encoding_modelled fails the build otherwise); '
               'byte file names in other encodings are outside the model',
               'the tree carries proposed_fixes C16-1, C16-2, C20-1, C20-2 and C16-3 ... C16-7 (the model follows the fixed behaviour)']

WARNING = 'WARNING: '
ERROR = 'ERROR: '


# ----------------------------------------------------------------------------------------------
# error values <-> real exception objects
# ----------------------------------------------------------------------------------------------

def _fs_encode(name):
    return name.encode(sys.getfilesystemencoding() or 'utf-8')


class _Obj(object):
    pass


def _make_parser(kind, text, filename, start, lineno, pos):
    from pybtex.scanner import Scanner
    from pybtex.database.input.bibtex import LowLevelParser
    if kind == 'lowLevel':
        p = LowLevelParser(text, filename=filename)
        p.command_start = start
    else:
        p = Scanner(text, filename=filename)
    p.lineno = lineno
    p.pos = pos
    return p


def build_error(spec, fn_bytes=False, fnb=None):
    """errspec -> (exception object, function that moves the parse state on).  `fnb`: the file name IS this byte string."""
    from pybtex import exceptions, scanner, auxfile, database
    from pybtex.bibtex import exceptions as bexc, names
    from pybtex.database import convert
    from pybtex.database.input import bibtex as ibib
    from pybtex import plugin
    from pybtex.style import template
    cls = spec['cls']
    fn = spec.get('filename')
    if fn is not None and fn_bytes:
        fn = _fs_encode(fn)
    if fnb is not None:
        fn = bytes(fnb)
    later = lambda: None  # noqa: E731
    plain = {'PybtexError': exceptions.PybtexError, 'BibliographyDataError': database.BibliographyDataError,
             'BibTeXError': bexc.BibTeXError, 'ConvertError': convert.ConvertError}
    if cls in plain:
        return plain[cls](spec['msg'], filename=fn), later
    if cls == 'DuplicateField':
        return ibib.DuplicateField(spec['key'], spec['field']), later
    if cls == 'InvalidNameString':
        return database.InvalidNameString(spec['name']), later
    if cls == 'PluginGroupNotFound':
        return plugin.PluginGroupNotFound(spec['group']), later
    if cls == 'PluginNotFound':
        return plugin.PluginNotFound(spec['group'], spec['name']), later
    if cls == 'FieldIsMissing':
        ek = spec['entry']
        if ek['kind'] == 'missing':
            entry = _Obj()
        elif ek['kind'] == 'none':
            entry = database.Entry('misc')
        else:
            entry = database.Entry('misc')
            entry.key = ek['key']
        return template.FieldIsMissing(spec['field'], entry), later
    if cls in ('PybtexSyntaxError', 'UndefinedMacro', 'PrematureEOF', 'UnbalancedBraceError'):
        if cls == 'UnbalancedBraceError':
            p = names.NameFormatParser(spec['arg'], filename=fn)
            p.lineno = spec.get('lineno')
        else:
            p = _make_parser('scanner', 'some text\nmore', fn, None, spec.get('lineno'), 3)

        def later():  # noqa: F811
            p.pos = len(p.text)
            p.lineno = 77
        if cls == 'PybtexSyntaxError':
            return scanner.PybtexSyntaxError(spec['arg'], p), later
        if cls == 'UndefinedMacro':
            return ibib.UndefinedMacro(spec['arg'], p), later
        if cls == 'PrematureEOF':
            return scanner.PrematureEOF(p), later
        return names.UnbalancedBraceError(p), later
    if cls == 'TokenRequired':
        i = spec['info']
        p = _make_parser(i['kind'], i['text'], fn, i.get('start'), i.get('lineno'), i['pos'])

        def later():  # noqa: F811
            p.pos = len(p.text)
            p.lineno = 77
            if i['kind'] == 'lowLevel':
                p.command_start = len(p.text)
        return scanner.TokenRequired(spec['description'], p), later
    if cls == 'AuxDataError' and spec.get('noctx'):
        return auxfile.AuxDataError(spec['msg']), later       # the constructor's own default: no context
    if cls == 'AuxDataError':
        ctx = auxfile.AuxDataContext(fn)
        ctx.lineno = spec.get('lineno')
        ctx.line = spec.get('line')

        def later():  # noqa: F811
            ctx.lineno = 99
            ctx.line = 'a later line'
        return auxfile.AuxDataError(spec['msg'], ctx), later
    raise ValueError('no constructor recipe for class %s' % cls)


def _decode_fn(fn):
    if isinstance(fn, bytes):
        return fn.decode(sys.getfilesystemencoding() or 'utf-8', errors='replace')
    return fn


def spec_of_exception(e, sanitize=lambda s: s):
    """real exception object -> errspec (fields read off the object; messages of the classes that
    format their arguments into the message are taken apart again)."""
    from pybtex.scanner import Scanner
    from pybtex.database.input.bibtex import LowLevelParser
    cls = type(e).__name__
    msg = e.args[0] if e.args else ''
    fn = _decode_fn(getattr(e, 'filename', None))
    if isinstance(fn, str):
        fn = sanitize(fn)
    bad = {'cls': cls, 'unparsed': str(msg)}
    if not isinstance(msg, str) or not (fn is None or isinstance(fn, str)):
        return bad
    if cls in ('PybtexError', 'BibliographyDataError', 'BibTeXError', 'ConvertError'):
        return {'cls': cls, 'msg': sanitize(msg), 'filename': fn}
    if cls == 'DuplicateField':
        m = re.match(r'^entry with key (.*) has a duplicate (\S+) field$', msg, re.S)
        return {'cls': cls, 'key': m.group(1), 'field': m.group(2)} if m and fn is None else bad
    if cls == 'InvalidNameString':
        try:
            name = ast.literal_eval(msg[len('Too many commas in '):])
        except Exception:
            return bad
        return {'cls': cls, 'name': name} if msg.startswith('Too many commas in ') and fn is None else bad
    if cls == 'PluginGroupNotFound':
        m = re.match(r'^plugin group (.*) not found$', msg, re.S)
        return {'cls': cls, 'group': m.group(1)} if m and fn is None else bad
    if cls == 'PluginNotFound':
        m = re.match(r'^plugin (.*\.suffixes) for suffix (\..*) not found$', msg, re.S)
        if m and fn is None:
            return {'cls': cls, 'group': m.group(1), 'name': m.group(2)}
        m = re.match(r'^plugin (pybtex\.[a-z.]*[a-z])\.(.*) not found$', msg, re.S)
        return {'cls': cls, 'group': m.group(1), 'name': m.group(2)} if m and fn is None else bad
    if cls == 'FieldIsMissing':
        m = re.match(r'^missing (\S*) in (.*)$', msg, re.S)
        return {'cls': cls, 'field': m.group(1), 'entry': {'kind': 'key', 'key': m.group(2)}} if m and fn is None else bad
    if cls in ('PybtexSyntaxError', 'UndefinedMacro'):
        return {'cls': cls, 'arg': msg, 'filename': fn, 'lineno': e.lineno}
    if cls == 'PrematureEOF':
        return {'cls': cls, 'filename': fn, 'lineno': e.lineno} if msg == 'premature end of file' else bad
    if cls == 'UnbalancedBraceError':
        return {'cls': cls, 'arg': e.parser.text, 'filename': fn, 'lineno': e.lineno}
    if cls == 'TokenRequired':
        gec = type(e.parser).get_error_context
        info = e.error_context_info
        if not msg.endswith(' expected'):
            return bad
        if gec is LowLevelParser.get_error_context and len(info) == 3:
            i = {'kind': 'lowLevel', 'text': e.parser.text, 'start': info[0], 'lineno': info[1], 'pos': info[2]}
        elif gec is Scanner.get_error_context and len(info) == 2:
            i = {'kind': 'scanner', 'text': e.parser.text, 'start': None, 'lineno': info[0], 'pos': info[1]}
        else:
            return bad
        if i['lineno'] != e.lineno:
            return bad
        return {'cls': cls, 'description': msg[:-len(' expected')], 'filename': fn, 'info': i}
    if cls == 'AuxDataError':
        ctx = getattr(e, 'context', None)
        return {'cls': cls, 'msg': msg, 'filename': fn,
                'lineno': getattr(e, 'lineno', getattr(ctx, 'lineno', None)),
                'line': getattr(e, 'line', getattr(ctx, 'line', None))}
    return bad


def _kind(x):
    return compat.pybtex_error_kind(x)


def _call(f):
    try:
        return f()
    except BaseException as x:  # noqa
        return {'fail': _kind(x)}


def render_record(e, prefix=ERROR, sanitize=lambda s: s):
    """The four renderings of one exception object."""
    from pybtex import errors

    def s(v):
        return sanitize(v) if isinstance(v, str) else v
    return {'cls': type(e).__name__,
            'str': s(_call(lambda: str(e))),
            'context': s(_call(e.get_context)),
            'filename': s(_call(lambda: e.get_filename())),
            'format': s(_call(lambda: errors.format_error(e, prefix)))}


# ----------------------------------------------------------------------------------------------
# module state guard
# ----------------------------------------------------------------------------------------------

@contextlib.contextmanager
def fresh_errors(strict=True):
    """Run with a fresh `pybtex.errors` state, private stderr / stdout (pybtex.io and sys) and the current
    directory remembered; ALWAYS put everything back."""
    from pybtex import errors
    import pybtex.io
    saved = (errors.strict, errors.error_code, errors.captured_errors, pybtex.io.stderr, sys.argv)
    saved_out = (pybtex.io.stdout, sys.stdout, sys.stderr)
    cwd = os.getcwd()
    buf = io.StringIO()
    try:
        errors.error_code = 0
        errors.captured_errors = None
        errors.set_strict_mode(strict)
        pybtex.io.stderr = buf
        pybtex.io.stdout = io.StringIO()
        sys.stdout = io.StringIO()
        sys.stderr = io.StringIO()
        yield errors, buf
    finally:
        errors.strict, errors.error_code, errors.captured_errors, pybtex.io.stderr, sys.argv = saved
        pybtex.io.stdout, sys.stdout, sys.stderr = saved_out
        if os.getcwd() != cwd:
            os.chdir(cwd)


def _take(buf):
    t = buf.getvalue()
    buf.seek(0)
    buf.truncate()
    return t


# ----------------------------------------------------------------------------------------------
# errhist
# ----------------------------------------------------------------------------------------------

class _Abort(Exception):
    pass


class _Unwind(BaseException):
    """leaves the nested `with` blocks of _run_with after the context manager itself has raised"""


class _Hist(object):
    def __init__(self, case, errors, buf):
        self.errors = errors
        self.buf = buf
        self.objs = [build_error(s)[0] for s in case['errs']]
        self.ids = {id(o): k for k, o in enumerate(self.objs)}
        self.trace = []
        self.lists = []

    def idl(self, l):
        if l is None:
            return None
        return [self.ids.get(id(o), 'FOREIGN') for o in l]

    def state(self):
        e = self.errors
        return [e.strict, e.error_code, self.idl(e.captured_errors)]

    def note(self, obs):
        self.trace.append({'obs': obs, 'st': self.state()})

    def report(self, k):
        obj = self.objs[k]
        e = self.errors
        try:
            e.report_error(obj)
        except BaseException as x:  # noqa
            obs = {'raised': k} if x is obj else {'raised': _kind(x)}
            t = _take(self.buf)
            if t:
                obs['printed_too'] = t
            return self.note(obs)
        t = _take(self.buf)
        if t:
            return self.note({'printed': t[:-1] if t.endswith('\n') else t + '<no newline>'})
        cap = e.captured_errors
        if cap is not None and cap and cap[-1] is obj:
            return self.note('collected')
        return self.note('lost')

    def result(self, open_contexts):
        return {'trace': self.trace, 'final': self.state(), 'open': open_contexts,
                'lists': [self.idl(l) for l in self.lists]}


def _run_manual(case):
    with fresh_errors(case['strict0']) as (errors, buf):
        h = _Hist(case, errors, buf)
        stack = []
        try:
            for op in case['ops']:
                o = op['o']
                if o == 'strict':
                    errors.set_strict_mode(op['b'])
                    h.note(None)
                elif o == 'enter':
                    cm = errors.capture()
                    lst = cm.__enter__()
                    stack.append((cm, lst))
                    h.lists.append(lst)
                    h.note(None)
                elif o in ('exit', 'abort'):
                    cm, lst = stack.pop()
                    obs = {}
                    swallowed = False
                    try:
                        if o == 'exit':
                            swallowed = cm.__exit__(None, None, None)
                        else:
                            try:
                                raise _Abort()
                            except _Abort as x:
                                swallowed = cm.__exit__(type(x), x, x.__traceback__)
                    except BaseException as x:  # noqa -- what the implementation does is an observation, never a harness failure
                        obs['exit_raised'] = _kind(x)
                    obs['left'] = h.idl(lst)
                    if swallowed:
                        obs['swallowed'] = True
                    h.note(obs)
                else:
                    h.report(op['k'])
            return h.result(len(stack))
        finally:
            while stack:  # never leave a generator suspended
                cm, _ = stack.pop()
                try:
                    cm.__exit__(None, None, None)
                except BaseException:  # noqa
                    pass


def _run_with(case):
    with fresh_errors(case['strict0']) as (errors, buf):
        h = _Hist(case, errors, buf)
        ops = case['ops']

        def block(i):
            while i < len(ops):
                op = ops[i]
                o = op['o']
                if o == 'strict':
                    errors.set_strict_mode(op['b'])
                    h.note(None)
                    i += 1
                elif o == 'report':
                    h.report(op['k'])
                    i += 1
                elif o == 'enter':
                    lst = None
                    try:
                        with errors.capture() as lst:
                            h.lists.append(lst)
                            h.note(None)
                            i = block(i + 1)
                            if ops[i]['o'] == 'abort':
                                raise _Abort()
                    except _Abort:
                        pass
                    except _Unwind:
                        raise
                    except BaseException as x:  # noqa -- raised by the context manager itself: recorded, the history stops here
                        h.note({'left': h.idl(lst), 'exit_raised': _kind(x)})
                        raise _Unwind()
                    h.note({'left': h.idl(lst)})
                    i += 1
                else:
                    return i
            return i
        try:
            block(0)
        except _Unwind:
            pass
        return h.result(0)


def _depth_profile(ops):
    d = 0
    for op in ops:
        if op['o'] == 'enter':
            d += 1
        elif op['o'] in ('exit', 'abort'):
            d -= 1
            if d < 0:
                return None
    return d


# ----------------------------------------------------------------------------------------------
# errmodes: real inputs
# ----------------------------------------------------------------------------------------------

def _write(tmp, name, text):
    path = os.path.join(tmp, *name.split('/'))
    if '/' in name:
        os.makedirs(os.path.dirname(path), exist_ok=True)
    with open(path, 'w', encoding='utf-8', newline='') as f:
        f.write(text)
    return path


def _aux_content(lines, nl):
    """the text of an .aux file of the C20 generators (list of lines -> file content)"""
    if not lines:
        return ''
    t = '\n'.join(lines)
    if nl or lines[-1] == '':
        t += '\n'
    return t


BST_ENTRY = {'bst': 'string', 'bst_stream': 'stream', 'bst_file': 'file'}
READER_FORMAT = {'yaml': 'yaml', 'yamlfile': 'yaml', 'bibtexml': 'bibtexml', 'xmlfile': 'bibtexml'}


def _computation(case, tmp):
    """() -> None: the pybtex call of the case (reads user input, reports problems)."""
    kind, text = case['kind'], case.get('text')
    if kind == 'bib':
        def run():
            from pybtex.database import parse_string
            parse_string(text, 'bibtex')
    elif kind == 'bibfile':
        path = _write(tmp, 'input.bib', text)
        if case.get('pathlike'):
            import pathlib
            path = pathlib.Path(path)     # a file may be named by any os.PathLike

        def run():
            from pybtex.database import parse_file
            parse_file(path, 'bibtex')
    elif kind in ('yaml', 'bibtexml'):
        def run():
            from pybtex.database import parse_string
            parse_string(text, READER_FORMAT[kind])
    elif kind in ('yamlfile', 'xmlfile'):
        path = _write(tmp, 'input.yaml' if kind == 'yamlfile' else 'input.xml', text)
        if case.get('pathlike'):
            import pathlib
            path = pathlib.Path(path)

        def run():
            from pybtex.database import parse_file
            parse_file(path)            # format guessed from the suffix
    elif kind == 'aux':
        path = _write(tmp, 'input.aux', text)

        def run():
            from pybtex import auxfile
            auxfile.parse_file(path, 'utf-8')
    elif kind == 'auxfs':
        seen = set()
        for name, lines in case['files']:
            if name not in seen:
                seen.add(name)
                _write(tmp, name, _aux_content(lines, case.get('nl', True)))

        def run():
            from pybtex import auxfile
            os.chdir(tmp)
            auxfile.parse_file(case['top'])
    elif kind == 'bst':
        def run():
            from pybtex.bibtex import bst
            list(bst.parse_string(text))
    elif kind == 'bst_stream':
        def run():
            from pybtex.bibtex import bst
            list(bst.parse_stream(io.StringIO(text)))
    elif kind == 'bst_file':
        path = _write(tmp, 'input.bst', text)

        def run():
            from pybtex.bibtex import bst
            list(bst.parse_file(path, encoding='utf-8'))
    elif kind == 'name':
        def run():
            from pybtex.database import Person
            Person(text)
    elif kind == 'namefmt':
        def run():
            from pybtex.bibtex.names import format_name
            format_name('von Last, Jr, First', text)
    elif kind == 'plugin':
        group, _, name = text.partition('|')

        def run():
            from pybtex.plugin import find_plugin
            find_plugin(group, name)
    elif kind == 'bibtex_run':
        _write(tmp, 'style.bst', case['bst'])

        def run():
            from pybtex.bibtex import BibTeXEngine
            BibTeXEngine().format_from_strings(list(case['bibs']), style=os.path.join(tmp, 'style'), citations=list(case['citations']),
                                               min_crossrefs=case.get('min_crossrefs', 2))
    elif kind == 'python_run':
        def run():
            from pybtex import PybtexEngine
            PybtexEngine().format_from_strings(list(case['bibs']), style=case['style'], citations=list(case['citations']),
                                               min_crossrefs=case.get('min_crossrefs', 2), output_backend=case.get('backend'))
    elif kind in ('convert', 'format', 'make_bibliography'):
        for name, content in case['files']:
            _write(tmp, name, content)

        def run():
            os.chdir(tmp)
            if kind == 'convert':
                from pybtex.database.convert import convert
                convert(case['from'], case['to'])
            elif kind == 'format':
                from pybtex.database.format import format_database
                format_database(case['from'], case['to'], style=case.get('style'))
            elif case['engine'] == 'bibtex':
                from pybtex.bibtex import BibTeXEngine
                BibTeXEngine().make_bibliography(case['aux'])
            else:
                from pybtex import PybtexEngine
                PybtexEngine().make_bibliography(case['aux'])
    else:
        raise ValueError(kind)
    return run


def _raised(x, sanitize):
    from pybtex.exceptions import PybtexError
    from pybtex import errors
    if x is None:
        return None
    if isinstance(x, PybtexError):
        r = _call(lambda: errors.format_error(x, ERROR))
        return sanitize(r) if isinstance(r, str) else r
    return _kind(x)


def _scratch_base():
    """A memory-backed directory when there is one (file creation dominates the run time of the file kinds)."""
    shm = '/dev/shm'
    if os.path.isdir(shm) and os.access(shm, os.W_OK | os.X_OK):
        return shm
    return None


_BASE = _scratch_base()


def _mktmp():
    tmp = tempfile.mkdtemp(prefix='verif-c16-', dir=_BASE)
    real = os.path.realpath(tmp)
    assert not real.startswith('/repo') and not real.startswith(compat.VERIF + os.sep), real
    return tmp


def _cls_str(x):
    """[class, str(error)] of a pybtex error (what the reader models predict)"""
    s = _call(lambda: str(x))
    return [type(x).__name__, s]


def _run_modes(case, want='all'):
    """Process the input in the three modes (+ command line).  `want='specs'`: only the capture run,
    returning the errspecs of what was reported (used to build the driver request)."""
    from pybtex.exceptions import PybtexError
    tmp = _mktmp()
    sanitize = lambda s: s.replace(tmp, 'TMPDIR')  # noqa: E731
    try:
        run = _computation(case, tmp)
        out = {}
        # capture
        with fresh_errors(True) as (errors, buf):
            exc = None
            collected = []
            try:
                with errors.capture() as collected:
                    run()
            except BaseException as x:  # noqa
                exc = x
            if want == 'specs':
                return ([spec_of_exception(e, sanitize) for e in collected],
                        spec_of_exception(exc, sanitize) if isinstance(exc, PybtexError) else None)
            out['capture'] = {'collected': [render_record(e, ERROR, sanitize) for e in collected],
                              'raised': _raised(exc, sanitize),
                              'restored': errors.captured_errors is None and errors.strict is True and errors.error_code == 0}
            warn = [_call(lambda e=e: errors.format_error(e, WARNING)) for e in collected]
            out['_warnings'] = [sanitize(w) if isinstance(w, str) else w for w in warn]
            out['_stderr_capture'] = sanitize(_take(buf))
            # not part of the correspondence (compare_view drops '__' keys): class + str of what ended the run
            out['__fatal'] = _cls_str(exc) if isinstance(exc, PybtexError) else None
        # non-strict
        with fresh_errors(False) as (errors, buf):
            exc = None
            try:
                run()
            except BaseException as x:  # noqa
                exc = x
            out['nonstrict'] = {'stderr': sanitize(_take(buf)), 'code': errors.error_code, 'raised': _raised(exc, sanitize)}
        # strict
        with fresh_errors(True) as (errors, buf):
            exc = None
            try:
                run()
            except BaseException as x:  # noqa
                exc = x
            out['strict'] = {'stderr': sanitize(_take(buf)), 'raised': _raised(exc, sanitize)}
            out['_strict_code'] = errors.error_code
            out['__strict'] = _cls_str(exc) if isinstance(exc, PybtexError) else None
        # command line
        with fresh_errors(True) as (errors, buf):
            from pybtex.cmdline import CommandLine

            class Cmd(CommandLine):
                prog = 'c16'
                args = ''
                num_args = 0
                options = ()

                def run(self):
                    run()
            sys.argv = ['c16']
            status = 'no-exit'
            try:
                Cmd()()
            except SystemExit as x:
                status = x.code
            except BaseException as x:  # noqa
                status = _kind(x)
            out['cmdline'] = {'stderr': sanitize(_take(buf)), 'status': status}
        return out
    finally:
        shutil.rmtree(tmp, ignore_errors=True)


# ----------------------------------------------------------------------------------------------
# errcli: the real command lines, in-process
# ----------------------------------------------------------------------------------------------

def _cli_main(prog):
    """A FRESH CommandLine object of the program (the module-level `main` objects are left alone)."""
    if prog == 'pybtex':
        from pybtex.__main__ import PybtexCommandLine as C
    elif prog == 'pybtex-convert':
        from pybtex.database.convert.__main__ import PybtexConvertCommandLine as C
    elif prog == 'pybtex-format':
        from pybtex.database.format.__main__ import PybtexFormatCommandLine as C
    else:
        raise ValueError(prog)
    return C()


def _argv_of(items):
    """structured command line -> (argv, option kinds in order, number of positional arguments)"""
    argv, kinds, nargs = [], [], 0
    for it in items:
        k = it[0]
        if k == 'arg':
            argv.append(it[1])
            nargs += 1
        else:
            argv += it[1:]
            kinds.append(k)
    return argv, kinds, nargs


def _cli_api(main, items, tmp, sanitize):
    """What the computation behind a command line reports, observed at the API level: the program's own `run`
    called under errors.capture() with the options its own parser produces.  (collected, fatal, plug-in error)"""
    from pybtex.exceptions import PybtexError
    argv, kinds, nargs = _argv_of(items)
    if 'rejected' in kinds or 'info' in kinds or nargs != main.num_args:
        return [], None, None
    with fresh_errors(True) as (errors, buf):
        os.chdir(tmp)
        try:
            options, args = main.opt_parser.parse_args(main.recognize_legacy_optons(list(argv)))   # as main() does
        except PybtexError as x:
            return [], None, x
        except SystemExit:
            return [], None, None
        kwargs = main._extract_kwargs(options)
        exc = None
        collected = []
        try:
            with errors.capture() as collected:
                main.run(*args, **kwargs)
        except BaseException as x:  # noqa
            exc = x
        return list(collected), exc, None


def _run_cli(case, want='all'):
    from pybtex.exceptions import PybtexError
    tmp = _mktmp()
    sanitize = lambda s: s.replace(tmp, 'TMPDIR')  # noqa: E731
    try:
        for name, content in case['files']:
            _write(tmp, name, content)
        if want == 'specs':
            runs = []
            perr = None
            for items in case['runs']:
                main = _cli_main(case['prog'])
                argv, kinds, nargs = _argv_of(items)
                collected, exc, pe = _cli_api(main, items, tmp, sanitize)
                if pe is not None:
                    perr = spec_of_exception(pe, sanitize)
                runs.append({'opts': kinds, 'nargs': nargs, 'reports': [spec_of_exception(e, sanitize) for e in collected],
                             'fatal': spec_of_exception(exc, sanitize) if isinstance(exc, PybtexError) else None,
                             '_foreign': _kind(exc) if exc is not None and not isinstance(exc, PybtexError) else None})
            return {'num_args': _cli_main(case['prog']).num_args, 'perr': perr, 'runs': runs}
        out = {'runs': []}
        with fresh_errors(True) as (errors, buf):
            os.chdir(tmp)
            for items in case['runs']:
                main = _cli_main(case['prog'])
                argv, kinds, nargs = _argv_of(items)
                sys.argv = [case['prog']] + list(argv)
                status = 'no-exit'
                try:
                    main()
                except SystemExit as x:
                    status = x.code
                except BaseException as x:  # noqa
                    status = _kind(x)
                out['runs'].append({'stderr': sanitize(_take(buf)), 'status': status})
            out['final'] = [errors.strict, errors.error_code, errors.captured_errors is None]
        return out
    finally:
        shutil.rmtree(tmp, ignore_errors=True)


# ----------------------------------------------------------------------------------------------
# errfree: context managers left in any order
# ----------------------------------------------------------------------------------------------

def _run_free(case):
    with fresh_errors(case['strict0']) as (errors, buf):
        h = _Hist(case, errors, buf)
        opened = []          # most recently entered first
        try:
            for op in case['ops']:
                o = op['o']
                if o == 'strict':
                    errors.set_strict_mode(op['b'])
                    h.note(None)
                elif o == 'enter':
                    cm = errors.capture()
                    try:
                        cm.__enter__()
                    except BaseException as x:  # noqa
                        h.note({'enter_raised': _kind(x)})
                        continue
                    opened.insert(0, cm)
                    h.note(None)
                elif o == 'exitk':
                    if op['k'] >= len(opened):
                        h.note('no-context')
                        continue
                    cm = opened.pop(op['k'])
                    seen = h.idl(errors.captured_errors)
                    obs = {'left': seen}
                    try:
                        if cm.__exit__(None, None, None):
                            obs['swallowed'] = True
                    except BaseException as x:  # noqa -- what the implementation does is an observation, never a harness failure
                        obs['exit_raised'] = _kind(x)
                    h.note(obs)
                else:
                    h.report(op['k'])
            return {'trace': h.trace, 'final': h.state(), 'open': len(opened)}
        finally:
            while opened:
                try:
                    opened.pop(0).__exit__(None, None, None)
                except BaseException:  # noqa
                    pass


# ----------------------------------------------------------------------------------------------
# errclasses
# ----------------------------------------------------------------------------------------------

_CLASSES = None
FOREIGN_EXPECTED = ['BibTeXNameFormatError', 'SkipEntry']


def source_classes():
    """(PybtexError subclasses, other exception classes) defined anywhere in the package."""
    global _CLASSES
    if _CLASSES is None:
        import inspect
        import pybtex
        from pybtex.exceptions import PybtexError
        problems = []
        for m in pkgutil.walk_packages(pybtex.__path__, 'pybtex.'):
            try:
                importlib.import_module(m.name)
            except BaseException as x:  # noqa
                problems.append('%s: %s' % (m.name, type(x).__name__))
        errs, foreign = set(), set()
        for name, mod in list(sys.modules.items()):
            if not (name == 'pybtex' or name.startswith('pybtex.')) or mod is None:
                continue
            for v in list(vars(mod).values()):
                if inspect.isclass(v) and issubclass(v, BaseException) and (v.__module__ or '').startswith('pybtex'):
                    (errs if issubclass(v, PybtexError) else foreign).add(v.__name__)

        def subs(c):
            for s in c.__subclasses__():
                yield s
                for t in subs(s):
                    yield t
        for c in subs(PybtexError):
            if (c.__module__ or '').startswith('pybtex'):
                errs.add(c.__name__)
        errs.add('PybtexError')
        _CLASSES = (sorted(errs), sorted(foreign), problems)
    return _CLASSES


# ----------------------------------------------------------------------------------------------
# impl / request / model_out
# ----------------------------------------------------------------------------------------------

def impl(case):
    op = case['op']
    if op == 'errhist':
        return {'with': _run_with(case), 'manual': _run_manual(case)}
    if op == 'errrender':
        try:
            e, later = build_error(case['e'], case.get('fn_bytes', False), case.get('fnb'))
        except BaseException as x:  # noqa
            return {'construct': _kind(x)}
        rec = render_record(e, case['prefix'])
        later()
        rec['stable'] = render_record(e, case['prefix']) == {k: v for k, v in rec.items()}
        return rec
    if op == 'errclasses':
        errs, foreign, problems = source_classes()
        return {'errors': errs, 'foreign': foreign, 'import_problems': problems}
    if op == 'errmodes':
        return _run_modes(case)
    if op == 'errcli':
        return _run_cli(case)
    if op == 'errfree':
        return _run_free(case)
    if op == 'errfilename':
        return c16_ext.run_filename(case)
    if op == 'errprim':
        return c16_ext.run_prim(case)
    if op == 'erreq':
        return c16_ext.run_eq(case, build_error)
    if op == 'fmtchars':
        from pybtex.bibtex.names import NameFormat
        from pybtex.scanner import PybtexSyntaxError
        try:
            nf = NameFormat('{' + case['value'] + '}')
            part = nf.parts[0]
            nf.format('von Last, Jr, First')
            return {'ok': [part.format_char, part.abbreviate]}
        except PybtexSyntaxError as x:
            return type(x).__name__
        except BaseException as x:  # noqa
            return _kind(x)
    raise ValueError(op)


def _universal(text):
    """what a text-mode file hands to its reader"""
    return text.replace('\r\n', '\n').replace('\r', '\n')


def _file_lines(text):
    """the lines a text-mode file iterates over, without their line ends"""
    t = _universal(text)
    lines = t.split('\n')
    if lines and lines[-1] == '':
        lines.pop()
    return lines


BST_FUEL = 200000


def model_source(case):
    """The input of the case for the reader model that owns it (C10 .bib reader, C15 .bst parser, C20 .aux reader, C03 BST
    interpreter): the driver computes the expected problems from it.  None = no reader model for this kind."""
    kind = case.get('kind')
    if case.get('nomodel'):
        return None
    if kind == 'bib':
        return {'kind': 'bib', 'text': case['text']}
    if kind == 'bibfile':
        return {'kind': 'bib', 'text': _universal(case['text'])}
    if kind in BST_ENTRY:
        return {'kind': 'bst', 'text': case['text'], 'entry': BST_ENTRY[kind]}
    if kind == 'aux':
        return {'kind': 'aux', 'files': [['input.aux', _file_lines(case['text'])]], 'top': 'input.aux'}
    if kind == 'auxfs':
        return {'kind': 'aux', 'files': case['files'], 'top': case['top']}
    if kind == 'bibtex_run':
        return {'kind': 'bstrun', 'bst': case['bst'], 'bibs': case['bibs'], 'citations': case['citations'],
                'min_crossrefs': case.get('min_crossrefs', 2), 'fuel': BST_FUEL}
    return None


_SPEC_CACHE = {}
_PENDING = []          # the cases of the current run (left here by gen_cases): their API-level observations are computed in parallel


def _case_key(case):
    import json
    return json.dumps(case, sort_keys=True, ensure_ascii=False)


def _spec_job(case):
    try:
        if case['op'] == 'errmodes':
            return _run_modes(case, want='specs')
        return _run_cli(case, want='specs')
    except BaseException as x:  # noqa -- recomputed (and reported) in the main process
        return {'__error': '%s: %s' % (type(x).__name__, x)}


def _precompute():
    """The driver request of an errmodes / errcli case needs the implementation's capture run; check.py builds the requests one
    by one in the main process, so the runs of all cases of the stream are done here at once, in worker processes."""
    import multiprocessing
    todo = [c for c in _PENDING if c.get('op') in ('errmodes', 'errcli')]
    del _PENDING[:]
    n = min(int(os.environ.get("VERIF_JOBS", "16")), os.cpu_count() or 1)
    if len(todo) < 200 or n <= 1:
        return
    ctx = multiprocessing.get_context('fork')
    with ctx.Pool(n) as pool:
        res = pool.map(_spec_job, todo, chunksize=max(1, len(todo) // (n * 8)))
    for c, r in zip(todo, res):
        if not (isinstance(r, dict) and '__error' in r):
            _SPEC_CACHE[_case_key(c)] = r


def _specs(case):
    if _PENDING:
        _precompute()
    r = _SPEC_CACHE.get(_case_key(case)) if _SPEC_CACHE else None
    if r is None:
        r = _spec_job(case)
        if isinstance(r, dict) and '__error' in r:
            raise RuntimeError(r['__error'])
    return r


def to_request(case):
    if case['op'] == 'errmodes':
        reports, fatal = _specs(case)
        req = {'op': 'errmodes', 'reports': reports, 'fatal': fatal}
        src = model_source(case)
        if src is not None:
            req['src'] = src
        return req
    if case['op'] == 'errcli':
        api = _specs(case)
        req = {'op': 'errcli', 'num_args': api['num_args'], 'code0': 0, 'strict0': True,
               'runs': [{k: v for k, v in r.items() if not k.startswith('_')} for r in api['runs']],
               'foreign': [r['_foreign'] for r in api['runs']]}
        if api['perr'] is not None:
            req['perr'] = api['perr']
        return req
    if case['op'] == 'errrender':
        req = {'op': 'errrender', 'e': case['e'], 'prefix': case['prefix']}
        # a byte file name reaches the MODEL as bytes (getFilenameB decodes it), no longer decoded by the harness
        if case.get('fnb') is not None:
            req['fnb'] = list(case['fnb'])
        elif case.get('fn_bytes') and case['e'].get('filename') is not None:
            req['fnb'] = list(_fs_encode(case['e']['filename']))
        return req
    return case


def compare_view(io):
    """keys starting with '__' are observations for the oracle only, not part of the correspondence"""
    if isinstance(io, dict):
        return {k: v for k, v in io.items() if not k.startswith('__')}
    return io


def _join(texts):
    if all(isinstance(t, str) for t in texts):
        return ''.join(t + '\n' for t in texts)
    return texts


def model_out(case, reply):
    op = case['op']
    out = reply.get('out')
    if op == 'errhist':
        return {'with': out, 'manual': out}
    if op == 'errrender':
        if isinstance(out, dict) and 'unmodelled' not in out:
            out = dict(out, stable=True)
        return out
    if op == 'errclasses':
        return {'errors': sorted(out), 'foreign': FOREIGN_EXPECTED, 'import_problems': []}
    if op == 'errmodes':
        if 'unmodelled' in out:
            return out
        res = {'capture': out['capture'],
               'nonstrict': dict(out['nonstrict'], stderr=_join(out['nonstrict']['stderr'])),
               'strict': dict(out['strict'], stderr=_join(out['strict']['stderr'])),
               'cmdline': dict(out['cmdline'], stderr=_join(out['cmdline']['stderr'])),
               # non-strict mode prints every report: its warnings are the WARNING renderings of what capture collects
               '_warnings': out['nonstrict']['stderr'], '_stderr_capture': '', '_strict_code': 0}
        return res
    if op == 'errcli':
        if 'unmodelled' in out:
            return out
        return {'runs': [dict(r, stderr=_join(r['stderr'])) for r in out['runs']], 'final': out['final']}
    if op == 'fmtchars':
        return out
    return out


# ----------------------------------------------------------------------------------------------
# oracle
# ----------------------------------------------------------------------------------------------

def _has_fail(x):
    if isinstance(x, dict):
        return 'fail' in x or 'construct' in x or any(_has_fail(v) for v in x.values())
    if isinstance(x, list):
        return any(_has_fail(v) for v in x)
    return isinstance(x, str) and x.startswith('INTERNAL:')


def _oracle_hist(case, res, spec, style):
    fails = []
    ops = case['ops']
    if len(res['trace']) < len(ops):
        return ['foreign_exception: [%s] the context manager itself raised: %r' % (style, [t['obs'] for t in res['trace'] if _has_fail(t['obs'])][:1])]
    reports = [(i, op['k']) for i, op in enumerate(ops) if op['o'] == 'report']
    got = []
    for i, k in reports:
        o = res['trace'][i]['obs']
        if o == 'collected':
            got.append('collected')
        elif isinstance(o, dict) and 'printed' in o:
            got.append({'printed': k})
        elif isinstance(o, dict) and 'raised' in o and 'printed_too' not in o:
            got.append({'raised': o['raised']})
        else:
            got.append(o)
    for n, ((i, k), a, b) in enumerate(zip(reports, got, spec['reports'])):
        if a != b:
            fails.append('report_by_mode: [%s] report #%d (operation %d, error %d): expected %r by nesting depth and strict flag, observed %r' % (
                style, n, i, k, b, a))
            break
    if res['lists'] != spec['lists']:
        fails.append('capture_collects: [%s] lists yielded by the contexts (in order of entering) %r, expected %r (each context '
                     'collects exactly the reports made directly in its body; an enclosing context goes on collecting)' % (
                         style, res['lists'], spec['lists']))
    if spec['balanced']:
        fin = res['final']
        if fin[2] is not None:
            fails.append('capture_restores: [%s] every context has been left but captured_errors is %r, not None' % (style, fin[2]))
        if fin[0] != spec['strict']:
            fails.append('capture_restores: [%s] strict is %r after the history, the last set_strict_mode made it %r' % (style, fin[0], spec['strict']))
        if fin[1] != spec['code']:
            fails.append('error_code: [%s] error_code is %r, expected %r (2 iff a warning was printed)' % (style, fin[1], spec['code']))
    codes = [0] + [t['st'][1] for t in res['trace']]
    if any(b < a for a, b in zip(codes, codes[1:])):
        fails.append('error_code_monotone: [%s] error_code went down: %r' % (style, codes))
    if _has_fail(res):
        fails.append('foreign_exception: [%s] a non-pybtex exception was observed: %r' % (style, [t['obs'] for t in res['trace'] if _has_fail(t['obs'])][:2]))
    return fails


def _shape(rec, prefix):
    ctx, s, fn = rec['context'], rec['str'], rec['filename']
    lines = (ctx.splitlines() if ctx else []) + [prefix + s]
    if fn:
        lines = ['%s: %s' % (fn, l) for l in lines]
    return '\n'.join(lines)


def _oracle_render(rec, prefix, wf, what):
    fails = []
    if 'construct' in rec:
        return ['render_total: %s: the constructor raised %s' % (what, rec['construct'])]
    bad = [k for k in ('str', 'context', 'filename', 'format') if isinstance(rec[k], dict)]
    if bad:
        if wf:
            fails.append('render_total: %s: %s raised %r' % (what, '/'.join(bad), [rec[k]['fail'] for k in bad]))
        return fails
    if rec['format'] != _shape(rec, prefix):
        fails.append('render_shape: %s: format_error is %r but context lines + prefix + message (+ file name) give %r' % (
            what, rec['format'], _shape(rec, prefix)))
    if rec.get('stable') is False:
        fails.append('location_stable: %s: the rendering changed after the parser / .aux context moved on' % what)
    return fails


def oracle(case, impl_out, reply):
    op = case['op']
    spec = reply.get('spec')
    fails = []
    if op == 'errhist':
        for style in ('with', 'manual'):
            fails += _oracle_hist(case, impl_out[style], spec, style)
        return fails
    if op == 'errrender':
        wf = True if spec is None else spec.get('wf', True)
        return _oracle_render(impl_out, case['prefix'], wf, '%s instance' % case['e']['cls'])
    if op == 'errclasses':
        extra = [c for c in impl_out['foreign'] if c not in FOREIGN_EXPECTED]
        if extra:
            fails.append('foreign_exception: exception classes that are not pybtex errors are defined in the package: %r' % extra)
        return fails
    if op == 'fmtchars':
        if isinstance(impl_out, str) and impl_out.startswith('INTERNAL:'):
            fails.append('foreign_exception: name format "{%s}" raised %s instead of a pybtex error' % (case['value'], impl_out))
        return fails
    if op == 'errmodes':
        return _oracle_modes(case, impl_out, spec)
    if op == 'errcli':
        return _oracle_cli(case, impl_out, spec, reply)
    if op == 'errfilename':
        return c16_ext.oracle_filename(case, impl_out, spec)
    if op == 'errprim':
        return fails          # no clause of the property talks about a primitive: correspondence only
    if op == 'errfree':
        # judged inside the quantifier of the property only (contexts left innermost first); what the module does in another order
        # is tied to the model by the correspondence, not judged
        if spec['lifo'] and _has_fail(impl_out):
            fails.append('foreign_exception: a non-pybtex exception was observed: %r' % [t['obs'] for t in impl_out['trace'] if _has_fail(t['obs'])][:2])
        if spec['lifo'] and impl_out['open'] == 0 and impl_out['final'][2] is not None:
            fails.append('capture_restores: every context has been left (innermost first) but captured_errors is %r, not None' % (impl_out['final'][2],))
        return fails
    return fails


ILLFORMED = 'foreign_exception[bst-illformed]'

# recorded finding (known_findings.json): a .bst program BibTeX itself rejects -- ill-typed operands, an entry-dependent function
# outside ITERATE, ITERATE / REVERSE of an undefined name, assignment to a field / built-in / function, int.to.chr$ beyond a C int --
# ends in a Python exception that is not a pybtex error.  The oracle tags a failure with ILLFORMED only when the BST semantics
# (the C03 interpreter model, run by the driver on the same program and database) has no pybtex outcome for the program.
# the errmodes model is a computation = reports + optional PYBTEX error: it cannot end in a non-pybtex exception (no model may produce
# INTERNAL), so on the inputs of this finding model and implementation differ by design
KNOWN_MODEL_DIFFERS = ('C16-bst-illformed-program',)
KNOWN_MATCHERS = {
    'C16-bst-illformed-program': lambda case, impl_out, failure_text: (
        case.get('op') == 'errmodes' and case.get('kind') == 'bibtex_run' and failure_text.startswith(ILLFORMED + ':')),
}


def _oracle_modes(case, impl_out, spec):
    fails = []
    cap, ns, st, cl = impl_out['capture'], impl_out['nonstrict'], impl_out['strict'], impl_out['cmdline']
    wf = True if spec is None else spec.get('wf', True)
    exp = spec.get('expected') if spec else None
    # the BST semantics (C03 model) has no pybtex outcome for this program (ill-typed operands, commands out of order ...):
    # a non-pybtex exception there is the recorded finding, tagged so that nothing else can be taken for it
    tag = ILLFORMED if (exp and exp['end'][0] == 'foreign' and not exp['end'][1].startswith('unmodelled') and
                        case.get('kind') == 'bibtex_run') else 'foreign_exception'
    for n, rec in enumerate(cap['collected']):
        fails += _oracle_render(rec, ERROR, wf, 'problem #%d (%s)' % (n, rec['cls']))
    for name, r in (('capture', cap['raised']), ('non-strict', ns['raised']), ('strict', st['raised']), ('command line', cl['status'])):
        if _has_fail(r):
            what = 'the error that ended it cannot be rendered: %r' % (r,) if isinstance(r, dict) else 'ended with %r' % (r,)
            fails.append('%s: %s mode %s' % (tag if not isinstance(r, dict) else 'render_total', name, what))
    if fails:
        return fails
    warn = impl_out['_warnings']
    n = len(warn)
    if ns['stderr'] != ''.join(w + '\n' for w in warn):
        fails.append('mode_independent: non-strict mode printed %r; capture mode collected %d problems rendering as %r' % (ns['stderr'], n, warn))
    if ns['code'] != (2 if n else 0):
        fails.append('mode_independent: %d problems but error_code is %r in non-strict mode' % (n, ns['code']))
    if ns['raised'] != cap['raised']:
        fails.append('mode_independent: fatal error differs: capture %r, non-strict %r' % (cap['raised'], ns['raised']))
    first = cap['collected'][0]['format'] if n else cap['raised']
    if st['raised'] != first:
        fails.append('mode_independent: strict mode raised %r, the first problem of capture mode is %r' % (st['raised'], first))
    if st['stderr'] or impl_out['_strict_code'] != 0 or impl_out['_stderr_capture']:
        fails.append('mode_independent: strict / capture mode wrote to stderr or changed error_code: %r %r %r' % (
            st['stderr'], impl_out['_strict_code'], impl_out['_stderr_capture']))
    if not cap['restored']:
        fails.append('capture_restores: module state not restored after the capture context was left')
    expected_status = 1 if cap['raised'] is not None else (2 if n else 0)
    if cl['status'] != expected_status:
        fails.append('exit_status: command line exit status %r, expected %r (%d problems, fatal: %r)' % (cl['status'], expected_status, n, cap['raised']))
    if spec is not None and 'status' in spec and (spec['status'] != expected_status or len(spec['collected']) != n):
        fails.append('exit_status: reference status %r for %d problems, implementation shows %r for %d' % (
            spec['status'], len(spec['collected']), expected_status, n))
    expect = _expect_for(case)
    if expect is not None:
        got = [[r['cls'], _lineno_of(r)] for r in cap['collected']]
        if cap['raised'] is not None:
            got.append(['FATAL', None])
        if got != expect:
            fails.append('same_problems: expected problems %r, capture mode collected %r' % (expect, got))
    if exp:
        fails += _oracle_expected(exp, [[r['cls'], r['str']] for r in cap['collected']], impl_out.get('__fatal'), _strict_first(impl_out))
    return fails


_NAMED_FP = None


def _fingerprint(case):
    import hashlib
    import json
    return hashlib.sha1(json.dumps({k: v for k, v in case.items() if k != 'name'}, sort_keys=True, ensure_ascii=False).encode('utf-8')).hexdigest()


def _expect_for(case):
    """The hand-made expectation of a case: looked up by the exact text, or by the name of a constructed case -- then only if the
    case still IS that construction (a shrunk variant keeps the name but is another input)."""
    global _NAMED_FP
    key = (case['kind'], case.get('name', case.get('text')))
    e = EXPECT.get(key)
    if e is None or 'name' not in case:
        return e
    if _NAMED_FP is None:
        import random
        named = [c for c in _engine_cases('quick', random.Random(0), named_only=True) + _format_cases('quick', random.Random(0), named_only=True)
                 if 'name' in c]
        _NAMED_FP = {(c['kind'], c['name']): _fingerprint(c) for c in named}
    return e if _NAMED_FP.get(key) == _fingerprint(case) else None


def _strict_first(impl_out):
    return impl_out.get('__strict')


def _oracle_expected(exp, got, fatal, strict_raised):
    """every_problem_reported: the problems of the input, as the reader semantics of the property that owns the reader computes
    them from the input text (C10 .bib reader / C15 .bst parser / C20 .aux reader / C03 BST interpreter models), are the
    problems reported, in that order."""
    fails = []
    end = exp['end']
    if exp['reports'] is not None and end[0] in ('finished', 'fatal') and got != exp['reports']:
        k = 0
        while k < len(got) and k < len(exp['reports']) and got[k] == exp['reports'][k]:
            k += 1
        fails.append('every_problem_reported: the input has the problems %r (reader semantics), reported were %r (first difference at #%d)' % (
            exp['reports'], got, k))
    if end[0] == 'finished' and fatal is not None:
        fails.append('every_problem_reported: the run was ended by %r, the reader semantics finishes' % (fatal,))
    if end[0] == 'fatal':
        if fatal is None:
            fails.append('every_problem_reported: the reader semantics ends with the error %r, the run finished' % (end[1:],))
        elif fatal[0] != end[1] or (end[2] is not None and fatal[1] != end[2]):
            fails.append('every_problem_reported: the reader semantics ends with the error %r, the run ended with %r' % (end[1:], fatal))
    if 'strict' in exp and strict_raised is not False:
        if exp['strict'] != strict_raised:
            fails.append('mode_independent: the strict reading raises %r by the reader semantics, observed %r' % (exp['strict'], strict_raised))
    return fails


def _oracle_cli(case, impl_out, spec, reply):
    fails = []
    for i, run in enumerate(impl_out['runs']):
        if _has_fail(run['status']) or run['status'] == 'no-exit':
            fails.append('foreign_exception: run #%d of %s %r ended with %r' % (i, case['prog'], _argv_of(case['runs'][i])[0], run['status']))
    if fails or spec is None:
        return fails
    for i, (run, sp) in enumerate(zip(impl_out['runs'], spec['runs'])):
        argv = _argv_of(case['runs'][i])[0]
        what = 'run #%d: %s %s' % (i, case['prog'], ' '.join(argv))
        if not sp['runs_computation']:
            if run['status'] == 0 and not sp['info']:
                fails.append('exit_status: %s: the command line is not accepted but the exit status is 0' % what)
            continue
        if isinstance(sp['first'], dict) or any(isinstance(w, dict) for w in sp['warnings']) or isinstance(sp['fatal'], dict):
            fails.append('render_total: %s: a problem cannot be rendered' % what)
            continue
        if sp['strict']:
            # "In strict mode the first problem raises"
            if sp['problems']:
                if run['stderr'] != sp['first'] + '\n' or run['status'] != 1:
                    fails.append('strict_option: %s: --strict is given and the input has %d problem(s): expected exit status 1 and exactly %r '
                                 'on stderr, observed status %r and %r' % (what, sp['problems'], sp['first'] + '\n', run['status'], run['stderr']))
            elif run['stderr'] or (i == 0 and run['status'] != 0):
                fails.append('strict_option: %s: no problem but stderr %r / status %r' % (what, run['stderr'], run['status']))
        else:
            want = ''.join(w + '\n' for w in sp['warnings']) + (sp['fatal'] + '\n' if sp['fatal'] is not None else '')
            if run['stderr'] != want:
                fails.append('mode_independent: %s: stderr is %r; the problems collected in capture mode render as %r' % (what, run['stderr'], want))
            if sp['fatal'] is not None:
                if run['status'] != 1:
                    fails.append('exit_status: %s: a pybtex error ended the run but the exit status is %r' % (what, run['status']))
            elif sp['warnings']:
                if run['status'] == 0 or (i == 0 and run['status'] != 2):
                    fails.append('exit_status: %s: %d warnings but the exit status is %r' % (what, len(sp['warnings']), run['status']))
            elif i == 0 and run['status'] != 0:
                fails.append('exit_status: %s: nothing was reported but the exit status is %r' % (what, run['status']))
    return fails


def _lineno_of(rec):
    m = re.search(r'in line (\d+)', rec['str']) if isinstance(rec['str'], str) else None
    return int(m.group(1)) if m else None


# ----------------------------------------------------------------------------------------------
# bookkeeping
# ----------------------------------------------------------------------------------------------

def buckets(case, impl_out):
    op = case['op']
    if op == 'errhist':
        d = 0
        mx = 0
        for o in case['ops']:
            d += 1 if o['o'] == 'enter' else -1 if o['o'] in ('exit', 'abort') else 0
            mx = max(mx, d)
        return ['errhist:depth=%d' % mx, 'errhist:abort' if any(o['o'] == 'abort' for o in case['ops']) else 'errhist:no-abort']
    if op == 'errrender':
        return ['errrender:' + case['e']['cls']]
    if op == 'errmodes':
        n = len(impl_out['capture']['collected']) if isinstance(impl_out, dict) and 'capture' in impl_out else -1
        fatal = isinstance(impl_out, dict) and impl_out.get('capture', {}).get('raised') is not None
        return ['errmodes:%s:problems=%s%s' % (case['kind'], min(n, 3), '+fatal' if fatal else '')]
    if op == 'errcli':
        st = [r['status'] for r in impl_out.get('runs', [])] if isinstance(impl_out, dict) else []
        return ['errcli:%s:runs=%d:status=%s' % (case['prog'], len(case['runs']), ','.join(str(x) for x in st))]
    if op == 'erreq':
        return ['erreq:%s' % (impl_out.get('eq') if isinstance(impl_out, dict) else '?')]
    if op == 'errprim':
        return ['errprim:' + case['f'] + (':fail' if isinstance(impl_out, dict) and 'fail' in impl_out else '')]
    if op == 'errfilename':
        fn = case['fn']
        kind = 'none' if fn is None else 'str' if 's' in fn else 'bytes'
        if kind == 'bytes':
            try:
                bytes(fn['b']).decode('utf-8')
                kind += ':well-formed'
            except UnicodeDecodeError:
                kind += ':ill-formed'
        return ['errfilename:' + kind]
    if op == 'errfree':
        return ['errfree:lifo' if all(o['o'] != 'exitk' or o['k'] == 0 for o in case['ops']) else 'errfree:non-lifo']
    return [op]


def nontrivial(case, impl_out):
    op = case['op']
    if op == 'errhist':
        seen_enter = False
        for o in case['ops']:
            if o['o'] == 'enter':
                seen_enter = True
            if o['o'] == 'report' and seen_enter:
                return True
        return False
    if op == 'errrender':
        return isinstance(impl_out, dict) and bool(impl_out.get('context') or impl_out.get('filename'))
    if op == 'errfilename':
        return case['fn'] is not None and bool(case['fn'].get('b') or case['fn'].get('s'))
    if op == 'errmodes':
        return isinstance(impl_out, dict) and 'capture' in impl_out and (
            bool(impl_out['capture']['collected']) or impl_out['capture']['raised'] is not None)
    if op == 'errcli':
        return isinstance(impl_out, dict) and any(r['status'] != 0 for r in impl_out.get('runs', []))
    if op == 'errfree':
        seen_enter = False
        for o in case['ops']:
            seen_enter = seen_enter or o['o'] == 'enter'
            if o['o'] == 'report' and seen_enter:
                return True
        return False
    return True


def _wf_info(i):
    if i['kind'] == 'scanner':
        return i['lineno'] is None or 1 <= i['lineno'] <= len(i['text'].splitlines(True))
    s = i['start'] or 0
    return s < i['pos'] and s < len(i['text'])


def valid_case(case):
    op = case.get('op')
    if op == 'errhist':
        if _depth_profile(case['ops']) != 0:
            return False
        return all(o['o'] != 'report' or 0 <= o['k'] < len(case['errs']) for o in case['ops'])
    if op == 'errrender':
        e = case['e']
        if case.get('fnb') is not None and not (isinstance(case['fnb'], list) and all(isinstance(b, int) and 0 <= b < 256 for b in case['fnb'])):
            return False
        if e['cls'] == 'TokenRequired':
            return _wf_info(e['info'])
        return True
    if op == 'errmodes':
        kind = case.get('kind')
        if kind == 'plugin':
            return '|' in case['text']
        if kind == 'auxfs':
            import props.c20 as c20
            return c20.valid_case({'op': 'aux', 'top': case.get('top'), 'files': case.get('files')})
        if kind in ('bibtex_run', 'python_run'):
            return isinstance(case.get('bibs'), list) and isinstance(case.get('citations'), list)
        if kind in ('convert', 'format', 'make_bibliography'):
            return isinstance(case.get('files'), list) and all(isinstance(f, list) and len(f) == 2 for f in case['files'])
        return isinstance(case.get('text'), str)
    if op == 'errcli':
        return (isinstance(case.get('runs'), list) and bool(case['runs']) and
                all(isinstance(r, list) and all(isinstance(it, list) and it and it[0] in ('arg', 'strict', 'other', 'rejected', 'plugin_error', 'info') and
                                                (it[0] != 'arg' or len(it) == 2) and (it[0] == 'arg' or len(it) >= 2) for it in r)
                    for r in case['runs']) and
                all(isinstance(f, list) and len(f) == 2 for f in case.get('files', [])))
    if op == 'errfree':
        d = 0
        for o in case['ops']:
            if o['o'] == 'enter':
                d += 1
            elif o['o'] == 'exitk':
                if o['k'] >= d:
                    return False
                d -= 1
            elif o['o'] == 'report' and not 0 <= o['k'] < len(case['errs']):
                return False
        return True
    if op == 'fmtchars':
        return bool(case['value']) and case['value'].isascii() and case['value'].isalpha()
    if op in ('errfilename', 'errprim', 'erreq'):
        return c16_ext.valid_case(case)
    return True


def corpus():
    return corpus_for(ID)


# ----------------------------------------------------------------------------------------------
# generators
# ----------------------------------------------------------------------------------------------

TR_INFO = {'kind': 'lowLevel', 'text': '@article{k,\n  title x\n}\n', 'start': 0, 'lineno': 2, 'pos': 20}


def _err_for(k):
    if k % 3 == 0:
        return {'cls': 'PybtexError', 'msg': 'problem %d' % k, 'filename': None}
    if k % 3 == 1:
        return {'cls': 'BibliographyDataError', 'msg': 'problem %d' % k, 'filename': 'file %d.bib' % k}
    return {'cls': 'TokenRequired', 'description': "token %d" % k, 'filename': 'in.bib', 'info': TR_INFO}


def _hist_case(strict0, names):
    """names: sequence over enter/exit/abort/report/T/F (prefix-balanced); closes the open contexts."""
    ops = []
    k = 0
    d = 0
    for n in names:
        if n == 'report':
            ops.append({'o': 'report', 'k': k})
            k += 1
        elif n in ('T', 'F'):
            ops.append({'o': 'strict', 'b': n == 'T'})
        else:
            ops.append({'o': n})
            d += 1 if n == 'enter' else -1
    ops += [{'o': 'exit'}] * d
    return {'op': 'errhist', 'strict0': strict0, 'errs': [_err_for(i) for i in range(k)], 'ops': ops}


ALPHABET = ['enter', 'exit', 'abort', 'report', 'T', 'F']


def _all_histories(maxlen):
    out = []

    def rec(prefix, d):
        out.append(list(prefix))
        if len(prefix) == maxlen:
            return
        for a in ALPHABET:
            if a in ('exit', 'abort'):
                if d == 0:
                    continue
                rec(prefix + [a], d - 1)
            elif a == 'enter':
                rec(prefix + [a], d + 1)
            else:
                rec(prefix + [a], d)
    rec([], 0)
    return out


def _random_history(rng):
    n = rng.randint(6, 40)
    names, d = [], 0
    for _ in range(n):
        a = rng.choice(['enter', 'enter', 'exit', 'abort', 'report', 'report', 'report', 'T', 'F'])
        if a in ('exit', 'abort') and d == 0:
            a = 'report'
        if a == 'enter' and d >= 6:
            a = 'exit'
        d += 1 if a == 'enter' else -1 if a in ('exit', 'abort') else 0
        names.append(a)
    return _hist_case(rng.random() < 0.5, names)


MSGS = ['', 'm', 'two words', 'line1\nline2', 'caf\u00e9 \u2013 \u20ac', "q'uote\"s", 'tab\there', 'ends with newline\n', 'a\r\nb\x0cc\u2028d']
FILES = [None, '', 'a.bib', 'dir/\u00e4 b.aux', 'x: y']
LINENOS = [None, 0, 1, 7, 12345]
PREFIXES = [ERROR, WARNING, '']


def _render(e, prefix=ERROR, fn_bytes=False):
    c = {'op': 'errrender', 'prefix': prefix, 'e': e}
    if fn_bytes:
        c['fn_bytes'] = True
    return c


def _texts(alphabet, maxlen):
    for n in range(1, maxlen + 1):
        for t in itertools.product(alphabet, repeat=n):
            yield ''.join(t)


def _token_required_cases(alphabet, maxlen):
    cases = []
    for text in _texts(alphabet, maxlen):
        nlines = len(text.splitlines(True))
        for lineno in [None] + list(range(1, nlines + 1)):
            for pos in range(0, len(text) + 2):
                cases.append(_render({'cls': 'TokenRequired', 'description': "'='", 'filename': None,
                                      'info': {'kind': 'scanner', 'text': text, 'start': None, 'lineno': lineno, 'pos': pos}}))
        for start in [None] + list(range(0, len(text))):
            for pos in range((start or 0) + 1, len(text) + 2):
                cases.append(_render({'cls': 'TokenRequired', 'description': 'a valid name', 'filename': 'f.bib',
                                      'info': {'kind': 'lowLevel', 'text': text, 'start': start, 'lineno': 1 + (pos % 3), 'pos': pos}}))
    return cases


WS_CODES = [9, 10, 11, 12, 13, 28, 29, 30, 31, 32, 133, 160, 5760, 8192, 8193, 8194, 8195, 8196, 8197, 8198, 8199, 8200, 8201, 8202,
            8232, 8233, 8239, 8287, 12288]


def _grid_cases():
    cases = [{'op': 'errclasses'}]
    for cls in ('PybtexError', 'BibliographyDataError', 'BibTeXError', 'ConvertError'):
        for m in MSGS:
            for f in FILES:
                for p in PREFIXES:
                    cases.append(_render({'cls': cls, 'msg': m, 'filename': f}, p))
                if f:
                    cases.append(_render({'cls': cls, 'msg': m, 'filename': f}, ERROR, fn_bytes=True))
    keys = ['k', 'Key 1', '', 'a\nb', 'caf\u00e9']
    for k in keys:
        for f in ['title', 'AUTHOR', '', 'x y']:
            cases.append(_render({'cls': 'DuplicateField', 'key': k, 'field': f}))
    for c in list(range(256)) + WS_CODES + [0x2013, 0x20ac, 0x1f600, 0xe9]:
        cases.append(_render({'cls': 'InvalidNameString', 'name': 'a,b,' + chr(c) + ',d'}))
    for n in ['', 'a, b, c, d', "it's", 'say "x"', "it's \"x\"", 'back\\slash', 'Doe, Jr, J, X']:
        for p in PREFIXES:
            cases.append(_render({'cls': 'InvalidNameString', 'name': n}, p))
    for g in ['pybtex.backends', 'pybtex.backends.suffixes', 'x.suffixes', '', 'no such group', '.suffixes']:
        cases.append(_render({'cls': 'PluginGroupNotFound', 'group': g}))
        for n in ['foo', '.foo', '', '.', 'a.b', '..suffixes']:
            cases.append(_render({'cls': 'PluginNotFound', 'group': g, 'name': n}))
    for f in ['title', '', 'a b']:
        for ek in [{'kind': 'missing'}, {'kind': 'none'}, {'kind': 'key', 'key': 'knuth84'}, {'kind': 'key', 'key': ''},
                   {'kind': 'key', 'key': 'a\nb'}]:
            cases.append(_render({'cls': 'FieldIsMissing', 'field': f, 'entry': ek}))
    for cls in ('PybtexSyntaxError', 'UndefinedMacro', 'PrematureEOF', 'UnbalancedBraceError'):
        for a in (MSGS if cls != 'PrematureEOF' else [None]):
            for f in FILES:
                for ln in LINENOS:
                    e = {'cls': cls, 'filename': f, 'lineno': ln}
                    if a is not None:
                        e['arg'] = a
                    cases.append(_render(e, ERROR))
                    if f and ln == 7:
                        cases.append(_render(e, WARNING, fn_bytes=True))
    for m in MSGS:
        for p in PREFIXES:
            cases.append(_render({'cls': 'AuxDataError', 'msg': m, 'noctx': True}, p))
    for m in MSGS:
        for f in FILES:
            for ln in LINENOS:
                for line in [None, '', '\\bibstyle{x}', '\u00fcn\u00ef \\citation{a}', 'a\x0cb']:
                    cases.append(_render({'cls': 'AuxDataError', 'msg': m, 'filename': f, 'lineno': ln, 'line': line}))
    return cases


def _rand_str(rng, alphabet, lo, hi):
    return ''.join(rng.choice(alphabet) for _ in range(rng.randint(lo, hi)))


RAND_ALPHA = 'ab {}@,="\\\'\n\r\t\x0c\u00e9\u2013:.'


def _random_render(rng):
    cls = rng.choice(['PybtexError', 'BibliographyDataError', 'BibTeXError', 'ConvertError', 'DuplicateField', 'InvalidNameString',
                      'PluginGroupNotFound', 'PluginNotFound', 'FieldIsMissing', 'PybtexSyntaxError', 'UndefinedMacro',
                      'PrematureEOF', 'UnbalancedBraceError', 'TokenRequired', 'TokenRequired', 'TokenRequired', 'AuxDataError'])
    s = lambda lo=0, hi=12: _rand_str(rng, RAND_ALPHA, lo, hi)  # noqa: E731
    fn = rng.choice([None, '', s(1, 8), 'refs.bib'])
    ln = rng.choice([None, 0, rng.randint(1, 500)])
    prefix = rng.choice(PREFIXES)
    if cls in ('PybtexError', 'BibliographyDataError', 'BibTeXError', 'ConvertError'):
        e = {'cls': cls, 'msg': s(), 'filename': fn}
    elif cls == 'DuplicateField':
        e = {'cls': cls, 'key': s(), 'field': s(0, 6)}
    elif cls == 'InvalidNameString':
        e = {'cls': cls, 'name': s(0, 16)}
    elif cls == 'PluginGroupNotFound':
        e = {'cls': cls, 'group': s()}
    elif cls == 'PluginNotFound':
        e = {'cls': cls, 'group': rng.choice([s(), s() + '.suffixes']), 'name': rng.choice([s(), '.' + s()])}
    elif cls == 'FieldIsMissing':
        e = {'cls': cls, 'field': s(0, 6), 'entry': rng.choice([{'kind': 'missing'}, {'kind': 'none'}, {'kind': 'key', 'key': s()}])}
    elif cls in ('PybtexSyntaxError', 'UndefinedMacro', 'UnbalancedBraceError'):
        e = {'cls': cls, 'arg': s(), 'filename': fn, 'lineno': ln}
    elif cls == 'PrematureEOF':
        e = {'cls': cls, 'filename': fn, 'lineno': ln}
    elif cls == 'AuxDataError':
        e = {'cls': cls, 'msg': s(), 'filename': fn, 'lineno': ln, 'line': rng.choice([None, '', s(1, 20)])}
    else:
        text = s(1, 40)
        if rng.random() < 0.5:
            nl = len(text.splitlines(True))
            info = {'kind': 'scanner', 'text': text, 'start': None, 'lineno': rng.choice([None] + list(range(1, nl + 1))),
                    'pos': rng.randint(0, len(text) + 1)}
        else:
            start = rng.choice([None, rng.randint(0, len(text) - 1)])
            info = {'kind': 'lowLevel', 'text': text, 'start': start, 'lineno': rng.choice([None, rng.randint(1, 9)]),
                    'pos': rng.randint((start or 0) + 1, len(text) + 1)}
        e = {'cls': cls, 'description': s(0, 8), 'filename': fn, 'info': info}
    c = _render(e, prefix)
    if fn and rng.random() < 0.2 and 'filename' in e:
        c['fn_bytes'] = True
    return c


GOOD_BIB = '''@string{jan = "January"}
@article{knuth84,
  author = "Knuth, Donald E. and Doe, John",
  title = {Literate {P}rogramming},
  journal = cj # " extra",
  year = 1984,
  month = jan,
}
@book(lamport94,
  author = {Leslie Lamport},
  title = "LaTeX",
  year = {1994}
)
@comment{ignored}
@preamble{"\\newcommand{\\x}{y}"}
'''.replace('cj # ', '')

MODE_CASES = [
    # (kind, text, expected [(class, line)] + optional FATAL)
    # braces nested deeper than LowLevelParser.parse_string allows (max_level=100): a located syntax error, then recovery
    ('bib', '@misc{k, title = ' + '{' * 102 + 'x' + '}' * 102 + '}\n@misc{ok, title = {fine}}\n', [['PybtexSyntaxError', 1]]),
    ('bib', '@misc{a, note = {n}}\n@misc{k,\n title = ' + '{' * 102 + '}' * 102 + '}', [['PybtexSyntaxError', 3]]),
    ('bib', '@article{k, title = foo}', [['UndefinedMacro', 1]]),
    ('bib', '@article{k,\n title = {a},\n TITLE = {b},\n year = 1}', [['DuplicateField', None]]),
    ('bib', '@article{k, title={a}}\n@book{k, title={b}}\n@misc{K, title={c}}', [['BibliographyDataError', None], ['BibliographyDataError', None]]),
    ('bib', '@article{k, author = {a, b, c, d and e, f, g, h}}', [['InvalidNameString', None], ['InvalidNameString', None]]),
    ('bib', '@article{k, title = {unbalanced}\n\n@book{ok, title = {fine}}', [['TokenRequired', 3]]),
    ('bib', '@article{k,\n  title x\n}\n', [['TokenRequired', 2]]),
    ('bib', '@article{k, title = "never closed', [['PrematureEOF', 1]]),
    ('bib', '@article{k, title = {a}}}\n@article', [['PrematureEOF', 2]]),
    ('bib', '@article{k, title = abc, year = def}\n@string{x = y}\n@misc{m, note = x # z}', [['UndefinedMacro', 1], ['UndefinedMacro', 1], ['UndefinedMacro', 2], ['UndefinedMacro', 3]]),
    ('bib', '@article{a, title = t1}\r\n@article{a, title = t2,\r\n title = t3}\r\n@ {', [['UndefinedMacro', 1], ['UndefinedMacro', 2], ['UndefinedMacro', 3], ['DuplicateField', None], ['BibliographyDataError', None], ['TokenRequired', 4]]),
    ('bib', GOOD_BIB, []),
    ('bib', '', []),
    ('bibfile', '@article{k, title = foo}\n@book{k,\n x = 1,\n x = 2}\n', [['UndefinedMacro', 1], ['DuplicateField', None], ['BibliographyDataError', None]]),
    ('aux', '\\relax\n\\citation{a}\n\\citation{A}\n\\bibstyle{plain}\n\\bibstyle{alpha}\n\\bibdata{refs}\n\\bibdata{more}\n',
     [['AuxDataError', 3], ['AuxDataError', 5], ['AuxDataError', 7]]),
    ('aux', '\\relax\n\\bibstyle{plain}\n\\bibstyle{alpha}\n', [['AuxDataError', 3], ['FATAL', None]]),
    ('aux', '\\bibstyle{plain}\n\\bibdata{refs}\n\\citation{x,y}\n', []),
    ('aux', '', [['FATAL', None]]),
    ('bst', 'ENTRY { title } { } { label }\nFUNCTION {x} { #1 }\n', []),
    ('bst', 'ENTRY { title }\nBOGUS {x}\n', [['FATAL', None]]),
    ('bst', 'FUNCTION {x} { "abc }\n', [['FATAL', None]]),
    ('bst', 'FUNCTION {x', [['FATAL', None]]),
    ('name', 'Doe, Jr, John, Extra', [['InvalidNameString', None]]),
    ('name', 'von Beethoven, Ludwig', []),
    ('namefmt', '{ff~}{vv~}{ll}{, jj}', []),
    ('namefmt', '{ff~}{', [['FATAL', None]]),
    ('namefmt', '{fx}', [['FATAL', None]]),
    ('namefmt', '}', [['FATAL', None]]),
    ('plugin', 'pybtex.backends|no-such-backend', [['FATAL', None]]),
    ('plugin', 'pybtex.backends|.foo', [['FATAL', None]]),
    ('plugin', 'pybtex.nonsense|x', [['FATAL', None]]),
    ('plugin', 'pybtex.backends|latex', []),
]

EXPECT = {(k, t): e for k, t, e in MODE_CASES}   # known answers for the hand-made inputs (looked up by the exact text / the name)

BIB_BASES = [GOOD_BIB,
             '@article{a, author = {A, B and C, D}, title = {T}, year = 2000}\n@book{b, title = "x" # jan, crossref = {a}}\n',
             '@misc{m1, note = {n}}\n@misc{m2, note = {o}}\n@misc{m1, note = {p}}\n']
AUX_BASES = ['\\relax\n\\citation{a}\n\\citation{b,c}\n\\bibstyle{plain}\n\\bibdata{refs,more}\n',
             '\\citation{Key}\n\\citation{key}\n\\bibstyle{a}\n\\bibdata{r}\n\\bibstyle{b}\n']
BST_BASES = ['ENTRY { title author } { } { label }\nINTEGERS { n }\nFUNCTION {f} { #1 \'n := "s" write$ }\nREAD\nITERATE {f}\n']
CORRUPT = '{}"@#=,()\\ \n%'


def _corrupt(rng, text, n):
    t = list(text)
    for _ in range(n):
        r = rng.random()
        i = rng.randrange(len(t) + 1)
        if r < 0.4 and t:
            del t[min(i, len(t) - 1)]
        elif r < 0.8:
            t.insert(i, rng.choice(CORRUPT))
        elif t:
            j = rng.randrange(len(t))
            t[min(i, len(t) - 1)], t[j] = t[j], t[min(i, len(t) - 1)]
    return ''.join(t)


def _random_modes(rng):
    r = rng.random()
    if r < 0.55:
        return {'op': 'errmodes', 'kind': rng.choice(['bib', 'bib', 'bib', 'bibfile']), 'text': _corrupt(rng, rng.choice(BIB_BASES), rng.randint(1, 6))}
    if r < 0.75:
        lines = rng.choice(AUX_BASES).split('\n')
        for _ in range(rng.randint(0, 3)):
            lines.insert(rng.randrange(len(lines)), rng.choice(['\\bibstyle{x}', '\\bibdata{y}', '\\citation{A}', '\\citation{a}', '\\relax', '']))
        if rng.random() < 0.3 and lines:
            del lines[rng.randrange(len(lines))]
        return {'op': 'errmodes', 'kind': 'aux', 'text': '\n'.join(lines)}
    if r < 0.88:
        return {'op': 'errmodes', 'kind': 'bst', 'text': _corrupt(rng, rng.choice(BST_BASES), rng.randint(1, 4))}
    if r < 0.94:
        return {'op': 'errmodes', 'kind': 'name', 'text': _rand_str(rng, 'ab, {}~-', 0, 12)}
    return {'op': 'errmodes', 'kind': 'namefmt', 'text': _rand_str(rng, 'fFvljx{}~ ,.', 0, 8)}


# ----------------------------------------------------------------------------------------------
# inputs of the corruption generators of C10 / C15 / C20 (the quantifier of the property)
# ----------------------------------------------------------------------------------------------

def _sample(rng, xs, n):
    if len(xs) <= n:
        return list(xs)
    return rng.sample(xs, n)


def _reader_cases(tier, rng):
    """error-producing inputs from the generators of the properties that own the readers; the expected problems of each are
    computed by the driver from the reader MODELS of those properties (request key `src`)."""
    import random
    import props.c10 as c10
    import props.c15 as c15
    import props.c20 as c20
    quick = tier == 'quick'
    sub = random.Random(rng.getrandbits(64))
    cases = []
    counts = {}
    # C10: single-token corruptions of one entry inside a document + strings over the token alphabet + random
    cs = c10.gen_cases('quick' if quick else 'thorough', sub, {})
    corr = [c for c in cs if 'pre' in c]
    rest = [c for c in cs if 'pre' not in c and len(c10.text_of(c)) < 400]
    picked = corr + _sample(sub, rest, 700 if quick else 15000)
    for i, c in enumerate(picked):
        cases.append({'op': 'errmodes', 'kind': 'bibfile' if i % 8 == 7 else 'bib', 'text': c10.text_of(c), 'gen': 'C10'})
        if i % 32 == 15:
            cases[-1] = dict(cases[-1], kind='bibfile', pathlike=True)      # the file named by a pathlib.Path
    counts['C10'] = len(picked)
    # C15: every lexeme-level corruption and text truncation of the base programs, raw token soup
    cs = c15.gen_corruptions('quick' if quick else 'thorough', {})
    cs = _sample(sub, cs, 900 if quick else 8000)
    kinds = ['bst', 'bst_stream', 'bst_file']
    for i, c in enumerate(cs):
        cases.append({'op': 'errmodes', 'kind': kinds[i % 3], 'text': c15.case_text(c), 'gen': 'C15'})
    for i in range(150 if quick else 2000):
        cases.append({'op': 'errmodes', 'kind': kinds[i % 3], 'text': c15.rand_raw(sub), 'gen': 'C15'})
    counts['C15'] = len(cs) + (150 if quick else 2000)
    # C20: documents over the 13-line alphabet with nested \@input, random (mostly valid / malformed) file sets
    ex = [c for c in c20.exhaustive('quick')[0] if c['op'] == 'aux']
    ex = _sample(sub, ex, 250 if quick else 3000)
    rnd = [c20._random_case(sub, malformed=(i % 2 == 0)) for i in range(350 if quick else 4000)]
    # encodings and the engine entry point are C20's own business: plain parse_file cases only (sub-directories are fine)
    plain = [c for c in ex + rnd if not (c.get('mode') or c.get('enc') or c.get('fenc'))]
    for c in plain:
        d = {'op': 'errmodes', 'kind': 'auxfs', 'files': [[n, list(ls)] for n, ls in c['files']], 'top': c['top'], 'gen': 'C20'}
        if not c.get('nl', True):
            d['nl'] = False
        cases.append(d)
    counts['C20'] = len(plain)
    return cases, counts


# ----------------------------------------------------------------------------------------------
# engine runs: a small database x faults, through the BibTeX engine and the Python engine
# ----------------------------------------------------------------------------------------------

ENTRIES = {
    'article': '@article{a1, author={Alpha, Ann and Beta, Bob}, title={Title One}, journal={J}, year=2000}',
    'misc': '@misc{m1, title={Title Two}, author={Gamma, Gil}, note={n}, year=1999}',
    'unknown_type': '@foo{u1, title={Unknown}, author={Delta, Dee}, year=2001}',
    'missing_field': '@article{a2, title={No Author}}',
    'dangling': '@misc{c1, title={Child}, crossref={nope}}',
    'commas': '@misc{n1, title={Names}, author={a, b, c, d}}',
    'syntax': '@misc{s1, title = }',
    'dup_field': '@misc{d1, title={x}, TITLE={y}}',
    'repeat': '@misc{m1, title={again}}',
    'undefined_macro': '@misc{um1, title = nomacro}',
    'crossref_ok': ('@inproceedings{cp1, author={Eps, E}, title={Paper}, booktitle={Proc}, year=2002, crossref={proc1}}\n'
                    '@proceedings{proc1, title={Proc}, year=2002, editor={Zeta, Z}}'),
}
ENTRY_KEYS = {'article': ['a1'], 'misc': ['m1'], 'unknown_type': ['u1'], 'missing_field': ['a2'], 'dangling': ['c1'], 'commas': ['n1'],
              'syntax': ['s1'], 'dup_field': ['d1'], 'repeat': [], 'undefined_macro': ['um1'], 'crossref_ok': ['cp1', 'proc1']}
FAULTS = ['unknown_type', 'missing_field', 'dangling', 'commas', 'syntax', 'dup_field', 'repeat', 'undefined_macro']
# what a fault entry (first line of the database) makes the Python engine report: [class, line] then FATAL when the run is ended
PY_EXPECT = {
    None: [],
    'unknown_type': [['FATAL', None]],                      # after proposed_fixes/C16-3 (a pybtex error names the entry)
    'missing_field': [['FATAL', None]],                     # FieldIsMissing raised by the template
    'dangling': [['BibliographyDataError', None]],
    'commas': [['InvalidNameString', None]],
    'syntax': [['TokenRequired', 1]],
    'dup_field': [['DuplicateField', None]],
    'repeat': [['BibliographyDataError', None]],
    'undefined_macro': [['UndefinedMacro', 1]],
}
PY_STYLES = ['unsrt', 'plain', 'alpha', 'unsrtalpha']

BST_BASE = """ENTRY { title author year } { } { label }
INTEGERS { n }
STRINGS { s }
FUNCTION {output.it} { write$ newline$ }
FUNCTION {misc} { title output.it %(body)s }
FUNCTION {article} { author output.it }
FUNCTION {default.type} { misc }
%(pre)s
READ
%(mid)s
ITERATE {call.type$}
%(post)s
"""
# run-time faults of a .bst program: (name, slot, text).  First group: programs the BST semantics gives a pybtex outcome
BST_FAULTS = [
    ('clean', 'body', ''),
    ('pop-empty', 'body', 'pop$ pop$'),
    ('undefined-function', 'body', 'nofn'),
    ('undefined-variable', 'body', "'novar"),
    ('warning', 'body', '"w1" warning$'),
    ('two-warnings-then-fatal', 'body', '"w1" warning$ "w2" warning$ nofn'),
    ('empty-mode', 'body', '"abc" "" change.case$ pop$'),
    ('bad-mode', 'body', '"abc" "q" change.case$ pop$'),
    ('chr-to-int-2', 'body', '"ab" chr.to.int$ pop$'),
    ('chr-to-int-0', 'body', '"" chr.to.int$ pop$'),
    ('int-to-chr-neg', 'body', '#-1 int.to.chr$ pop$'),
    ('int-to-chr-big', 'body', '#1114112 int.to.chr$ pop$'),
    ('no-name-5', 'body', 'author #5 "{ff}" format.name$ pop$'),
    ('no-name-0', 'body', 'author #0 "{ff}" format.name$ pop$'),
    ('too-many-commas', 'body', '"a, b, c, d" #1 "{ff}" format.name$ pop$'),
    ('format-unbalanced', 'body', '"x" #1 "{ff" format.name$ pop$'),
    ('format-unbalanced-2', 'body', '"x" #1 "ff}" format.name$ pop$'),
    ('format-bad-letters', 'body', '"x" #1 "{fx}" format.name$ pop$'),
    ('entry-twice', 'pre', 'ENTRY {x}{}{}'),
    ('function-twice', 'pre', 'FUNCTION {misc} { skip$ }'),
    ('execute-undefined', 'mid', 'EXECUTE {nofn}'),
    ('sort', 'mid', 'SORT'),
    ('macro', 'pre', 'MACRO {jan} {"January"}'),
    ('iterate-builtin', 'mid', 'ITERATE {skip$}'),
    ('stack-leftover', 'body', '"left"'),
    ('missing', 'body', 'year missing$ pop$ crossref missing$ pop$'),
    ('substring', 'body', '"abc" #1 #-5 substring$ pop$'),
    ('top', 'body', '"x" top$'),
    ('text-prefix', 'body', '"abc" #-1 text.prefix$ pop$'),
    ('unknown-command', 'post', 'BOGUS {x}'),
    ('too-few-groups', 'post', 'FUNCTION {g}'),
    ('unterminated', 'post', 'FUNCTION {g} { "abc }'),
    # second group: programs BibTeX itself rejects (ill-typed operands, commands out of order): no pybtex outcome in the semantics
    ('int-to-chr-huge', 'body', '#99999999999999999999 int.to.chr$ pop$'),
    ('iterate-undefined', 'mid', 'ITERATE {nofn}'),
    ('reverse-undefined', 'mid', 'REVERSE {nofn}'),
    ('execute-entry-function', 'mid', 'EXECUTE {misc}'),
    ('execute-cite', 'mid', 'EXECUTE {cite$}'),
    ('assign-field', 'body', "\"x\" 'title :="),
    ('assign-builtin', 'body', "\"x\" 'skip$ :="),
    ('str-plus-int', 'body', '"a" #1 + pop$'),
    ('int-concat-str', 'body', '#1 "a" * pop$'),
    ('int-add-period', 'body', '#1 add.period$ pop$'),
    ('assign-wrong-type', 'body', "\"a\" 'n :="),
    ('if-str', 'body', '"a" { skip$ } { skip$ } if$'),
    ('if-nonfunction', 'body', '#1 #2 #3 if$'),
    ('while-nonfunction', 'body', '#1 #2 while$'),
    ('compare-mixed', 'body', '"a" #1 > pop$'),
    ('assign-literal', 'body', '#1 #2 :='),
    ('empty-int', 'body', '#1 empty$ pop$'),
    ('format-name-int', 'body', '#1 #1 "{ff}" format.name$ pop$'),
    ('format-name-n-str', 'body', '"a" "b" "{ff}" format.name$ pop$'),
    ('substring-str', 'body', '"abc" "a" #1 substring$ pop$'),
    ('change-case-int', 'body', '#1 "l" change.case$ pop$'),
    ('num-names-int', 'body', '#1 num.names$ pop$'),
    ('purify-int', 'body', '#1 purify$ pop$'),
    ('width-int', 'body', '#1 width$ pop$'),
    ('int-to-chr-str', 'body', '"a" int.to.chr$ pop$'),
]


def _bst_program(faults):
    slots = {'body': [], 'pre': [], 'mid': [], 'post': []}
    for name, slot, text in faults:
        slots[slot].append(text)
    return BST_BASE % {k: ('\n' if k != 'body' else ' ').join(v) for k, v in slots.items()}


def _db(names):
    return '\n'.join(ENTRIES[n] for n in names) + '\n'


def _keys(names):
    out = []
    for n in names:
        out += ENTRY_KEYS[n]
    return out


def _engine_cases(tier, rng, named_only=False):
    quick = tier == 'quick'
    cases = []
    # --- BibTeX engine: every fault alone on two databases, pairs of faults, the real styles on the fault entries
    dbs = [['article', 'misc'], ['unknown_type', 'commas', 'misc']]
    for f in BST_FAULTS:
        for k, names in enumerate(dbs):
            cases.append({'op': 'errmodes', 'kind': 'bibtex_run', 'name': 'fault:%s:db%d' % (f[0], k), 'bst': _bst_program([f]),
                          'bibs': [_db(names)], 'citations': ['*'] if k == 0 else _keys(names) + ['zz']})
    for _ in range(0 if named_only else 120 if quick else 1500):
        fs = rng.sample(BST_FAULTS, rng.choice([2, 2, 3]))
        names = rng.sample(sorted(ENTRIES), rng.randint(1, 4))
        cites = ['*'] if rng.random() < 0.5 else _keys(names) + (['zz'] if rng.random() < 0.5 else [])
        bibs = [_db(names)] if rng.random() < 0.7 else [_db(names[:1]), _db(names[1:])]
        cases.append({'op': 'errmodes', 'kind': 'bibtex_run', 'bst': _bst_program(fs), 'bibs': bibs, 'citations': cites,
                      'min_crossrefs': rng.choice([1, 2, 2])})
    for style in (['plain', 'alpha'] if quick else ['plain', 'alpha', 'unsrt', 'apacite']):
        path = os.path.join(compat.REPO, 'tests', 'data', style + '.bst')
        if not os.path.exists(path):
            continue
        text = open(path, encoding='utf-8', newline='').read()
        for fault in [None] + FAULTS:
            names = ([fault] if fault else []) + ['article', 'misc']
            for cites in (['*'], _keys(names) + ['zz']):
                cases.append({'op': 'errmodes', 'kind': 'bibtex_run', 'name': 'style:%s:%s:%s' % (style, fault, cites[0]), 'bst': text,
                              'bibs': [_db(names)], 'citations': cites})
    # --- Python engine: every style x every fault entry (first line of the database) x citation list
    for style in PY_STYLES:
        for fault in [None] + FAULTS:
            names = ([fault] if fault else []) + ['article', 'misc', 'crossref_ok']
            for cites in (['*'], _keys(names) + ['zz']):
                cases.append({'op': 'errmodes', 'kind': 'python_run', 'name': 'py:%s:%s:%s' % (style, fault, cites[-1]), 'style': style,
                              'bibs': [_db(names)], 'citations': cites})
    for _ in range(0 if named_only else 100 if quick else 1200):
        names = rng.sample(sorted(ENTRIES), rng.randint(1, 5))
        cites = ['*'] if rng.random() < 0.5 else _keys(names) + (['zz'] if rng.random() < 0.5 else [])
        c = {'op': 'errmodes', 'kind': 'python_run', 'style': rng.choice(PY_STYLES + ['nostyle'] if rng.random() < 0.1 else PY_STYLES),
             'bibs': [_db(names)], 'citations': cites, 'min_crossrefs': rng.choice([1, 2, 2])}
        if rng.random() < 0.3:
            c['backend'] = rng.choice(['html', 'text', 'markdown', 'latex', 'nobackend'])
        cases.append(c)
    return cases


def _py_expect():
    exp = {}
    for style in PY_STYLES:
        for fault in [None] + FAULTS:
            for last in ('*', 'zz'):
                e = [x for x in PY_EXPECT[fault] if x[0] != 'FATAL']
                if last == 'zz':
                    e.append(['BibliographyDataError', None])       # missing database entry for "zz"
                e += [x for x in PY_EXPECT[fault] if x[0] == 'FATAL']
                exp[('python_run', 'py:%s:%s:%s' % (style, fault, last))] = e
    return exp


# ----------------------------------------------------------------------------------------------
# other database formats, convert / format / make_bibliography entry points
# ----------------------------------------------------------------------------------------------

YAML_GOOD = ('entries:\n  k1:\n    type: article\n    title: T one\n    author:\n      - first: Ann\n        last: Alpha\n'
             '      - {first: Bob, last: Beta}\n    year: 2000\n  k2:\n    type: misc\n    note: "n: o"\npreamble: |\n  pre\n')
XML_GOOD = """<bibtex:file xmlns:bibtex="http://bibtexml.sf.net/">

    <bibtex:entry id="k1">
        <bibtex:article>
            <bibtex:title>T one</bibtex:title>
            <bibtex:year>2000</bibtex:year>
            <bibtex:author>
                <bibtex:person>
                    <bibtex:first>Ann</bibtex:first>
                    <bibtex:last>Alpha</bibtex:last>
                </bibtex:person>
                <bibtex:person>Beta, Bob</bibtex:person>
            </bibtex:author>
        </bibtex:article>
    </bibtex:entry>

    <bibtex:entry id="k2">
        <bibtex:misc>
            <bibtex:note>n</bibtex:note>
        </bibtex:misc>
    </bibtex:entry>

</bibtex:file>
"""
NS = 'xmlns:bibtex="http://bibtexml.sf.net/"'
READER_CASES = [
    # (kind, text, expected) -- malformed documents in the two other database formats: a pybtex error names the problem
    ('yaml', YAML_GOOD, []),
    ('yaml', 'entries: [1, 2', [['FATAL', None]]),
    ('yaml', 'entries: 3', [['FATAL', None]]),
    ('yaml', 'entries:\n  a:\n    title: t\n', [['FATAL', None]]),
    ('yaml', 'preamble: x\n', [['FATAL', None]]),
    ('yaml', '', [['FATAL', None]]),
    ('yaml', '- a\n- b\n', [['FATAL', None]]),
    ('yaml', 'entries:\n  a: 3\n', [['FATAL', None]]),
    ('yaml', 'entries:\n  a:\n    type: misc\n    author: x\n', [['FATAL', None]]),
    ('yaml', 'entries:\n  a:\n    type: misc\n    author:\n      - {foo: x}\n', [['FATAL', None]]),
    ('yaml', 'entries:\n  a:\n    type: misc\n    author:\n      - x\n', [['FATAL', None]]),
    ('yaml', 'entries:\n  a:\n    type: 3\n', [['FATAL', None]]),
    ('yaml', 'entries:\n  1:\n    type: misc\n', [['FATAL', None]]),
    ('yaml', 'entries:\n  a:\n    type: misc\n    2: x\n', [['FATAL', None]]),
    ('yaml', 'entries:\n  a:\n    type: misc\n  A:\n    type: misc\n', [['BibliographyDataError', None]]),
    ('yaml', 'entries:\n  a:\n    type: misc\n    author:\n      - {first: "a, b, c, d"}\n', []),
    ('yaml', 'entries: {a: {type: misc, title: "t}\n', [['FATAL', None]]),
    ('yaml', 'entries:\n\ta: b\n', [['FATAL', None]]),
    ('yaml', 'entries: &x {a: *x}\n', [['FATAL', None]]),
    ('yaml', 'entries: !!python/object:os.system {}\n', [['FATAL', None]]),
    ('bibtexml', XML_GOOD, []),
    ('bibtexml', '<a', [['FATAL', None]]),
    ('bibtexml', '', [['FATAL', None]]),
    ('bibtexml', '<bibtex:file %s><bibtex:entry id="a"/></bibtex:file>' % NS, [['FATAL', None]]),
    ('bibtexml', '<bibtex:file %s><bibtex:entry id="a"><misc><title>t</title></misc></bibtex:entry></bibtex:file>' % NS, [['FATAL', None]]),
    ('bibtexml', '<bibtex:file %s><bibtex:entry><bibtex:misc/></bibtex:entry></bibtex:file>' % NS, [['FATAL', None]]),
    ('bibtexml', '<bibtex:file %s><bibtex:entry id="a"><bibtex:misc><bibtex:author/></bibtex:misc></bibtex:entry></bibtex:file>' % NS, [['FATAL', None]]),
    ('bibtexml', '<bibtex:file %s><bibtex:entry id="a"><bibtex:misc><bibtex:author><bibtex:person><bibtex:foo>x</bibtex:foo></bibtex:person>'
                 '</bibtex:author></bibtex:misc></bibtex:entry></bibtex:file>' % NS, [['FATAL', None]]),
    ('bibtexml', '<bibtex:file %s><bibtex:entry id="a"><bibtex:misc/></bibtex:entry><bibtex:entry id="A"><bibtex:misc/></bibtex:entry></bibtex:file>' % NS,
     [['BibliographyDataError', None]]),
    ('bibtexml', '<file><entry id="a"><misc><title>t</title></misc></entry></file>', []),
    ('bibtexml', '<bibtex:file %s><bibtex:entry id="a"><bibtex:misc><bibtex:author>a, b, c, d</bibtex:author></bibtex:misc></bibtex:entry></bibtex:file>' % NS,
     [['InvalidNameString', None]]),
]
YAML_CORRUPT = ':-[]{}\n #"\'&*!|>,?'
XML_CORRUPT = '<>/"= &;:\n!-'


def _corrupt_with(rng, text, n, alphabet):
    t = list(text)
    for _ in range(n):
        r = rng.random()
        i = rng.randrange(len(t) + 1)
        if r < 0.4 and t:
            del t[min(i, len(t) - 1)]
        elif r < 0.8:
            t.insert(i, rng.choice(alphabet))
        elif t:
            j = rng.randrange(len(t))
            t[min(i, len(t) - 1)], t[j] = t[j], t[min(i, len(t) - 1)]
    return ''.join(t)


def _format_cases(tier, rng, named_only=False):
    quick = tier == 'quick'
    cases = [{'op': 'errmodes', 'kind': k, 'text': t} for k, t, _e in READER_CASES]
    for k, t, _e in READER_CASES[:3] + READER_CASES[20:23]:
        cases.append({'op': 'errmodes', 'kind': 'yamlfile' if k == 'yaml' else 'xmlfile', 'text': t})
        cases.append({'op': 'errmodes', 'kind': 'yamlfile' if k == 'yaml' else 'xmlfile', 'text': t, 'pathlike': True})
    step = 3 if quick else 1
    for i in range(0, len(YAML_GOOD), step):
        cases.append({'op': 'errmodes', 'kind': 'yaml', 'text': YAML_GOOD[:i]})
    for i in range(0, len(XML_GOOD), step * 2):
        cases.append({'op': 'errmodes', 'kind': 'bibtexml', 'text': XML_GOOD[:i]})
    for _ in range(0 if named_only else 150 if quick else 2500):
        cases.append({'op': 'errmodes', 'kind': 'yaml', 'text': _corrupt_with(rng, YAML_GOOD, rng.randint(1, 4), YAML_CORRUPT)})
        cases.append({'op': 'errmodes', 'kind': 'bibtexml', 'text': _corrupt_with(rng, XML_GOOD, rng.randint(1, 3), XML_CORRUPT)})
    # entry points above the readers
    good = _db(['article', 'misc'])
    bad = '@misc{k, title = nomacro,\n title = {t}}\n@misc{j, note }\n' + good
    for name, text in (('good', good), ('bad', bad), ('unknown', _db(['unknown_type', 'misc'])), ('missing', _db(['missing_field']))):
        files = [['in.bib', text]]
        cases.append({'op': 'errmodes', 'kind': 'convert', 'name': 'convert:%s' % name, 'files': files, 'from': 'in.bib', 'to': 'out.yaml'})
        cases.append({'op': 'errmodes', 'kind': 'convert', 'name': 'convert-same:%s' % name, 'files': files, 'from': 'in.bib', 'to': 'in.bib'})
        cases.append({'op': 'errmodes', 'kind': 'convert', 'name': 'convert-suffix:%s' % name, 'files': files, 'from': 'in.bib', 'to': 'out.zzz'})
        cases.append({'op': 'errmodes', 'kind': 'convert', 'name': 'convert-missing:%s' % name, 'files': files, 'from': 'gone.bib', 'to': 'out.yaml'})
        cases.append({'op': 'errmodes', 'kind': 'format', 'name': 'format:%s' % name, 'files': files, 'from': 'in.bib', 'to': 'out.txt'})
        cases.append({'op': 'errmodes', 'kind': 'format', 'name': 'format-plain:%s' % name, 'files': files, 'from': 'in.bib', 'to': 'out.html', 'style': 'plain'})
    for engine in ('bibtex', 'python'):
        for auxname, aux in AUX_DOCS:
            for dbname, text in (('good', good), ('bad', bad), ('unknown', _db(['unknown_type', 'misc']))):
                cases.append({'op': 'errmodes', 'kind': 'make_bibliography', 'name': 'mb:%s:%s:%s' % (engine, auxname, dbname), 'engine': engine,
                              'aux': 'doc.aux', 'files': [['doc.aux', aux], ['db.bib', text], ['unsrt.bst', _bst_program([BST_FAULTS[4]])]]})
    return cases


AUX_DOCS = [
    ('ok', '\\relax\n\\citation{a1}\n\\citation{m1}\n\\bibstyle{unsrt}\n\\bibdata{db}\n'),
    ('missing-cite', '\\citation{a1}\n\\citation{zz}\n\\bibstyle{unsrt}\n\\bibdata{db}\n'),
    ('two-styles', '\\citation{a1}\n\\citation{A1}\n\\bibstyle{unsrt}\n\\bibstyle{plain}\n\\bibdata{db}\n'),
    ('no-data', '\\citation{a1}\n\\bibstyle{unsrt}\n'),
    ('no-db-file', '\\citation{a1}\n\\bibstyle{unsrt}\n\\bibdata{gone}\n'),
    ('all', '\\citation{*}\n\\bibstyle{unsrt}\n\\bibdata{db}\n'),
]

CONVERT_EXPECT = {
    ('convert', 'convert:good'): [],
    ('convert', 'convert:bad'): [['UndefinedMacro', 1], ['DuplicateField', None], ['TokenRequired', 3]],
    ('convert', 'convert-same:good'): [['FATAL', None]],
    ('convert', 'convert-same:bad'): [['FATAL', None]],
    ('convert', 'convert-suffix:good'): [['FATAL', None]],
    ('convert', 'convert-missing:good'): [['FATAL', None]],
    ('format', 'format:good'): [],
    ('format', 'format:bad'): [['UndefinedMacro', 1], ['DuplicateField', None], ['TokenRequired', 3]],
    ('format', 'format:unknown'): [['FATAL', None]],
    ('format', 'format:missing'): [['FATAL', None]],
}


# ----------------------------------------------------------------------------------------------
# the three command lines
# ----------------------------------------------------------------------------------------------

def _cli_cases(tier, rng):
    import random
    import props.c10 as c10
    quick = tier == 'quick'
    good = _db(['article', 'misc'])
    bad = '@misc{k, title = nomacro,\n title = {t}}\n@misc{j, note }\n' + good
    files = [['good.bib', good], ['bad.bib', bad], ['unknown.bib', _db(['unknown_type', 'misc'])], ['missing.bib', _db(['missing_field'])],
             ['dangling.bib', _db(['dangling', 'misc'])]]
    S = ['strict', '--strict']
    cases = []

    def cli(prog, runs, fs=files):
        cases.append({'op': 'errcli', 'prog': prog, 'files': fs, 'runs': runs})
    A = lambda x: ['arg', x]  # noqa: E731
    for inp in ('good.bib', 'bad.bib'):
        i, o = A(inp), A('out.yaml')
        for run in ([i, o], [S, i, o], [i, S, o], [i, o, S], [S, S, i, o], [['other', '-t', 'yaml'], i, o], [['other', '--preserve-case'], S, i, o],
                    [['other', '-f', 'bibtex'], i, o], [i], [], [i, o, o], [S], [S, i], [['rejected', '--bogus'], i, o], [S, ['rejected', '--bogus'], i, o],
                    [['plugin_error', '-f', 'nosuchformat'], i, o], [S, ['plugin_error', '-t', 'nosuchformat'], i, o],
                    [['info', '--version']], [['info', '--help']], [S, ['info', '--help'], i, o], [['rejected', '--bogus'], ['info', '--version']],
                    [i, i], [S, i, i], [i, A('out.zzz')], [A('gone.bib'), o], [S, A('gone.bib'), o]):
            cli('pybtex-convert', [run])
    # several runs in one interpreter: every main() resets error_code and puts the caller's strict back
    b, g, o = A('bad.bib'), A('good.bib'), A('out.yaml')
    for runs in ([[b, o], [g, o]], [[S, b, o], [b, o]], [[b, o], [S, b, o]], [[S, g, o], [b, o], [g, o]], [[g, o], [g, o]], [[b], [g, o]],
                 [[['rejected', '--bogus']], [b, o]], [[S, b, o], [g, o]]):
        cli('pybtex-convert', runs)
    for inp in ('good.bib', 'bad.bib', 'unknown.bib', 'missing.bib', 'dangling.bib'):
        i = A(inp)
        for out in ('out.txt', 'out.html'):
            o = A(out)
            for run in ([i, o], [S, i, o], [['other', '--style', 'plain'], i, o], [S, ['other', '-b', 'latex'], i, o], [i],
                        [['other', '--style', 'nosuchstyle'], i, o], [['plugin_error', '-b', 'nosuchbackend'], S, i, o],
                        [['plugin_error', '--label-style', 'nosuch'], i, o], [['rejected', '--min-crossrefs', 'x'], i, o]):
                cli('pybtex-format', [run])
    warn_bst = _bst_program([BST_FAULTS[4]])
    for auxname, aux in AUX_DOCS:
        for dbname, text in (('good', good), ('bad', bad), ('unknown', _db(['unknown_type', 'misc']))):
            fs = [['doc.aux', aux], ['db.bib', text], ['unsrt.bst', warn_bst]]
            d = A('doc.aux')
            for run in ([d], [S, d], [A('doc')], [['other', '-l', 'python'], d], [S, ['other', '-l', 'python'], d], [['other', '--terse'], d, S],
                        [], [d, d], [['other', '-l', 'python'], ['other', '-b', 'html'], d],
                        # legacy long options with one dash (recognize_legacy_optons)
                        [['other', '-terse'], d], [['other', '-min-crossrefs=3'], d, S], [['info', '-version']], [['info', '-help'], d]):
                cli('pybtex', [run], fs)
    fs = [['doc.aux', AUX_DOCS[0][1]], ['db.bib', good]]
    for f in BST_FAULTS[:24]:
        if f[0] in ('top',):
            continue
        for run in ([A('doc.aux')], [S, A('doc.aux')]):
            cli('pybtex', [run], fs + [['unsrt.bst', _bst_program([f])]])
    # corrupted .bib inputs of the C10 generator through pybtex-convert, with and without --strict
    sub = random.Random(rng.getrandbits(64))
    cs = [c for c in c10.gen_cases('quick', sub, {}) if 'pre' in c]
    for c in _sample(sub, cs, 60 if quick else 400):
        fs = [['in.bib', c10.text_of(c)]]
        cli('pybtex-convert', [[A('in.bib'), A('out.yaml')]], fs)
        cli('pybtex-convert', [[S, A('in.bib'), A('out.yaml')]], fs)
    return cases


# ----------------------------------------------------------------------------------------------
# context managers left in any order
# ----------------------------------------------------------------------------------------------

def _free_histories(maxlen, maxk):
    out = []

    def rec(prefix, d, k):
        out.append(list(prefix))
        if len(prefix) == maxlen:
            return
        rec(prefix + [{'o': 'enter'}], d + 1, k)
        for j in range(min(d, maxk + 1)):
            rec(prefix + [{'o': 'exitk', 'k': j}], d - 1, k)
        rec(prefix + [{'o': 'report', 'k': k}], d, k + 1)
        rec(prefix + [{'o': 'strict', 'b': False}], d, k)
    rec([], 0, 0)
    return out


def _free_case(strict0, ops):
    k = sum(1 for o in ops if o['o'] == 'report')
    return {'op': 'errfree', 'strict0': strict0, 'errs': [_err_for(i) for i in range(k)], 'ops': ops}


def _random_free(rng):
    ops, d, k = [], 0, 0
    for _ in range(rng.randint(4, 30)):
        a = rng.choice(['enter', 'enter', 'exitk', 'exitk', 'report', 'report', 'report', 'T', 'F'])
        if a == 'exitk' and d == 0:
            a = 'report'
        if a == 'enter' and d >= 5:
            a = 'exitk'
        if a == 'enter':
            ops.append({'o': 'enter'})
            d += 1
        elif a == 'exitk':
            ops.append({'o': 'exitk', 'k': rng.randrange(d)})
            d -= 1
        elif a == 'report':
            ops.append({'o': 'report', 'k': k})
            k += 1
        else:
            ops.append({'o': 'strict', 'b': a == 'T'})
    return _free_case(rng.random() < 0.5, ops)


def gen_cases(tier, rng, info):
    quick = tier == 'quick'
    cases = []
    n_hist = 5 if quick else 7
    hs = _all_histories(n_hist)
    for names in hs:
        for strict0 in (True, False):
            cases.append(_hist_case(strict0, names))
    grid = _grid_cases()
    cases += grid
    tr = _token_required_cases(['a', '\n', '\r', '\x0c'] if quick else ['a', ' ', '\n', '\r', '\x0c', '\u2028'], 4 if quick else 4)
    cases += tr
    letters = ['f', 'F', 'l', 'j', 'v', 'V', 'g']
    fm = [{'op': 'fmtchars', 'value': ''.join(t)} for n in (1, 2, 3) for t in itertools.product(letters, repeat=n)]
    cases += fm
    for kind, text, expect in MODE_CASES:
        cases.append({'op': 'errmodes', 'kind': kind, 'text': text})
    n_free = 5 if quick else 6
    fh = _free_histories(n_free, 2)
    for ops in fh:
        cases.append(_free_case(True, ops))
    engine = _engine_cases(tier, rng)
    formats = _format_cases(tier, rng)
    clis = _cli_cases(tier, rng)
    readers, rcounts = _reader_cases(tier, rng)
    cases += engine + formats + clis + readers
    fnames, n_fn_exh = c16_ext.filename_cases(tier, rng)
    brender = c16_ext.bytes_render_cases(tier, rng)
    prims = c16_ext.prim_cases(tier, rng)
    eqs = c16_ext.eq_cases(tier, rng)
    cases += fnames + brender + prims + eqs
    for _ in range(300 if quick else 6000):
        cases.append(_random_free(rng))
    info['exhaustive'] = True
    info['scope'] = ('errhist: all %d prefix-balanced histories of <=%d operations over %r (closed with the missing exits) x 2 start modes; '
                     'errrender: %d grid instances over all %d classes + %d TokenRequired instances = every in-range parser state of every text '
                     'of <=4 characters over the tier alphabet, both get_error_context implementations; fmtchars: all %d letter strings of <=3 over %r; '
                     'errmodes: %d hand-made inputs with expected problem lists; errfree: all %d histories of <=%d operations over enter / '
                     'exit the k-th open manager (k<=2) / report / set_strict_mode(False); engine runs: %d (every run-time fault of %d .bst '
                     'faults x 2 databases, the real styles and the 4 Python styles x every fault entry x 2 citation lists, random combinations); '
                     'other formats and entry points: %d (every truncation of a YAML / BibTeXML document, hand-made structural faults, convert / '
                     'format_database / make_bibliography); command lines: %d (pybtex, pybtex-convert, pybtex-format x argv patterns incl. --strict '
                     'in every position, wrong argument counts, rejected options, unknown plug-ins, same input and output, several runs in one '
                     'interpreter); inputs of the C10 / C15 / C20 generators with the expected problems computed from the reader models: %r; errfilename: %d byte strings = every string of '
                     '<=2 (quick; 3 thorough) bytes over the %d class boundaries of UTF-8, <=3 over %d, <=4 over %d of them, + str names, + random; '
                     'errrender with ill-formed byte file names: %d; errprim: %d = splitlines of every text of <=3 over the 12 separator candidates and '
                     'of every code point in blocks of 1024 (quick: below U+20000 + 26 blocks above), repr of the same blocks and of every text of <=3 '
                     'over the quote / escape alphabet, rstrip / endswith / NEWLINE.search on every text of <=4, both get_error_context functions on '
                     'EVERY (lineno | start, pos) of every text of <=3 over the tier alphabet, out-of-range states included; erreq: %d = all pairs of a pool of '
                     '%d error objects (made to collide in str) + other objects' % (
                         len(hs), n_hist, ALPHABET, len(grid), 15, len(tr), len(fm), letters, len(MODE_CASES),
                         len(fh), n_free, len(engine), len(BST_FAULTS), len(formats), len(clis), rcounts,
                         n_fn_exh, len(c16_ext.BYTES_FULL), len(c16_ext.BYTES_MID), len(c16_ext.BYTES_SMALL), len(brender), len(prims), len(eqs), len(c16_ext.EQ_POOL)))
    n_rh, n_rr, n_rm = (1500, 4000, 500) if quick else (30000, 60000, 5000)
    for _ in range(n_rh):
        cases.append(_random_history(rng))
    for _ in range(n_rr):
        cases.append(_random_render(rng))
    for _ in range(n_rm):
        cases.append(_random_modes(rng))
    # the expensive families (command lines, engine runs, file-based readers) are spread over the stream: check.py hands the worker
    # processes contiguous chunks
    import random
    random.Random(20260926).shuffle(cases)
    _PENDING[:] = cases
    return cases


LEVEL_TEXT = ('Machine-checked proofs (Lean 4) over an executable model of pybtex/errors.py, of the rendering of all 15 error classes '
              '(incl. both get_error_context implementations) and of CommandLine.__call__: rendering is total and has the stated shape for '
              'every error value; the three reporting modes report the same problems in the same order (capture list / warnings + error_code / '
              'first problem raised) with the exit status 0/2/1; leaving capture contexts restores reporting after ANY balanced pattern of '
              'nested and aborted contexts from ANY configuration (frame lemma by induction over the history, all depths), nested contexts '
              'compose, every history refines a reference semantics that only looks at nesting depth and strict flag; error_code is monotone; '
              'error locations are snapshots; BibTeXNameFormatError is unreachable.  The model is tied to the code by a correspondence check: '
              'exhaustive over all operation histories up to a length on the real module (two ways of driving the context managers), every '
              'class enumerated from the source with argument grids and every in-range parser state over small texts, and real inputs '
              'processed in all three modes and through the command-line wrapper.  Added: the exits of the .bib / .bst / .aux reader models of '
              'C10 / C15 / C20 are proved to be listed pybtex errors and the .bib reader is proved mode independent through its own strict run; '
              'main() with its options (--strict, rejected options, argument count) is modelled and proved (strict option, exit status from any '
              'state) and the three real command lines are driven in-process; the engines (BibTeX and Python), the YAML / BibTeXML readers, '
              'convert / format_database / make_bibliography are run in the three modes; the expected problems of the inputs of the C10 / C15 / '
              'C20 generators and of the BibTeX-engine runs are computed from the reader / interpreter models, not from the capture run.  '
              'Extension: PybtexError.get_filename with its byte-string branch (pybtex.io._decode_filename, UTF-8 with replacement) is inside the '
              'model: text names survive the byte form exactly (round trip for every string) and rendering stays total for every byte string; '
              'the string primitives of the rendering model and both get_error_context functions are compared function by function (errprim), '
              'repr is exact over all of Unicode from the regenerated isprintable table, and the constants of the model are checked against '
              'literals read from the source on every run (C16_constants_match_source).')
LEVEL_NOTE = ('Trusted: Lean kernel; axioms propext/Classical.choice/Quot.sound only; the hand-written model corresponds to the code only as '
              'far as the differential check explores.  Modelled by hand and compared function by function with the interpreter (errprim), not verified: str.splitlines, repr() of str '
              '(tables regenerated), rstrip, NEWLINE.search; int formatting; UTF-8 decoding of byte file names is modelled (errfilename), other '
              'file-system encodings are outside the model (the build stops); stderr plumbing, sys.exit and optparse '
              'are observed only.  A computation is abstracted as a list of reports + optional fatal error: that the parsers make the same '
              'report_error calls in every mode is checked on real inputs (hand-made + randomly corrupted .bib/.aux/.bst), not proved of the '
              'parsers (no parser model here; C10/C15/C20 own those).  TokenRequired rendering is proved for parser states in range '
              '(decidable CtxInfo.WF) - that real parsers only produce such states is checked, not proved.  Contexts are assumed to be left '
              'in LIFO order.  The model follows the tree WITH proposed_fixes C16-1 (capture restores the previous list), C16-2 '
              '(PluginNotFound without assert), C20-1/2 (AuxDataError) and C16-3 ... C16-7 (unknown entry type, YAML / BibTeXML readers, '
              'unrenderable chr.to.int$ / int.to.chr$ errors, file objects as file names); SkipEntry containment is by the shape of one try/except, '
              'carried by the model only as a type-level statement.  Definitional ([model wiring] in THEOREMS): C16_location_stable / _all_modes / _snapshot (a pure model cannot alias; '
              'non-aliasing of the Python error objects is checked by the location_stable oracle clause only), conjuncts 2-3 of C16_render_total, conjuncts 3-4 of C16_bst_run_end_partial '
              '(definition of the classifier), and Spec.modes (collected = printed = the reports of the SAME Comp: "same set and order in all modes" is built into the computation abstraction; '
              'only the .bib reader is proved mode independent through its own strict run).  C16_history_refines_spec starts outside any context and never leaves one it did not enter.')


EXPECT.update({(k, t): e for k, t, e in READER_CASES})
EXPECT.update(_py_expect())
EXPECT.update(CONVERT_EXPECT)
