"""C16 -- every problem is a renderable pybtex error, the same in all reporting modes.

Five driver ops (lean/PybtexModel/Drv/C16.lean):

errhist     histories over {enter, exit, abort-inside, report k, set_strict b} on the REAL
            `pybtex.errors` module (twice: real `with` blocks, and the context-manager protocol
            called by hand), module globals always restored;
errrender   one instance of an error class: str / get_context / get_filename / format_error;
errclasses  the PybtexError subclasses found by importing every module of the package;
errmodes    a real input (.bib / .aux / .bst / name / plugin lookup) processed in capture,
            non-strict, strict mode and through CommandLine.__call__;
fmtchars    the letters of a `format.name$` name part (BibTeXNameFormatError unreachable).
"""
import contextlib
import importlib
import io
import itertools
import os
import pkgutil
import re
import shutil
import sys
import tempfile
import ast

import compat  # noqa: F401
from props.base import corpus_for  # noqa: F401

ID = 'C16'
LEAN_MODULES = ['PybtexModel.Props.C16']
THEOREMS = {
    'C16_render_total': 'format_error is defined for every error value of every class and is context lines ++ [prefix ++ str(error)], each line prefixed by the file name when there is one',
    'C16_render_total_other_classes': 'only TokenRequired carries a well-formedness condition (parser state in range); every other class renders unconditionally',
    'C16_render_filename': 'with a file name every rendered line starts with "<file>: " and the last line is the prefixed message',
    'C16_render_no_filename': 'without a file name the lines are exactly context ++ [prefix ++ message]',
    'C16_every_class_listed': 'every error value belongs to a class of the list the harness compares with the classes enumerated from the source',
    'C16_mode_independent': 'for a computation reporting e1..en: capture collects exactly [e1..en] and restores the state; non-strict prints the same n warnings in order, error_code = 2 iff n > 0; strict raises e1 first, changes nothing, and its problems are a prefix of the others',
    'C16_warning_text': 'the warning printed in non-strict mode is the rendering with the WARNING prefix, defined for every error',
    'C16_exit_status': 'command line: status 0 iff nothing reported, 2 iff only warnings, 1 iff a pybtex error escaped; stderr = the warnings in order then the fatal error',
    'C16_capture_restores': 'after ANY balanced pattern of nested / aborted capture contexts, from ANY configuration: enclosing frames untouched, captured_errors back to what it was (+ the reports made directly at that level), strict = last set_strict_mode, error_code unchanged unless a warning was printed',
    'C16_capture_restores_outside': 'outside any context captured_errors is None again after the contexts have unwound',
    'C16_capture_nested': 'nested contexts compose: the enclosing context has collected exactly its direct reports, nothing was printed or raised meanwhile, and it goes on collecting',
    'C16_capture_context': 'one context (left normally or by an exception) yields exactly the reports made directly in its body and restores captured_errors and the enclosing frames exactly',
    'C16_direct_body': 'the reference "reports made directly in the body" depends on the body only',
    'C16_wellBracketed_balanced': 'every history of the well-bracketed grammar satisfies the decidable hypothesis (induction over well-bracketed histories)',
    'C16_balanced_iff_wellBracketed': 'the decidable bracket check and the well-bracketed grammar describe the same histories',
    'C16_history_refines_spec': 'every report of every history does what the reference semantics says from nesting depth and strict flag alone; error_code ends as the reference says',
    'C16_error_code_monotone': 'error_code is unchanged or 2, is 2 once a warning was printed, and never decreases along a history',
    'C16_location_stable': 'errors are built from the mutable parse state at the moment of the report and keep that location whatever follows',
    'C16_location_snapshot': 'file name and line of .aux and scanner errors are those of the parse state they were built from',
    'C16_no_foreign_exception': 'format letters accepted by check_format_chars are accepted by NamePart (BibTeXNameFormatError unreachable, format char in flvj); SkipEntry does not leave parse_bibliography',
}
RULE = ('errhist: every history of <=N operations (N=5 quick, 7 thorough) over {enter, exit, abort, report, set_strict T/F} in which no '
        'exit precedes its enter, closed with the missing exits, from strict and non-strict start, + seeded random longer ones; '
        'errrender: for each class found in the source a grid of constructor arguments (messages, file names str/bytes/empty/None, '
        'line numbers, every in-range parser position of every text over a small alphabet of line separators) + random; '
        'errmodes: hand-made and randomly corrupted .bib/.aux/.bst/name/plugin inputs in the three modes and through CommandLine; '
        'non-trivial = history with a report inside or after a context / instance with context or file name / input with >=1 problem; '
        'distinct by case JSON')
TRUSTED = ['str.splitlines separators, repr() of str (exact below U+0100 and on Unicode spaces, other code points assumed printable), '
           'int formatting are modelled, not verified',
           'byte file names are decoded by the harness (sys.getfilesystemencoding) before they reach the model',
           'stderr plumbing (pybtex.io.stderr), sys.exit and optparse are observed, not modelled',
           'the computation abstraction: the sequence of report_error calls of a run does not depend on the reporting mode '
           '(report_error returns nothing); checked on the real inputs, not proved of the parsers']
ASSUMPTIONS = ['TokenRequired instances come from parser states in which get_error_context does not index out of range '
               '(CtxInfo.WF: Scanner 1 <= lineno <= number of lines; LowLevelParser command_start < pos, inside the text)',
               'capture contexts are left in LIFO order (with-statement discipline)',
               'the tree carries proposed_fixes C16-1, C16-2, C20-1, C20-2 (the model follows the fixed behaviour)']

WARNING = 'WARNING: '
ERROR = 'ERROR: '


# ----------------------------------------------------------------------------------------------
# error values <-> real exception objects
# ----------------------------------------------------------------------------------------------

def _fs_encode(name):
    return name.encode(sys.getfilesystemencoding() or 'utf-8')


class _Obj(object):
    pass


def _make_parser(kind, text, filename, start, lineno, pos):
    from pybtex.scanner import Scanner
    from pybtex.database.input.bibtex import LowLevelParser
    if kind == 'lowLevel':
        p = LowLevelParser(text, filename=filename)
        p.command_start = start
    else:
        p = Scanner(text, filename=filename)
    p.lineno = lineno
    p.pos = pos
    return p


def build_error(spec, fn_bytes=False):
    """errspec -> (exception object, function that moves the parse state on)."""
    from pybtex import exceptions, scanner, auxfile, database
    from pybtex.bibtex import exceptions as bexc, names
    from pybtex.database import convert
    from pybtex.database.input import bibtex as ibib
    from pybtex import plugin
    from pybtex.style import template
    cls = spec['cls']
    fn = spec.get('filename')
    if fn is not None and fn_bytes:
        fn = _fs_encode(fn)
    later = lambda: None  # noqa: E731
    plain = {'PybtexError': exceptions.PybtexError, 'BibliographyDataError': database.BibliographyDataError,
             'BibTeXError': bexc.BibTeXError, 'ConvertError': convert.ConvertError}
    if cls in plain:
        return plain[cls](spec['msg'], filename=fn), later
    if cls == 'DuplicateField':
        return ibib.DuplicateField(spec['key'], spec['field']), later
    if cls == 'InvalidNameString':
        return database.InvalidNameString(spec['name']), later
    if cls == 'PluginGroupNotFound':
        return plugin.PluginGroupNotFound(spec['group']), later
    if cls == 'PluginNotFound':
        return plugin.PluginNotFound(spec['group'], spec['name']), later
    if cls == 'FieldIsMissing':
        ek = spec['entry']
        if ek['kind'] == 'missing':
            entry = _Obj()
        elif ek['kind'] == 'none':
            entry = database.Entry('misc')
        else:
            entry = database.Entry('misc')
            entry.key = ek['key']
        return template.FieldIsMissing(spec['field'], entry), later
    if cls in ('PybtexSyntaxError', 'UndefinedMacro', 'PrematureEOF', 'UnbalancedBraceError'):
        if cls == 'UnbalancedBraceError':
            p = names.NameFormatParser(spec['arg'], filename=fn)
            p.lineno = spec.get('lineno')
        else:
            p = _make_parser('scanner', 'some text\nmore', fn, None, spec.get('lineno'), 3)

        def later():  # noqa: F811
            p.pos = len(p.text)
            p.lineno = 77
        if cls == 'PybtexSyntaxError':
            return scanner.PybtexSyntaxError(spec['arg'], p), later
        if cls == 'UndefinedMacro':
            return ibib.UndefinedMacro(spec['arg'], p), later
        if cls == 'PrematureEOF':
            return scanner.PrematureEOF(p), later
        return names.UnbalancedBraceError(p), later
    if cls == 'TokenRequired':
        i = spec['info']
        p = _make_parser(i['kind'], i['text'], fn, i.get('start'), i.get('lineno'), i['pos'])

        def later():  # noqa: F811
            p.pos = len(p.text)
            p.lineno = 77
            if i['kind'] == 'lowLevel':
                p.command_start = len(p.text)
        return scanner.TokenRequired(spec['description'], p), later
    if cls == 'AuxDataError':
        ctx = auxfile.AuxDataContext(fn)
        ctx.lineno = spec.get('lineno')
        ctx.line = spec.get('line')

        def later():  # noqa: F811
            ctx.lineno = 99
            ctx.line = 'a later line'
        return auxfile.AuxDataError(spec['msg'], ctx), later
    raise ValueError('no constructor recipe for class %s' % cls)


def _decode_fn(fn):
    if isinstance(fn, bytes):
        return fn.decode(sys.getfilesystemencoding() or 'utf-8', errors='replace')
    return fn


def spec_of_exception(e, sanitize=lambda s: s):
    """real exception object -> errspec (fields read off the object; messages of the classes that
    format their arguments into the message are taken apart again)."""
    from pybtex.scanner import Scanner
    from pybtex.database.input.bibtex import LowLevelParser
    cls = type(e).__name__
    msg = e.args[0] if e.args else ''
    fn = _decode_fn(getattr(e, 'filename', None))
    if isinstance(fn, str):
        fn = sanitize(fn)
    bad = {'cls': cls, 'unparsed': str(msg)}
    if not isinstance(msg, str):
        return bad
    if cls in ('PybtexError', 'BibliographyDataError', 'BibTeXError', 'ConvertError'):
        return {'cls': cls, 'msg': sanitize(msg), 'filename': fn}
    if cls == 'DuplicateField':
        m = re.match(r'^entry with key (.*) has a duplicate (\S+) field$', msg, re.S)
        return {'cls': cls, 'key': m.group(1), 'field': m.group(2)} if m and fn is None else bad
    if cls == 'InvalidNameString':
        try:
            name = ast.literal_eval(msg[len('Too many commas in '):])
        except Exception:
            return bad
        return {'cls': cls, 'name': name} if msg.startswith('Too many commas in ') and fn is None else bad
    if cls == 'PluginGroupNotFound':
        m = re.match(r'^plugin group (.*) not found$', msg, re.S)
        return {'cls': cls, 'group': m.group(1)} if m and fn is None else bad
    if cls == 'PluginNotFound':
        m = re.match(r'^plugin (.*\.suffixes) for suffix (\..*) not found$', msg, re.S)
        if m and fn is None:
            return {'cls': cls, 'group': m.group(1), 'name': m.group(2)}
        m = re.match(r'^plugin (pybtex\.[a-z.]*[a-z])\.(.*) not found$', msg, re.S)
        return {'cls': cls, 'group': m.group(1), 'name': m.group(2)} if m and fn is None else bad
    if cls == 'FieldIsMissing':
        m = re.match(r'^missing (\S*) in (.*)$', msg, re.S)
        return {'cls': cls, 'field': m.group(1), 'entry': {'kind': 'key', 'key': m.group(2)}} if m and fn is None else bad
    if cls in ('PybtexSyntaxError', 'UndefinedMacro'):
        return {'cls': cls, 'arg': msg, 'filename': fn, 'lineno': e.lineno}
    if cls == 'PrematureEOF':
        return {'cls': cls, 'filename': fn, 'lineno': e.lineno} if msg == 'premature end of file' else bad
    if cls == 'UnbalancedBraceError':
        return {'cls': cls, 'arg': e.parser.text, 'filename': fn, 'lineno': e.lineno}
    if cls == 'TokenRequired':
        gec = type(e.parser).get_error_context
        info = e.error_context_info
        if not msg.endswith(' expected'):
            return bad
        if gec is LowLevelParser.get_error_context and len(info) == 3:
            i = {'kind': 'lowLevel', 'text': e.parser.text, 'start': info[0], 'lineno': info[1], 'pos': info[2]}
        elif gec is Scanner.get_error_context and len(info) == 2:
            i = {'kind': 'scanner', 'text': e.parser.text, 'start': None, 'lineno': info[0], 'pos': info[1]}
        else:
            return bad
        if i['lineno'] != e.lineno:
            return bad
        return {'cls': cls, 'description': msg[:-len(' expected')], 'filename': fn, 'info': i}
    if cls == 'AuxDataError':
        ctx = getattr(e, 'context', None)
        return {'cls': cls, 'msg': msg, 'filename': fn,
                'lineno': getattr(e, 'lineno', getattr(ctx, 'lineno', None)),
                'line': getattr(e, 'line', getattr(ctx, 'line', None))}
    return bad


def _kind(x):
    return compat.pybtex_error_kind(x)


def _call(f):
    try:
        return f()
    except BaseException as x:  # noqa
        return {'fail': _kind(x)}


def render_record(e, prefix=ERROR, sanitize=lambda s: s):
    """The four renderings of one exception object."""
    from pybtex import errors

    def s(v):
        return sanitize(v) if isinstance(v, str) else v
    return {'cls': type(e).__name__,
            'str': s(_call(lambda: str(e))),
            'context': s(_call(e.get_context)),
            'filename': s(_call(lambda: e.get_filename())),
            'format': s(_call(lambda: errors.format_error(e, prefix)))}


# ----------------------------------------------------------------------------------------------
# module state guard
# ----------------------------------------------------------------------------------------------

@contextlib.contextmanager
def fresh_errors(strict=True):
    """Run with a fresh `pybtex.errors` state and a private stderr; ALWAYS put everything back."""
    from pybtex import errors
    import pybtex.io
    saved = (errors.strict, errors.error_code, errors.captured_errors, pybtex.io.stderr, sys.argv)
    buf = io.StringIO()
    try:
        errors.error_code = 0
        errors.captured_errors = None
        errors.set_strict_mode(strict)
        pybtex.io.stderr = buf
        yield errors, buf
    finally:
        errors.strict, errors.error_code, errors.captured_errors, pybtex.io.stderr, sys.argv = saved


def _take(buf):
    t = buf.getvalue()
    buf.seek(0)
    buf.truncate()
    return t


# ----------------------------------------------------------------------------------------------
# errhist
# ----------------------------------------------------------------------------------------------

class _Abort(Exception):
    pass


class _Hist(object):
    def __init__(self, case, errors, buf):
        self.errors = errors
        self.buf = buf
        self.objs = [build_error(s)[0] for s in case['errs']]
        self.ids = {id(o): k for k, o in enumerate(self.objs)}
        self.trace = []
        self.lists = []

    def idl(self, l):
        if l is None:
            return None
        return [self.ids.get(id(o), 'FOREIGN') for o in l]

    def state(self):
        e = self.errors
        return [e.strict, e.error_code, self.idl(e.captured_errors)]

    def note(self, obs):
        self.trace.append({'obs': obs, 'st': self.state()})

    def report(self, k):
        obj = self.objs[k]
        e = self.errors
        try:
            e.report_error(obj)
        except BaseException as x:  # noqa
            obs = {'raised': k} if x is obj else {'raised': _kind(x)}
            t = _take(self.buf)
            if t:
                obs['printed_too'] = t
            return self.note(obs)
        t = _take(self.buf)
        if t:
            return self.note({'printed': t[:-1] if t.endswith('\n') else t + '<no newline>'})
        cap = e.captured_errors
        if cap is not None and cap and cap[-1] is obj:
            return self.note('collected')
        return self.note('lost')

    def result(self, open_contexts):
        return {'trace': self.trace, 'final': self.state(), 'open': open_contexts,
                'lists': [self.idl(l) for l in self.lists]}


def _run_manual(case):
    with fresh_errors(case['strict0']) as (errors, buf):
        h = _Hist(case, errors, buf)
        stack = []
        try:
            for op in case['ops']:
                o = op['o']
                if o == 'strict':
                    errors.set_strict_mode(op['b'])
                    h.note(None)
                elif o == 'enter':
                    cm = errors.capture()
                    lst = cm.__enter__()
                    stack.append((cm, lst))
                    h.lists.append(lst)
                    h.note(None)
                elif o in ('exit', 'abort'):
                    cm, lst = stack.pop()
                    if o == 'exit':
                        swallowed = cm.__exit__(None, None, None)
                    else:
                        try:
                            raise _Abort()
                        except _Abort as x:
                            swallowed = cm.__exit__(type(x), x, x.__traceback__)
                    obs = {'left': h.idl(lst)}
                    if swallowed:
                        obs['swallowed'] = True
                    h.note(obs)
                else:
                    h.report(op['k'])
            return h.result(len(stack))
        finally:
            while stack:  # never leave a generator suspended
                cm, _ = stack.pop()
                try:
                    cm.__exit__(None, None, None)
                except BaseException:  # noqa
                    pass


def _run_with(case):
    with fresh_errors(case['strict0']) as (errors, buf):
        h = _Hist(case, errors, buf)
        ops = case['ops']

        def block(i):
            while i < len(ops):
                op = ops[i]
                o = op['o']
                if o == 'strict':
                    errors.set_strict_mode(op['b'])
                    h.note(None)
                    i += 1
                elif o == 'report':
                    h.report(op['k'])
                    i += 1
                elif o == 'enter':
                    lst = None
                    try:
                        with errors.capture() as lst:
                            h.lists.append(lst)
                            h.note(None)
                            i = block(i + 1)
                            if ops[i]['o'] == 'abort':
                                raise _Abort()
                    except _Abort:
                        pass
                    h.note({'left': h.idl(lst)})
                    i += 1
                else:
                    return i
            return i
        block(0)
        return h.result(0)


def _depth_profile(ops):
    d = 0
    for op in ops:
        if op['o'] == 'enter':
            d += 1
        elif op['o'] in ('exit', 'abort'):
            d -= 1
            if d < 0:
                return None
    return d


# ----------------------------------------------------------------------------------------------
# errmodes: real inputs
# ----------------------------------------------------------------------------------------------

def _computation(case, tmp):
    """() -> None: the pybtex call of the case (reads user input, reports problems)."""
    kind, text = case['kind'], case['text']
    if kind == 'bib':
        def run():
            from pybtex.database import parse_string
            parse_string(text, 'bibtex')
    elif kind == 'bibfile':
        path = os.path.join(tmp, 'input.bib')
        with open(path, 'w', encoding='utf-8', newline='') as f:
            f.write(text)

        def run():
            from pybtex.database import parse_file
            parse_file(path, 'bibtex')
    elif kind == 'aux':
        path = os.path.join(tmp, 'input.aux')
        with open(path, 'w', encoding='utf-8', newline='') as f:
            f.write(text)

        def run():
            from pybtex import auxfile
            auxfile.parse_file(path, 'utf-8')
    elif kind == 'bst':
        def run():
            from pybtex.bibtex import bst
            list(bst.parse_string(text))
    elif kind == 'name':
        def run():
            from pybtex.database import Person
            Person(text)
    elif kind == 'namefmt':
        def run():
            from pybtex.bibtex.names import format_name
            format_name('von Last, Jr, First', text)
    elif kind == 'plugin':
        group, _, name = text.partition('|')

        def run():
            from pybtex.plugin import find_plugin
            find_plugin(group, name)
    else:
        raise ValueError(kind)
    return run


def _raised(x, sanitize):
    from pybtex.exceptions import PybtexError
    from pybtex import errors
    if x is None:
        return None
    if isinstance(x, PybtexError):
        r = _call(lambda: errors.format_error(x, ERROR))
        return sanitize(r) if isinstance(r, str) else r
    return _kind(x)


def _run_modes(case, want='all'):
    """Process the input in the three modes (+ command line).  `want='specs'`: only the capture run,
    returning the errspecs of what was reported (used to build the driver request)."""
    from pybtex.exceptions import PybtexError
    tmp = tempfile.mkdtemp(prefix='verif-c16-')
    sanitize = lambda s: s.replace(tmp, 'TMPDIR')  # noqa: E731
    try:
        run = _computation(case, tmp)
        out = {}
        # capture
        with fresh_errors(True) as (errors, buf):
            exc = None
            collected = []
            try:
                with errors.capture() as collected:
                    run()
            except BaseException as x:  # noqa
                exc = x
            if want == 'specs':
                return ([spec_of_exception(e, sanitize) for e in collected],
                        spec_of_exception(exc, sanitize) if isinstance(exc, PybtexError) else None)
            out['capture'] = {'collected': [render_record(e, ERROR, sanitize) for e in collected],
                              'raised': _raised(exc, sanitize),
                              'restored': errors.captured_errors is None and errors.strict is True and errors.error_code == 0}
            warn = [_call(lambda e=e: errors.format_error(e, WARNING)) for e in collected]
            out['_warnings'] = [sanitize(w) if isinstance(w, str) else w for w in warn]
            out['_stderr_capture'] = sanitize(_take(buf))
        # non-strict
        with fresh_errors(False) as (errors, buf):
            exc = None
            try:
                run()
            except BaseException as x:  # noqa
                exc = x
            out['nonstrict'] = {'stderr': sanitize(_take(buf)), 'code': errors.error_code, 'raised': _raised(exc, sanitize)}
        # strict
        with fresh_errors(True) as (errors, buf):
            exc = None
            try:
                run()
            except BaseException as x:  # noqa
                exc = x
            out['strict'] = {'stderr': sanitize(_take(buf)), 'raised': _raised(exc, sanitize)}
            out['_strict_code'] = errors.error_code
        # command line
        with fresh_errors(True) as (errors, buf):
            from pybtex.cmdline import CommandLine

            class Cmd(CommandLine):
                prog = 'c16'
                args = ''
                num_args = 0
                options = ()

                def run(self):
                    run()
            sys.argv = ['c16']
            status = 'no-exit'
            try:
                Cmd()()
            except SystemExit as x:
                status = x.code
            except BaseException as x:  # noqa
                status = _kind(x)
            out['cmdline'] = {'stderr': sanitize(_take(buf)), 'status': status}
        return out
    finally:
        shutil.rmtree(tmp, ignore_errors=True)


# ----------------------------------------------------------------------------------------------
# errclasses
# ----------------------------------------------------------------------------------------------

_CLASSES = None
FOREIGN_EXPECTED = ['BibTeXNameFormatError', 'SkipEntry']


def source_classes():
    """(PybtexError subclasses, other exception classes) defined anywhere in the package."""
    global _CLASSES
    if _CLASSES is None:
        import inspect
        import pybtex
        from pybtex.exceptions import PybtexError
        problems = []
        for m in pkgutil.walk_packages(pybtex.__path__, 'pybtex.'):
            try:
                importlib.import_module(m.name)
            except BaseException as x:  # noqa
                problems.append('%s: %s' % (m.name, type(x).__name__))
        errs, foreign = set(), set()
        for name, mod in list(sys.modules.items()):
            if not (name == 'pybtex' or name.startswith('pybtex.')) or mod is None:
                continue
            for v in list(vars(mod).values()):
                if inspect.isclass(v) and issubclass(v, BaseException) and (v.__module__ or '').startswith('pybtex'):
                    (errs if issubclass(v, PybtexError) else foreign).add(v.__name__)

        def subs(c):
            for s in c.__subclasses__():
                yield s
                for t in subs(s):
                    yield t
        for c in subs(PybtexError):
            if (c.__module__ or '').startswith('pybtex'):
                errs.add(c.__name__)
        errs.add('PybtexError')
        _CLASSES = (sorted(errs), sorted(foreign), problems)
    return _CLASSES


# ----------------------------------------------------------------------------------------------
# impl / request / model_out
# ----------------------------------------------------------------------------------------------

def impl(case):
    op = case['op']
    if op == 'errhist':
        return {'with': _run_with(case), 'manual': _run_manual(case)}
    if op == 'errrender':
        try:
            e, later = build_error(case['e'], case.get('fn_bytes', False))
        except BaseException as x:  # noqa
            return {'construct': _kind(x)}
        rec = render_record(e, case['prefix'])
        later()
        rec['stable'] = render_record(e, case['prefix']) == {k: v for k, v in rec.items()}
        return rec
    if op == 'errclasses':
        errs, foreign, problems = source_classes()
        return {'errors': errs, 'foreign': foreign, 'import_problems': problems}
    if op == 'errmodes':
        return _run_modes(case)
    if op == 'fmtchars':
        from pybtex.bibtex.names import NameFormat
        from pybtex.scanner import PybtexSyntaxError
        try:
            nf = NameFormat('{' + case['value'] + '}')
            part = nf.parts[0]
            nf.format('von Last, Jr, First')
            return {'ok': [part.format_char, part.abbreviate]}
        except PybtexSyntaxError as x:
            return type(x).__name__
        except BaseException as x:  # noqa
            return _kind(x)
    raise ValueError(op)


def to_request(case):
    if case['op'] == 'errmodes':
        reports, fatal = _run_modes(case, want='specs')
        return {'op': 'errmodes', 'reports': reports, 'fatal': fatal}
    if case['op'] == 'errrender':
        return {'op': 'errrender', 'e': case['e'], 'prefix': case['prefix']}
    return case


def _join(texts):
    if all(isinstance(t, str) for t in texts):
        return ''.join(t + '\n' for t in texts)
    return texts


def model_out(case, reply):
    op = case['op']
    out = reply.get('out')
    if op == 'errhist':
        return {'with': out, 'manual': out}
    if op == 'errrender':
        if isinstance(out, dict) and 'unmodelled' not in out:
            out = dict(out, stable=True)
        return out
    if op == 'errclasses':
        return {'errors': sorted(out), 'foreign': FOREIGN_EXPECTED, 'import_problems': []}
    if op == 'errmodes':
        if 'unmodelled' in out:
            return out
        res = {'capture': out['capture'],
               'nonstrict': dict(out['nonstrict'], stderr=_join(out['nonstrict']['stderr'])),
               'strict': dict(out['strict'], stderr=_join(out['strict']['stderr'])),
               'cmdline': dict(out['cmdline'], stderr=_join(out['cmdline']['stderr'])),
               # non-strict mode prints every report: its warnings are the WARNING renderings of what capture collects
               '_warnings': out['nonstrict']['stderr'], '_stderr_capture': '', '_strict_code': 0}
        return res
    if op == 'fmtchars':
        return out
    return out


# ----------------------------------------------------------------------------------------------
# oracle
# ----------------------------------------------------------------------------------------------

def _has_fail(x):
    if isinstance(x, dict):
        return 'fail' in x or 'construct' in x or any(_has_fail(v) for v in x.values())
    if isinstance(x, list):
        return any(_has_fail(v) for v in x)
    return isinstance(x, str) and x.startswith('INTERNAL:')


def _oracle_hist(case, res, spec, style):
    fails = []
    ops = case['ops']
    reports = [(i, op['k']) for i, op in enumerate(ops) if op['o'] == 'report']
    got = []
    for i, k in reports:
        o = res['trace'][i]['obs']
        if o == 'collected':
            got.append('collected')
        elif isinstance(o, dict) and 'printed' in o:
            got.append({'printed': k})
        elif isinstance(o, dict) and 'raised' in o and 'printed_too' not in o:
            got.append({'raised': o['raised']})
        else:
            got.append(o)
    for n, ((i, k), a, b) in enumerate(zip(reports, got, spec['reports'])):
        if a != b:
            fails.append('report_by_mode: [%s] report #%d (operation %d, error %d): expected %r by nesting depth and strict flag, observed %r' % (
                style, n, i, k, b, a))
            break
    if res['lists'] != spec['lists']:
        fails.append('capture_collects: [%s] lists yielded by the contexts (in order of entering) %r, expected %r (each context '
                     'collects exactly the reports made directly in its body; an enclosing context goes on collecting)' % (
                         style, res['lists'], spec['lists']))
    if spec['balanced']:
        fin = res['final']
        if fin[2] is not None:
            fails.append('capture_restores: [%s] every context has been left but captured_errors is %r, not None' % (style, fin[2]))
        if fin[0] != spec['strict']:
            fails.append('capture_restores: [%s] strict is %r after the history, the last set_strict_mode made it %r' % (style, fin[0], spec['strict']))
        if fin[1] != spec['code']:
            fails.append('error_code: [%s] error_code is %r, expected %r (2 iff a warning was printed)' % (style, fin[1], spec['code']))
    codes = [0] + [t['st'][1] for t in res['trace']]
    if any(b < a for a, b in zip(codes, codes[1:])):
        fails.append('error_code_monotone: [%s] error_code went down: %r' % (style, codes))
    if _has_fail(res):
        fails.append('foreign_exception: [%s] a non-pybtex exception was observed: %r' % (style, [t['obs'] for t in res['trace'] if _has_fail(t['obs'])][:2]))
    return fails


def _shape(rec, prefix):
    ctx, s, fn = rec['context'], rec['str'], rec['filename']
    lines = (ctx.splitlines() if ctx else []) + [prefix + s]
    if fn:
        lines = ['%s: %s' % (fn, l) for l in lines]
    return '\n'.join(lines)


def _oracle_render(rec, prefix, wf, what):
    fails = []
    if 'construct' in rec:
        return ['render_total: %s: the constructor raised %s' % (what, rec['construct'])]
    bad = [k for k in ('str', 'context', 'filename', 'format') if isinstance(rec[k], dict)]
    if bad:
        if wf:
            fails.append('render_total: %s: %s raised %r' % (what, '/'.join(bad), [rec[k]['fail'] for k in bad]))
        return fails
    if rec['format'] != _shape(rec, prefix):
        fails.append('render_shape: %s: format_error is %r but context lines + prefix + message (+ file name) give %r' % (
            what, rec['format'], _shape(rec, prefix)))
    if rec.get('stable') is False:
        fails.append('location_stable: %s: the rendering changed after the parser / .aux context moved on' % what)
    return fails


def oracle(case, impl_out, reply):
    op = case['op']
    spec = reply.get('spec')
    fails = []
    if op == 'errhist':
        for style in ('with', 'manual'):
            fails += _oracle_hist(case, impl_out[style], spec, style)
        return fails
    if op == 'errrender':
        wf = True if spec is None else spec.get('wf', True)
        return _oracle_render(impl_out, case['prefix'], wf, '%s instance' % case['e']['cls'])
    if op == 'errclasses':
        extra = [c for c in impl_out['foreign'] if c not in FOREIGN_EXPECTED]
        if extra:
            fails.append('foreign_exception: exception classes that are not pybtex errors are defined in the package: %r' % extra)
        return fails
    if op == 'fmtchars':
        if isinstance(impl_out, str) and impl_out.startswith('INTERNAL:'):
            fails.append('foreign_exception: name format "{%s}" raised %s instead of a pybtex error' % (case['value'], impl_out))
        return fails
    if op == 'errmodes':
        cap, ns, st, cl = impl_out['capture'], impl_out['nonstrict'], impl_out['strict'], impl_out['cmdline']
        wf = True if spec is None else spec.get('wf', True)
        for n, rec in enumerate(cap['collected']):
            fails += _oracle_render(rec, ERROR, wf, 'problem #%d (%s)' % (n, rec['cls']))
        for name, r in (('capture', cap['raised']), ('non-strict', ns['raised']), ('strict', st['raised']), ('command line', cl['status'])):
            if _has_fail(r):
                fails.append('foreign_exception: %s mode ended with %r' % (name, r))
        if fails:
            return fails
        warn = impl_out['_warnings']
        n = len(warn)
        if ns['stderr'] != ''.join(w + '\n' for w in warn):
            fails.append('mode_independent: non-strict mode printed %r; capture mode collected %d problems rendering as %r' % (ns['stderr'], n, warn))
        if ns['code'] != (2 if n else 0):
            fails.append('mode_independent: %d problems but error_code is %r in non-strict mode' % (n, ns['code']))
        if ns['raised'] != cap['raised']:
            fails.append('mode_independent: fatal error differs: capture %r, non-strict %r' % (cap['raised'], ns['raised']))
        first = cap['collected'][0]['format'] if n else cap['raised']
        if st['raised'] != first:
            fails.append('mode_independent: strict mode raised %r, the first problem of capture mode is %r' % (st['raised'], first))
        if st['stderr'] or impl_out['_strict_code'] != 0 or impl_out['_stderr_capture']:
            fails.append('mode_independent: strict / capture mode wrote to stderr or changed error_code: %r %r %r' % (
                st['stderr'], impl_out['_strict_code'], impl_out['_stderr_capture']))
        if not cap['restored']:
            fails.append('capture_restores: module state not restored after the capture context was left')
        expected_status = 1 if cap['raised'] is not None else (2 if n else 0)
        if cl['status'] != expected_status:
            fails.append('exit_status: command line exit status %r, expected %r (%d problems, fatal: %r)' % (cl['status'], expected_status, n, cap['raised']))
        if spec is not None and (spec['status'] != expected_status or len(spec['collected']) != n):
            fails.append('exit_status: reference status %r for %d problems, implementation shows %r for %d' % (
                spec['status'], len(spec['collected']), expected_status, n))
        expect = EXPECT.get((case['kind'], case['text']))
        if expect is not None:
            got = [[r['cls'], _lineno_of(r)] for r in cap['collected']]
            if cap['raised'] is not None:
                got.append(['FATAL', None])
            if got != expect:
                fails.append('same_problems: expected problems %r, capture mode collected %r' % (expect, got))
        return fails
    return fails


def _lineno_of(rec):
    m = re.search(r'in line (\d+)', rec['str']) if isinstance(rec['str'], str) else None
    return int(m.group(1)) if m else None


# ----------------------------------------------------------------------------------------------
# bookkeeping
# ----------------------------------------------------------------------------------------------

def buckets(case, impl_out):
    op = case['op']
    if op == 'errhist':
        d = 0
        mx = 0
        for o in case['ops']:
            d += 1 if o['o'] == 'enter' else -1 if o['o'] in ('exit', 'abort') else 0
            mx = max(mx, d)
        return ['errhist:depth=%d' % mx, 'errhist:abort' if any(o['o'] == 'abort' for o in case['ops']) else 'errhist:no-abort']
    if op == 'errrender':
        return ['errrender:' + case['e']['cls']]
    if op == 'errmodes':
        n = len(impl_out['capture']['collected']) if isinstance(impl_out, dict) and 'capture' in impl_out else -1
        fatal = isinstance(impl_out, dict) and impl_out.get('capture', {}).get('raised') is not None
        return ['errmodes:%s:problems=%s%s' % (case['kind'], min(n, 3), '+fatal' if fatal else '')]
    return [op]


def nontrivial(case, impl_out):
    op = case['op']
    if op == 'errhist':
        seen_enter = False
        for o in case['ops']:
            if o['o'] == 'enter':
                seen_enter = True
            if o['o'] == 'report' and seen_enter:
                return True
        return False
    if op == 'errrender':
        return isinstance(impl_out, dict) and bool(impl_out.get('context') or impl_out.get('filename'))
    if op == 'errmodes':
        return isinstance(impl_out, dict) and 'capture' in impl_out and (
            bool(impl_out['capture']['collected']) or impl_out['capture']['raised'] is not None)
    return True


def _wf_info(i):
    if i['kind'] == 'scanner':
        return i['lineno'] is None or 1 <= i['lineno'] <= len(i['text'].splitlines(True))
    s = i['start'] or 0
    return s < i['pos'] and s < len(i['text'])


def valid_case(case):
    op = case.get('op')
    if op == 'errhist':
        if _depth_profile(case['ops']) != 0:
            return False
        return all(o['o'] != 'report' or 0 <= o['k'] < len(case['errs']) for o in case['ops'])
    if op == 'errrender':
        e = case['e']
        if e['cls'] == 'TokenRequired':
            return _wf_info(e['info'])
        return True
    if op == 'errmodes':
        return case['kind'] != 'plugin' or '|' in case['text']
    if op == 'fmtchars':
        return bool(case['value']) and case['value'].isascii() and case['value'].isalpha()
    return True


def corpus():
    return corpus_for(ID)


# ----------------------------------------------------------------------------------------------
# generators
# ----------------------------------------------------------------------------------------------

TR_INFO = {'kind': 'lowLevel', 'text': '@article{k,\n  title x\n}\n', 'start': 0, 'lineno': 2, 'pos': 20}


def _err_for(k):
    if k % 3 == 0:
        return {'cls': 'PybtexError', 'msg': 'problem %d' % k, 'filename': None}
    if k % 3 == 1:
        return {'cls': 'BibliographyDataError', 'msg': 'problem %d' % k, 'filename': 'file %d.bib' % k}
    return {'cls': 'TokenRequired', 'description': "token %d" % k, 'filename': 'in.bib', 'info': TR_INFO}


def _hist_case(strict0, names):
    """names: sequence over enter/exit/abort/report/T/F (prefix-balanced); closes the open contexts."""
    ops = []
    k = 0
    d = 0
    for n in names:
        if n == 'report':
            ops.append({'o': 'report', 'k': k})
            k += 1
        elif n in ('T', 'F'):
            ops.append({'o': 'strict', 'b': n == 'T'})
        else:
            ops.append({'o': n})
            d += 1 if n == 'enter' else -1
    ops += [{'o': 'exit'}] * d
    return {'op': 'errhist', 'strict0': strict0, 'errs': [_err_for(i) for i in range(k)], 'ops': ops}


ALPHABET = ['enter', 'exit', 'abort', 'report', 'T', 'F']


def _all_histories(maxlen):
    out = []

    def rec(prefix, d):
        out.append(list(prefix))
        if len(prefix) == maxlen:
            return
        for a in ALPHABET:
            if a in ('exit', 'abort'):
                if d == 0:
                    continue
                rec(prefix + [a], d - 1)
            elif a == 'enter':
                rec(prefix + [a], d + 1)
            else:
                rec(prefix + [a], d)
    rec([], 0)
    return out


def _random_history(rng):
    n = rng.randint(6, 40)
    names, d = [], 0
    for _ in range(n):
        a = rng.choice(['enter', 'enter', 'exit', 'abort', 'report', 'report', 'report', 'T', 'F'])
        if a in ('exit', 'abort') and d == 0:
            a = 'report'
        if a == 'enter' and d >= 6:
            a = 'exit'
        d += 1 if a == 'enter' else -1 if a in ('exit', 'abort') else 0
        names.append(a)
    return _hist_case(rng.random() < 0.5, names)


MSGS = ['', 'm', 'two words', 'line1\nline2', 'caf\u00e9 \u2013 \u20ac', "q'uote\"s", 'tab\there', 'ends with newline\n', 'a\r\nb\x0cc\u2028d']
FILES = [None, '', 'a.bib', 'dir/\u00e4 b.aux', 'x: y']
LINENOS = [None, 0, 1, 7, 12345]
PREFIXES = [ERROR, WARNING, '']


def _render(e, prefix=ERROR, fn_bytes=False):
    c = {'op': 'errrender', 'prefix': prefix, 'e': e}
    if fn_bytes:
        c['fn_bytes'] = True
    return c


def _texts(alphabet, maxlen):
    for n in range(1, maxlen + 1):
        for t in itertools.product(alphabet, repeat=n):
            yield ''.join(t)


def _token_required_cases(alphabet, maxlen):
    cases = []
    for text in _texts(alphabet, maxlen):
        nlines = len(text.splitlines(True))
        for lineno in [None] + list(range(1, nlines + 1)):
            for pos in range(0, len(text) + 2):
                cases.append(_render({'cls': 'TokenRequired', 'description': "'='", 'filename': None,
                                      'info': {'kind': 'scanner', 'text': text, 'start': None, 'lineno': lineno, 'pos': pos}}))
        for start in [None] + list(range(0, len(text))):
            for pos in range((start or 0) + 1, len(text) + 2):
                cases.append(_render({'cls': 'TokenRequired', 'description': 'a valid name', 'filename': 'f.bib',
                                      'info': {'kind': 'lowLevel', 'text': text, 'start': start, 'lineno': 1 + (pos % 3), 'pos': pos}}))
    return cases


WS_CODES = [9, 10, 11, 12, 13, 28, 29, 30, 31, 32, 133, 160, 5760, 8192, 8193, 8194, 8195, 8196, 8197, 8198, 8199, 8200, 8201, 8202,
            8232, 8233, 8239, 8287, 12288]


def _grid_cases():
    cases = [{'op': 'errclasses'}]
    for cls in ('PybtexError', 'BibliographyDataError', 'BibTeXError', 'ConvertError'):
        for m in MSGS:
            for f in FILES:
                for p in PREFIXES:
                    cases.append(_render({'cls': cls, 'msg': m, 'filename': f}, p))
                if f:
                    cases.append(_render({'cls': cls, 'msg': m, 'filename': f}, ERROR, fn_bytes=True))
    keys = ['k', 'Key 1', '', 'a\nb', 'caf\u00e9']
    for k in keys:
        for f in ['title', 'AUTHOR', '', 'x y']:
            cases.append(_render({'cls': 'DuplicateField', 'key': k, 'field': f}))
    for c in list(range(256)) + WS_CODES + [0x2013, 0x20ac, 0x1f600, 0xe9]:
        cases.append(_render({'cls': 'InvalidNameString', 'name': 'a,b,' + chr(c) + ',d'}))
    for n in ['', 'a, b, c, d', "it's", 'say "x"', "it's \"x\"", 'back\\slash', 'Doe, Jr, J, X']:
        for p in PREFIXES:
            cases.append(_render({'cls': 'InvalidNameString', 'name': n}, p))
    for g in ['pybtex.backends', 'pybtex.backends.suffixes', 'x.suffixes', '', 'no such group', '.suffixes']:
        cases.append(_render({'cls': 'PluginGroupNotFound', 'group': g}))
        for n in ['foo', '.foo', '', '.', 'a.b', '..suffixes']:
            cases.append(_render({'cls': 'PluginNotFound', 'group': g, 'name': n}))
    for f in ['title', '', 'a b']:
        for ek in [{'kind': 'missing'}, {'kind': 'none'}, {'kind': 'key', 'key': 'knuth84'}, {'kind': 'key', 'key': ''},
                   {'kind': 'key', 'key': 'a\nb'}]:
            cases.append(_render({'cls': 'FieldIsMissing', 'field': f, 'entry': ek}))
    for cls in ('PybtexSyntaxError', 'UndefinedMacro', 'PrematureEOF', 'UnbalancedBraceError'):
        for a in (MSGS if cls != 'PrematureEOF' else [None]):
            for f in FILES:
                for ln in LINENOS:
                    e = {'cls': cls, 'filename': f, 'lineno': ln}
                    if a is not None:
                        e['arg'] = a
                    cases.append(_render(e, ERROR))
                    if f and ln == 7:
                        cases.append(_render(e, WARNING, fn_bytes=True))
    for m in MSGS:
        for f in FILES:
            for ln in LINENOS:
                for line in [None, '', '\\bibstyle{x}', '\u00fcn\u00ef \\citation{a}', 'a\x0cb']:
                    cases.append(_render({'cls': 'AuxDataError', 'msg': m, 'filename': f, 'lineno': ln, 'line': line}))
    return cases


def _rand_str(rng, alphabet, lo, hi):
    return ''.join(rng.choice(alphabet) for _ in range(rng.randint(lo, hi)))


RAND_ALPHA = 'ab {}@,="\\\'\n\r\t\x0c\u00e9\u2013:.'


def _random_render(rng):
    cls = rng.choice(['PybtexError', 'BibliographyDataError', 'BibTeXError', 'ConvertError', 'DuplicateField', 'InvalidNameString',
                      'PluginGroupNotFound', 'PluginNotFound', 'FieldIsMissing', 'PybtexSyntaxError', 'UndefinedMacro',
                      'PrematureEOF', 'UnbalancedBraceError', 'TokenRequired', 'TokenRequired', 'TokenRequired', 'AuxDataError'])
    s = lambda lo=0, hi=12: _rand_str(rng, RAND_ALPHA, lo, hi)  # noqa: E731
    fn = rng.choice([None, '', s(1, 8), 'refs.bib'])
    ln = rng.choice([None, 0, rng.randint(1, 500)])
    prefix = rng.choice(PREFIXES)
    if cls in ('PybtexError', 'BibliographyDataError', 'BibTeXError', 'ConvertError'):
        e = {'cls': cls, 'msg': s(), 'filename': fn}
    elif cls == 'DuplicateField':
        e = {'cls': cls, 'key': s(), 'field': s(0, 6)}
    elif cls == 'InvalidNameString':
        e = {'cls': cls, 'name': s(0, 16)}
    elif cls == 'PluginGroupNotFound':
        e = {'cls': cls, 'group': s()}
    elif cls == 'PluginNotFound':
        e = {'cls': cls, 'group': rng.choice([s(), s() + '.suffixes']), 'name': rng.choice([s(), '.' + s()])}
    elif cls == 'FieldIsMissing':
        e = {'cls': cls, 'field': s(0, 6), 'entry': rng.choice([{'kind': 'missing'}, {'kind': 'none'}, {'kind': 'key', 'key': s()}])}
    elif cls in ('PybtexSyntaxError', 'UndefinedMacro', 'UnbalancedBraceError'):
        e = {'cls': cls, 'arg': s(), 'filename': fn, 'lineno': ln}
    elif cls == 'PrematureEOF':
        e = {'cls': cls, 'filename': fn, 'lineno': ln}
    elif cls == 'AuxDataError':
        e = {'cls': cls, 'msg': s(), 'filename': fn, 'lineno': ln, 'line': rng.choice([None, '', s(1, 20)])}
    else:
        text = s(1, 40)
        if rng.random() < 0.5:
            nl = len(text.splitlines(True))
            info = {'kind': 'scanner', 'text': text, 'start': None, 'lineno': rng.choice([None] + list(range(1, nl + 1))),
                    'pos': rng.randint(0, len(text) + 1)}
        else:
            start = rng.choice([None, rng.randint(0, len(text) - 1)])
            info = {'kind': 'lowLevel', 'text': text, 'start': start, 'lineno': rng.choice([None, rng.randint(1, 9)]),
                    'pos': rng.randint((start or 0) + 1, len(text) + 1)}
        e = {'cls': cls, 'description': s(0, 8), 'filename': fn, 'info': info}
    c = _render(e, prefix)
    if fn and rng.random() < 0.2 and 'filename' in e:
        c['fn_bytes'] = True
    return c


GOOD_BIB = '''@string{jan = "January"}
@article{knuth84,
  author = "Knuth, Donald E. and Doe, John",
  title = {Literate {P}rogramming},
  journal = cj # " extra",
  year = 1984,
  month = jan,
}
@book(lamport94,
  author = {Leslie Lamport},
  title = "LaTeX",
  year = {1994}
)
@comment{ignored}
@preamble{"\\newcommand{\\x}{y}"}
'''.replace('cj # ', '')

MODE_CASES = [
    # (kind, text, expected [(class, line)] + optional FATAL)
    ('bib', '@article{k, title = foo}', [['UndefinedMacro', 1]]),
    ('bib', '@article{k,\n title = {a},\n TITLE = {b},\n year = 1}', [['DuplicateField', None]]),
    ('bib', '@article{k, title={a}}\n@book{k, title={b}}\n@misc{K, title={c}}', [['BibliographyDataError', None], ['BibliographyDataError', None]]),
    ('bib', '@article{k, author = {a, b, c, d and e, f, g, h}}', [['InvalidNameString', None], ['InvalidNameString', None]]),
    ('bib', '@article{k, title = {unbalanced}\n\n@book{ok, title = {fine}}', [['TokenRequired', 3]]),
    ('bib', '@article{k,\n  title x\n}\n', [['TokenRequired', 2]]),
    ('bib', '@article{k, title = "never closed', [['PrematureEOF', 1]]),
    ('bib', '@article{k, title = {a}}}\n@article', [['PrematureEOF', 2]]),
    ('bib', '@article{k, title = abc, year = def}\n@string{x = y}\n@misc{m, note = x # z}', [['UndefinedMacro', 1], ['UndefinedMacro', 1], ['UndefinedMacro', 2], ['UndefinedMacro', 3]]),
    ('bib', '@article{a, title = t1}\r\n@article{a, title = t2,\r\n title = t3}\r\n@ {', [['UndefinedMacro', 1], ['UndefinedMacro', 2], ['UndefinedMacro', 3], ['DuplicateField', None], ['BibliographyDataError', None], ['TokenRequired', 4]]),
    ('bib', GOOD_BIB, []),
    ('bib', '', []),
    ('bibfile', '@article{k, title = foo}\n@book{k,\n x = 1,\n x = 2}\n', [['UndefinedMacro', 1], ['DuplicateField', None], ['BibliographyDataError', None]]),
    ('aux', '\\relax\n\\citation{a}\n\\citation{A}\n\\bibstyle{plain}\n\\bibstyle{alpha}\n\\bibdata{refs}\n\\bibdata{more}\n',
     [['AuxDataError', 3], ['AuxDataError', 5], ['AuxDataError', 7]]),
    ('aux', '\\relax\n\\bibstyle{plain}\n\\bibstyle{alpha}\n', [['AuxDataError', 3], ['FATAL', None]]),
    ('aux', '\\bibstyle{plain}\n\\bibdata{refs}\n\\citation{x,y}\n', []),
    ('aux', '', [['FATAL', None]]),
    ('bst', 'ENTRY { title } { } { label }\nFUNCTION {x} { #1 }\n', []),
    ('bst', 'ENTRY { title }\nBOGUS {x}\n', [['FATAL', None]]),
    ('bst', 'FUNCTION {x} { "abc }\n', [['FATAL', None]]),
    ('bst', 'FUNCTION {x', [['FATAL', None]]),
    ('name', 'Doe, Jr, John, Extra', [['InvalidNameString', None]]),
    ('name', 'von Beethoven, Ludwig', []),
    ('namefmt', '{ff~}{vv~}{ll}{, jj}', []),
    ('namefmt', '{ff~}{', [['FATAL', None]]),
    ('namefmt', '{fx}', [['FATAL', None]]),
    ('namefmt', '}', [['FATAL', None]]),
    ('plugin', 'pybtex.backends|no-such-backend', [['FATAL', None]]),
    ('plugin', 'pybtex.backends|.foo', [['FATAL', None]]),
    ('plugin', 'pybtex.nonsense|x', [['FATAL', None]]),
    ('plugin', 'pybtex.backends|latex', []),
]

EXPECT = {(k, t): e for k, t, e in MODE_CASES}   # known answers for the hand-made inputs (looked up by the exact text)

BIB_BASES = [GOOD_BIB,
             '@article{a, author = {A, B and C, D}, title = {T}, year = 2000}\n@book{b, title = "x" # jan, crossref = {a}}\n',
             '@misc{m1, note = {n}}\n@misc{m2, note = {o}}\n@misc{m1, note = {p}}\n']
AUX_BASES = ['\\relax\n\\citation{a}\n\\citation{b,c}\n\\bibstyle{plain}\n\\bibdata{refs,more}\n',
             '\\citation{Key}\n\\citation{key}\n\\bibstyle{a}\n\\bibdata{r}\n\\bibstyle{b}\n']
BST_BASES = ['ENTRY { title author } { } { label }\nINTEGERS { n }\nFUNCTION {f} { #1 \'n := "s" write$ }\nREAD\nITERATE {f}\n']
CORRUPT = '{}"@#=,()\\ \n%'


def _corrupt(rng, text, n):
    t = list(text)
    for _ in range(n):
        r = rng.random()
        i = rng.randrange(len(t) + 1)
        if r < 0.4 and t:
            del t[min(i, len(t) - 1)]
        elif r < 0.8:
            t.insert(i, rng.choice(CORRUPT))
        elif t:
            j = rng.randrange(len(t))
            t[min(i, len(t) - 1)], t[j] = t[j], t[min(i, len(t) - 1)]
    return ''.join(t)


def _random_modes(rng):
    r = rng.random()
    if r < 0.55:
        return {'op': 'errmodes', 'kind': rng.choice(['bib', 'bib', 'bib', 'bibfile']), 'text': _corrupt(rng, rng.choice(BIB_BASES), rng.randint(1, 6))}
    if r < 0.75:
        lines = rng.choice(AUX_BASES).split('\n')
        for _ in range(rng.randint(0, 3)):
            lines.insert(rng.randrange(len(lines)), rng.choice(['\\bibstyle{x}', '\\bibdata{y}', '\\citation{A}', '\\citation{a}', '\\relax', '']))
        if rng.random() < 0.3 and lines:
            del lines[rng.randrange(len(lines))]
        return {'op': 'errmodes', 'kind': 'aux', 'text': '\n'.join(lines)}
    if r < 0.88:
        return {'op': 'errmodes', 'kind': 'bst', 'text': _corrupt(rng, rng.choice(BST_BASES), rng.randint(1, 4))}
    if r < 0.94:
        return {'op': 'errmodes', 'kind': 'name', 'text': _rand_str(rng, 'ab, {}~-', 0, 12)}
    return {'op': 'errmodes', 'kind': 'namefmt', 'text': _rand_str(rng, 'fFvljx{}~ ,.', 0, 8)}


def gen_cases(tier, rng, info):
    quick = tier == 'quick'
    cases = []
    n_hist = 5 if quick else 7
    hs = _all_histories(n_hist)
    for names in hs:
        for strict0 in (True, False):
            cases.append(_hist_case(strict0, names))
    grid = _grid_cases()
    cases += grid
    tr = _token_required_cases(['a', '\n', '\r', '\x0c'] if quick else ['a', ' ', '\n', '\r', '\x0c', '\u2028'], 4 if quick else 4)
    cases += tr
    letters = ['f', 'F', 'l', 'j', 'v', 'V', 'g']
    fm = [{'op': 'fmtchars', 'value': ''.join(t)} for n in (1, 2, 3) for t in itertools.product(letters, repeat=n)]
    cases += fm
    for kind, text, expect in MODE_CASES:
        cases.append({'op': 'errmodes', 'kind': kind, 'text': text})
    info['exhaustive'] = True
    info['scope'] = ('errhist: all %d prefix-balanced histories of <=%d operations over %r (closed with the missing exits) x 2 start modes; '
                     'errrender: %d grid instances over all %d classes + %d TokenRequired instances = every in-range parser state of every text '
                     'of <=4 characters over the tier alphabet, both get_error_context implementations; fmtchars: all %d letter strings of <=3 over %r; '
                     'errmodes: %d hand-made inputs with expected problem lists' % (
                         len(hs), n_hist, ALPHABET, len(grid), 15, len(tr), len(fm), letters, len(MODE_CASES)))
    n_rh, n_rr, n_rm = (1500, 4000, 500) if quick else (30000, 60000, 5000)
    for _ in range(n_rh):
        cases.append(_random_history(rng))
    for _ in range(n_rr):
        cases.append(_random_render(rng))
    for _ in range(n_rm):
        cases.append(_random_modes(rng))
    return cases


LEVEL_TEXT = ('Machine-checked proofs (Lean 4) over an executable model of pybtex/errors.py, of the rendering of all 15 error classes '
              '(incl. both get_error_context implementations) and of CommandLine.__call__: rendering is total and has the stated shape for '
              'every error value; the three reporting modes report the same problems in the same order (capture list / warnings + error_code / '
              'first problem raised) with the exit status 0/2/1; leaving capture contexts restores reporting after ANY balanced pattern of '
              'nested and aborted contexts from ANY configuration (frame lemma by induction over the history, all depths), nested contexts '
              'compose, every history refines a reference semantics that only looks at nesting depth and strict flag; error_code is monotone; '
              'error locations are snapshots; BibTeXNameFormatError is unreachable.  The model is tied to the code by a correspondence check: '
              'exhaustive over all operation histories up to a length on the real module (two ways of driving the context managers), every '
              'class enumerated from the source with argument grids and every in-range parser state over small texts, and real inputs '
              'processed in all three modes and through the command-line wrapper.')
LEVEL_NOTE = ('Trusted: Lean kernel; axioms propext/Classical.choice/Quot.sound only; the hand-written model corresponds to the code only as '
              'far as the differential check explores.  Modelled, not verified: str.splitlines separators, repr() of str (exact below U+0100 '
              'and on Unicode spaces), int formatting, decoding of byte file names (done by the harness); stderr plumbing, sys.exit and optparse '
              'are observed only.  A computation is abstracted as a list of reports + optional fatal error: that the parsers make the same '
              'report_error calls in every mode is checked on real inputs (hand-made + randomly corrupted .bib/.aux/.bst), not proved of the '
              'parsers (no parser model here; C10/C15/C20 own those).  TokenRequired rendering is proved for parser states in range '
              '(decidable CtxInfo.WF) - that real parsers only produce such states is checked, not proved.  Contexts are assumed to be left '
              'in LIFO order.  The model follows the tree WITH proposed_fixes C16-1 (capture restores the previous list), C16-2 '
              '(PluginNotFound without assert) and C20-1/2 (AuxDataError); SkipEntry containment is by the shape of one try/except, '
              'carried by the model only as a type-level statement.')
