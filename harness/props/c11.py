"""C11 -- format.name$ formats names as BibTeX does."""
import itertools

import compat  # noqa: F401
from props.base import to_request, corpus_for  # noqa: F401

ID = 'C11'
LEAN_MODULES = ['PybtexModel.Props.C11']
THEOREMS = {
    'C11_matches_spec': 'for EVERY name and format string the model of format_name yields exactly the outcome of the reference rule Spec.formatName (grammar of format strings + formatting rule, transcribed from the property): same string, nesting-limit error exactly where the rule is undefined, syntax error exactly when the format is outside the grammar; never an internal error',
    'C11_malformed_rejected': 'a malformed format string (unbalanced braces, illegal or repeated brace-level-1 letters, "_" at level 1 -- Spec.wellformed, read off the string, twin of the harness predicate) is rejected with a syntax error for every name, never formatted',
    'C11_wellformed_accepted': 'conversely a well-formed format string is accepted by the parser; the only possible error is then the brace-nesting limit',
    'C11_total': 'the model never ends in its internal outcome: parser fuel never exhausted, get_part never fails, BibTeXNameFormatError unreachable, Person(name) fails only with the nesting limit',
    'C11_grammar_roundtrip': 'the grammar read generatively: every format string printed from a well-formed shape (level-0 characters, parts {pre letters {sep} post}) is well-formed, is read back as exactly that shape, and format_name yields the formatting rule applied to the shape itself',
    'C11_level0_verbatim': 'brace-level-0 text is copied verbatim: a brace-free prefix of the format is put in front of what the rest yields',
    'C11_level0_only': 'a format string without braces is returned as it is',
    'C11_part_omitted_when_empty': 'a part whose name part (first+middle / von / last / jr) is empty contributes nothing, not even pre/post text or a tie',
    'C11_part_omitted_iff_empty': '... and only then, as soon as the part has a pre-text, a post-text or (in full form) a non-empty token',
    'C11_part_omitted_iff_empty_full': 'for a person made from a name string (tokens never empty) a part shown in full is omitted iff its name part is empty',
    'C11_full_vs_abbrev': 'ff shows the token, f its hyphen-aware abbreviation (first letter or special character of each hyphen-separated piece joined by ".-" or the explicit separator)',
    'C11_explicit_separator': 'an explicit separator is a plain join of the shown (full or abbreviated) tokens',
    'C11_default_separator': 'default separator: one token as is; two tokens a tie; three or more: tie after the first token iff its text length < 3 else space, spaces between the middle tokens, tie before the last; ".~"/". " when abbreviating',
    'C11_discretionary_tie': 'a single trailing ~ on the post-text adds a tie iff the text length of the formatted part is < 3, else a blank; ~~ always adds a tie; errors unchanged',
    'C11_discretionary_tie_no_letters': 'a part without letters: its text acts as post-text, with the same tie directives',
}
RULE = ('name shapes of the C04 generator (<= tier token count, comma forms) x every format of <= 2 name parts from the grammar '
        '{letters f l v j single/double in both cases, pre-text, post-text with ./~/~~, explicit separator} + level-0 text; '
        'every string up to the tier length over {{ }} f l x ~ space _ 1} as (mostly malformed) format; seeded random names and formats; '
        'non-trivial = format with a name part and a name with more than one token; distinct by case JSON')
TRUSTED = ['letters are ASCII in the model', 'name splitting is the C04 model, string primitives the C12 model']
ASSUMPTIONS = ['names and formats contain no non-ASCII letters or digits']

NAMES = ['Charles Louis Xavier Joseph de la Vall{\\\'e}e Poussin', 'von Beethoven, Jr, Ludwig', 'Smith', 'de la Fontaine, Jean',
         'Jean-Paul Sartre', 'A. B. Cde', '{Barnes and Noble}', "{\\'E}mile Zola", 'Ab Cd', 'X Yz, W', 'John von Neumann',
         'Donald E. Knuth', 'Ford, Jr., Henry', 'a b, c d, e f, g', '', 'Jean de~La Fontaine', 'J.-P. Serre', 'Al Bob Cy Di Eve']
LETTERS = ['f', 'ff', 'l', 'll', 'v', 'vv', 'j', 'jj', 'F', 'FF', 'Ll', 'vV']
PRE = ['', ', ', '{x}', ' ']
POST = ['', '.', '~', '~~', '.~', '{y}~', ' ']
DELIM = [None, '', '-', '{ }', '.']
MAL = ['{', '}', 'f', 'l', 'x', '~', ' ', '_', '1']


def impl(case):
    from pybtex import errors
    from pybtex.bibtex.names import format_name
    try:
        with errors.capture() as captured:
            r = format_name(case['name'], case['fmt'])
        kinds = [type(e).__name__ for e in captured]
        bad = [k for k in kinds if k != 'InvalidNameString']
        if bad:
            return {'error': 'UNEXPECTED-REPORT:' + ','.join(bad)}
        return {'str': r, 'too_many_commas': len(kinds) > 0}
    except Exception as e:  # noqa
        return {'error': compat.pybtex_error_kind(e)}


def model_out(case, reply):
    return reply['out']


def wellformed(fmt):
    """Independent reading of 'malformed': unbalanced braces, or illegal / repeated letters (or a character that is neither
    text nor letter, i.e. '_') at brace level 1."""
    d = 0
    i = 0
    n = len(fmt)
    seen = False
    while i < n:
        c = fmt[i]
        if c == '{':
            d += 1
            if d == 1:
                seen = False
            i += 1
        elif c == '}':
            d -= 1
            if d < 0:
                return False
            i += 1
        elif d == 1 and (c.isalpha() and c.isascii()):
            j = i
            while j < n and fmt[j].isalpha() and fmt[j].isascii():
                j += 1
            run = fmt[i:j].lower()
            if seen or run not in ('f', 'ff', 'l', 'll', 'v', 'vv', 'j', 'jj'):
                return False
            seen = True
            i = j
        elif d == 1 and c == '_':
            return False
        else:
            i += 1
    return d == 0


def oracle(case, io, reply):
    fails = []
    fmt = case['fmt']
    if 'error' in io:
        k = io['error']
        if k.startswith('INTERNAL') or k.startswith('UNEXPECTED'):
            fails.append('malformed_rejected: format_name(%r, %r) raised %s (not a pybtex error)' % (case['name'], fmt, k))
        elif wellformed(fmt) and k != 'BibTeXError':
            fails.append('wellformed_accepted: format_name(%r, %r) raised %s on a well-formed format' % (case['name'], fmt, k))
    else:
        if not wellformed(fmt):
            fails.append('malformed_rejected: format_name(%r, %r) = %r although the format is malformed' % (case['name'], fmt, io['str']))
        spec = reply.get('spec')
        if spec is not None and 'str' in spec and spec['str'] != io['str']:
            fails.append('matches_bibtex: format_name(%r, %r) = %r, BibTeX rule gives %r' % (case['name'], fmt, io['str'], spec['str']))
    return fails


def buckets(case, io):
    if 'error' in io:
        return ['error:' + io['error']]
    b = ['ok']
    if '~' in case['fmt']:
        b.append('tie')
    return b


def nontrivial(case, io):
    return '{' in case['fmt'] and ' ' in case['name']


def corpus():
    return corpus_for(ID)


def _part(letters, pre, post, delim):
    return '{' + pre + letters + ('' if delim is None else '{' + delim + '}') + post + '}'


def gen_cases(tier, rng, info):
    cases = []
    parts = [_part(l, pre, post, d) for l in LETTERS for pre in PRE for post in POST for d in DELIM]
    names = NAMES if tier == 'thorough' else NAMES[:10]
    for name in names:
        for p in parts:
            cases.append({'op': 'fmtname', 'name': name, 'fmt': p})
    std = ['{ff~}{vv~}{ll}{, jj}', '{vv~}{ll}{, jj}{, f.}', '{f.~}{vv~}{ll}{, jj}', '{ll}', 'abc def {f~} xyz {f}?',
           '{{abc}{def}ff~{xyz}{#@$}}', '{f{.}~}', '{vv~}{ll}', '{ff }{vv }{ll}{ jj}', '{l}', '{v{}}{l{}}', '{ll~}x', '{~ll}', '{ll{-}~~}']
    for name in NAMES:
        for f in std:
            cases.append({'op': 'fmtname', 'name': name, 'fmt': f})
    # two-part formats on a few names
    small = [_part(l, pre, post, d) for l in ('f', 'll', 'vv', 'jj') for pre in ('', ', ') for post in ('', '~', '~~') for d in (None, '-')]
    for name in NAMES[:4]:
        for a, b in itertools.product(small, repeat=2):
            cases.append({'op': 'fmtname', 'name': name, 'fmt': a + ' ' + b})
    maxlen = 4 if tier == 'quick' else 5
    nmal = 0
    for n in range(0, maxlen + 1):
        for tup in itertools.product(MAL, repeat=n):
            cases.append({'op': 'fmtname', 'name': 'de la Fontaine, Jr, Jean Paul', 'fmt': ''.join(tup)})
            nmal += 1
    info['exhaustive'] = True
    info['scope'] = ('%d one-part formats x %d names; %d standard formats x %d names; %d two-part formats x 4 names; all %d format strings '
                     'of length <=%d over %r' % (len(parts), len(names), len(std), len(NAMES), len(small) ** 2, nmal, maxlen, MAL))
    import props.c04 as c04
    pool = list(c04.TOKENS.values()) + ['de', 'la', 'Jr.', 'A.', 'x', 'Al', 'Jean-Paul', '{\\relax von}']
    fpool = LETTERS + PRE + POST + ['{', '}', '{', '}', ' ', ', ', '.', '-', 'and', '{-}', '{.}', '_', '12', '{{a}}', '~']
    for _ in range(3000 if tier == 'quick' else 60000):
        name = ''.join(rng.choice(pool) + rng.choice([' ', ' ', '~', ', ']) for _ in range(rng.randint(1, 6)))
        if rng.random() < 0.5:
            fmt = ''.join(_part(rng.choice(LETTERS), rng.choice(PRE), rng.choice(POST), rng.choice(DELIM)) + rng.choice(['', ' ', 'x '])
                          for _ in range(rng.randint(1, 4)))
        else:
            fmt = ''.join(rng.choice(fpool) for _ in range(rng.randint(1, 8)))
        cases.append({'op': 'fmtname', 'name': name, 'fmt': fmt})
    return cases


LEVEL_TEXT = ('Machine-checked proof (Lean 4): for EVERY name and EVERY format string the executable model of format_name '
              '(NameFormatParser, NamePart, join, tie_or_space, bibtex_abbreviate) produces exactly the outcome of an independent reference '
              '(Spec/NameFormat.lean: declarative grammar of format strings -- level-0 text | { verbatim* letters [{sep}] verbatim* } -- and the '
              'formatting rule on the parsed shape, transcribed clause by clause from the property), incl. the error classes; malformed formats '
              '(a predicate read directly off the string) are rejected and well-formed ones accepted; the model is total (no internal outcome). '
              'Clause theorems (level-0 text, omitted parts, full/abbreviated, explicit/default separator, discretionary ties) are stated on the '
              'model directly. The model AND the reference are tied to the code by the differential check (reference = implementation on every case).')
LEVEL_NOTE = ('Trusted: Lean kernel; axioms propext/Classical.choice/Quot.sound only; the hand-written model (Model/NameFormat.lean, Model/Names.lean, '
              'Model/TeXString.lean) corresponds to pybtex/bibtex/names.py only as far as the differential check explores; letters/digits are ASCII in '
              'the model (the regexes of the code are Unicode-aware); the reference builds on the C04 split of a name (mkPerson) and the C12 primitives '
              '(scan, bibtex_len, split_tex_string on "-"), it does not re-specify them; fidelity of the reference rule to the BibTeX program itself is '
              'by reading (no BibTeX binary to compare with). The format.name$ built-in (name index, memoisation) is covered by C03.')
