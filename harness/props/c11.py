"""C11 -- format.name$ formats names as BibTeX does."""
import itertools

import compat  # noqa: F401
from props.base import corpus_for  # noqa: F401
from props import c11_fns

ID = 'C11'
LEAN_MODULES = ['PybtexModel.Props.C11', 'PybtexModel.Props.C11x']
THEOREMS = {
    'C11_matches_spec': 'for EVERY name and format string the model of format_name yields exactly the outcome of the reference rule Spec.formatName (grammar of format strings + formatting rule, transcribed from the property): same string, nesting-limit error exactly where the rule is undefined, syntax error exactly when the format is outside the grammar; never an internal error',
    'C11_malformed_rejected': 'a malformed format string (unbalanced braces, illegal or repeated brace-level-1 letters, "_" at level 1 -- Spec.wellformed, read off the string, twin of the harness predicate) is rejected with a syntax error for every name, never formatted',
    'C11_wellformed_accepted': 'conversely a well-formed format string is accepted by the parser; the only possible error is then the brace-nesting limit',
    'C11_total': 'the model never ends in its internal outcome: parser fuel never exhausted, get_part never fails, BibTeXNameFormatError unreachable, Person(name) fails only with the nesting limit',
    'C11_grammar_roundtrip': 'the grammar read generatively: every format string printed from a well-formed shape (level-0 characters, parts {pre letters {sep} post}) is well-formed, is read back as exactly that shape, and format_name yields the formatting rule applied to the shape itself',
    'C11_level0_verbatim': 'brace-level-0 text is copied verbatim: a brace-free prefix of the format is put in front of what the rest yields',
    'C11_level0_only': 'a format string without braces is returned as it is',
    'C11_part_omitted_when_empty': 'a part whose name part (first+middle / von / last / jr) is empty contributes nothing, not even pre/post text or a tie',
    'C11_part_omitted_iff_empty': '... and only then, as soon as the part has a pre-text, a post-text or (in full form) a non-empty token',
    'C11_part_omitted_iff_empty_full': 'for a person made from a name string (tokens never empty) a part shown in full is omitted iff its name part is empty',
    'C11_full_vs_abbrev': 'name part with EXACTLY ONE token, post-text not ending in a tie directive "~" (ties: C11_discretionary_tie; more tokens: C11_full_vs_abbrev_tokens): ff gives pre + token + post, f gives pre + abbreviation + post, abbreviation relative to Spec.NameFormat.abbreviate (close to the model; independent for brace-free pieces: C11_hyphen_abbreviation)',
    'C11_explicit_separator': 'for a non-empty name part and a post-text that does not end in a tie directive "~" (ties: C11_discretionary_tie): an explicit separator is a plain join of the shown (full or abbreviated) tokens between pre- and post-text',
    'C11_default_separator': 'for a non-empty name part and a post-text that does not end in a tie directive "~" (ties: C11_discretionary_tie) -- default separator: one token as is; two tokens a tie; three or more: tie after the first token iff its text length < 3 else space, spaces between the middle tokens, tie before the last; ".~"/". " when abbreviating',
    'C11_discretionary_tie': 'a single trailing ~ on the post-text adds a tie iff the text length of the formatted part is < 3, else a blank; ~~ always adds a tie; errors unchanged',
    'C11_discretionary_tie_no_letters': 'a part without letters: its text acts as post-text, with the same tie directives',
    'C11_compositional': 'a well-formed part written in front of ANY format string (well-formed or not) contributes the rule for that part alone (Spec.formatPart) in front of what the rest yields; an error of the rest stays that error: with C11_level0_verbatim, level-0 text and parts at any position follow part by part, without the reference parser',
    'C11_hyphen_abbreviation': 'hyphen-aware abbreviation, independent of the model (own "initial" = first str.isalpha character): a token of hyphen-joined pieces FREE OF HYPHENS AND BRACES (possibly empty) abbreviates to the first letters of its pieces in order, joined by ".-" or the explicit separator, letterless pieces skipped (with braces / special characters: only relative to Spec.NameFormat.abbreviate)',
    'C11_full_vs_abbrev_tokens': 'ANY positive number of tokens, post-text not ending in a tie directive "~" (ties: C11_discretionary_tie): f is ff with every token replaced by its own abbreviation (relative to Spec.NameFormat.abbreviate) and, with the default separator, a period in front of every tie and blank; with an explicit separator only the shown tokens differ',
    'C11_letter_run_lowercasing': 'check_format_chars lower-cases the letter run with str.lower(); the model uses the ASCII lower-casing: both accept exactly the same runs (no character outside ASCII is mapped to f, l, v or j: kernel evaluation over the interpreter\'s regenerated str.lower table), and these are the runs the reference grammar decodes',
    'C11_nth_name': 'n-th name: for names joined by " and " (each balanced, no level-0 " and ", stripped) format.name$ with number k+1 formats exactly the k-th name with format_name; a number outside 1..count gives no-such-name ([model wiring]: first test of the model of the repaired built-in, fix a9f9a7a; carried by the correspondence check); never an internal error',
    'C11_namepart_factored': 'NamePart(format_list).format(person) in the two steps of the code (NamePart.__init__ builds the object -- swap of a lone pre-text, tie from the trailing "~"/"~~", lower-cased letter, abbreviate flag -- then NamePart.format) is the fused model formatPart the clause theorems are stated on, for EVERY person, pre-text, letter run (also runs no parser produces: both end in BibTeXNameFormatError), separator and post-text; hypothesis: the letter run is not the empty string "" (which __init__ treats as None and the fused model does not know)',
    'C11_nameformat_objects': 'NameFormat(format) as an object, for EVERY format string: a syntax error of the parser is the error of the constructor; otherwise the constructor succeeds (BibTeXNameFormatError unreachable) with one Text / NamePart object per parsed part, and formatting ANY person with the objects gives what the fused formatParts gives on the parsed parts',
    'C11_objects_match_fused': 'format_name(name, format) computed through the objects (NameFormat(format).format(name), as the code does it) equals the fused model formatName of the other theorems, for every name and format string',
    'C11_any_person_matches_spec': 'NameFormat(format) applied to ANY person object (five arbitrary token lists: tokens may be empty or contain blanks, commas, unbalanced braces) yields exactly the outcome of the reference rule (Spec grammar + formatPieces) on that person: same string, nesting-limit error exactly where the rule is undefined, syntax error exactly when the format is outside the grammar, never an internal error (C11_matches_spec is the instance person = Person(name))',
    'C11_abbreviate_is_C12': '[model wiring] bibtex_first_letter / bibtex_abbreviate as the C11 model uses them are, for every string and separator, the Unicode-aware primitives of the C12 model (TeXU.bibtexFirstLetterG / bibtexAbbreviateG with the interpreter tables), which C12 ties to pybtex.bibtex.utils at function level and specifies (C12_first_letter_spec)',
    'C11_builtin_through_caches': 'composition with the C18 model of builtins.py (_split_names and _format_name_and_reports behind memoize, FIFO eviction at the regenerated capacity): with split_name_list / format_name instantiated by the C11 models (hypotheses F.splitNames = splitNameList, F.formatOne = c11One), in EVERY cache state satisfying the memoize invariant and under capture() (hypothesis captured = some l), format.name$ returns what the cache-free formatNth says: "" + the no-such-name report outside 1..count; the formatted n-th name with the too-many-commas report iff formatNth has it (hit as miss); the format error with nothing reported (c11One / c11ErrTag: glue defined next to the theorem, tied to the code only through the fmtnth family)',
    'C11_nth_malformed_rejected': 'the built-in never formats with a malformed format string: for EVERY name list and every name number inside 1..count a malformed format (Spec.wellformed = false) ends in a syntax error (not the nesting limit, not internal); a name number outside the range yields no-such-name before the format is looked at, for every format',
    'C11_namepart_repr_partial': 'NamePart.__repr__ followed by the constructor gives back a part that is == (NamePart.__eq__) and has no tie, PROVED for every format list the PARSER can produce (hypothesis PartOk: a legal letter run, or no letters and an empty post-text); outside PartOk it fails (C11_namepart_repr_neg) and is only tested (op c11namepart, key eq_repr)',
    'C11_namepart_repr_neg': '... and not for every format list: NamePart([x, None, None, "~"]) prints as a list that is read back with pre- and post-text swapped (not ==); and __eq__ ignores the tie: {f~} and {f} are == but format a one-letter name as "A~" and "A" (both only matter to the doctests written with them, not to format.name$)',
}
RULE = ('names: the fixed sample, the names of the C04 generator of the same tier (a fixed stride of them, one key format each), the C04 token shapes '
        '(<= 2 tokens over all ASCII and non-ASCII token classes, 3 tokens over a reduced class set, comma forms) x 16 key formats, the C04 Unicode '
        'names and random pool, names with a brace-level-0 backslash, empty / leading / trailing hyphen pieces, tabs, '
        'line breaks and other white space; formats: every one-part format from the grammar {letters f l v j single/double in both cases, pre-text, '
        'post-text with ./~/~~, explicit separator}, two-part formats, standard formats, level-0 text, non-ASCII text, letters and digits in every '
        'position of a part, code points at the boundaries of the interpreter\'s \\w / \\d / isalpha tables, brace nesting up to 1200 levels; '
        'every string up to the tier length over {{ }} f l x ~ space _ 1} and systematic two-run / illegal-run / unbalanced parts as (mostly malformed) '
        'formats; the format.name$ built-in on name lists x name numbers (incl. out of range); seeded random names and formats; '
        'function level: NameFormat(fmt).parts on the format families, NamePart(format_list) over every letter form x pre x separator x post on '
        'person objects given by token lists (empty tokens, blanks, unbalanced and 101-deep braces, non-ASCII), join / tie_or_space, '
        'bibtex_abbreviate, the constants of names.py; '
        'non-trivial = format with a name part and a name with more than one token; distinct by case JSON')
TRUSTED = ['character classes: \\w, \\d (re.UNICODE) and str.isalpha of the running interpreter on single code points, regenerated as range tables '
           'on every run (Gen/FormatChars.lean, Gen/Unicode.lean); the letter run of a format part is lower-cased with the ASCII mapping in the '
           'model: proved to accept the same runs as the single-character str.lower table (C11_letter_run_lowercasing); for the characters whose '
           'lower-case form is several characters (U+0130) the generator of the tables re-checks on every run that none of them contains f, l, v or j',
           'name splitting is the C04 model (mkPerson), scan / bibtex_len / split_tex_string the C12 model']
ASSUMPTIONS = ['/repo carries the proposed repair C11-2 (parse_braced_string iterative: a format whose braces nest some 500 levels deep no longer '
               'ends in RecursionError); on a tree without it the check reports the defect as a violation with a failing input',
               'BibTeX knows 8-bit characters only: beyond ASCII a "letter" of a format string is what the code\'s Unicode-aware patterns say '
               '(word character other than a decimal digit and "_"), the first letter of a name token is str.isalpha']

NAMES = ['Charles Louis Xavier Joseph de la Vall{\\\'e}e Poussin', 'von Beethoven, Jr, Ludwig', 'Smith', 'de la Fontaine, Jean',
         'Jean-Paul Sartre', 'A. B. Cde', '{Barnes and Noble}', "{\\'E}mile Zola", 'Ab Cd', 'X Yz, W', 'John von Neumann',
         'Donald E. Knuth', 'Ford, Jr., Henry', 'a b, c d, e f, g', '', 'Jean de~La Fontaine', 'J.-P. Serre', 'Al Bob Cy Di Eve']
# brace-level-0 backslashes (accents written without braces, as in many real .bib files)
BACKSLASH_NAMES = ["\\'Emile Zola", "Rodr\\'{\\i}guez, Jos\\'e", '\\LaTeX Project Team', '\\~{n}ez \\~n X', 'Zola, \\', '\\ Zola', 'A\\B C\\ D',
                   "d'Aviano Marco", '\\\\ a b', "{\\'E}mile \\'Emile {\\'Emile} Zola", '\\', '{\\} x y']
# hyphens: empty pieces, leading / trailing hyphens, pieces without a letter
HYPHEN_NAMES = ['Jean--Pierre Hansen', '-Jean Pierre- Hansen', 'Jean- -Paul Sartre', '-- Smith', '- Smith', 'A- -B Smith', 'A--B C---D E',
                'Jean-{P}aul Sartre', '{Jean-Paul} Sartre', 'J-1-K Smith', "Jean-\\'Emile Zola", '1-2 3-4 Smith', "Jean-{\\'E}mile Zola",
                'Mary-Jo-Ann van-der-Berg, Jr-III', 'x-y-z a-b c-d', 'Jean - Paul Sartre', 'Jean-Paul-', 'Smith, -', '{-}Jean Paul',
                'Jean-~Paul X', 'F. Phidias Phony-Baloney', 'Jean-Pierre Hansen', 'Ab-Cd Ef Gh', 'A-B C D', 'Jean-Paul Marie-Claire Anne-Sophie Xu',
                'Jean -Paul', '-', '--', 'a-', '-a b']
# white space other than the blank
WS_NAMES = ['Jean\tPaul\nSartre', 'Ludwig\n   van\tBeethoven', 'von\r\nBeethoven,\n Jr, Ludwig', 'A B\x1fC D', '\tJean Paul\n',
            'Jean\x0bPaul\x0cSartre', 'a　b c', 'Jean​Paul Sartre', 'Jean-\nPaul Sartre', 'A\tB', 'A\nB\nC\nD', 'Al Bob~Cy Di',
            'Jean\\ Paul Sartre', 'Jean\\\tPaul Sartre']
# letters outside ASCII in names (the first letter of an abbreviation is str.isalpha)
UNI_NAMES = ['Édouard Manet', '毛 泽东', 'ǅon Bob', 'ⓐl Bob', '²Al Bob', 'école ́x Last', 'İstanbul Ali Veli',
             'ß a B', 'Ⅷ Henry Tudor', '٣Al Bob', 'É-é 毛-泽 Last', "{\\'É}x É{x} Last", 'Жан-Поль Сартр',
             'é éé ééé éééé', '\U0001d400b \U00020000 Z', '1é 2毛 Last', 'ªº Ab', '{é} {毛} Last']
LETTERS = ['f', 'ff', 'l', 'll', 'v', 'vv', 'j', 'jj', 'F', 'FF', 'Ll', 'vV']
PRE = ['', ', ', '{x}', ' ']
POST = ['', '.', '~', '~~', '.~', '{y}~', ' ']
DELIM = [None, '', '-', '{ }', '.']
MAL = ['{', '}', 'f', 'l', 'x', '~', ' ', '_', '1']
KEYFMTS = ['{ff~}{vv~}{ll}{, jj}', '{f.~}{vv~}{ll}{, jj}', '{vv~}{ll}{, jj}{, f.}', '{f{}}{v{}}{l{}}{j{}}', '{ff{-}}/{vv{-}}/{ll{-}}/{jj{-}}',
           '{f}|{v}|{l}|{j}', '{f~}{v~}{l~}{j~}', '{ff~~}{vv~~}{ll~~}{jj~~}', '{1 ff}{2 vv~}{ll 3}{, jj.}', '{f.}{ v.}{ l.}{ j.}',
           '{{a}ff{b}{c}}{{a}f{b}{c}~}', 'Name: {ff }{vv }{ll}{ jj}.', '{ll{, }}{ jj}{ f{.}.}', '{f.~}{ll}', '{, ~}{l.~~}{FF{ }}', '{v.{~}~}{l{.}~}']
STD = ['{ff~}{vv~}{ll}{, jj}', '{vv~}{ll}{, jj}{, f.}', '{f.~}{vv~}{ll}{, jj}', '{ll}', 'abc def {f~} xyz {f}?',
       '{{abc}{def}ff~{xyz}{#@$}}', '{f{.}~}', '{vv~}{ll}', '{ff }{vv }{ll}{ jj}', '{l}', '{v{}}{l{}}', '{ll~}x', '{~ll}', '{ll{-}~~}']
# non-ASCII characters in every position of a format; letters / digits as the interpreter's regexes class them
UNI_FMTS = ['{é}', '{ff é}', '{fé}', '{éf}', '{ff²}', '{ff٣}', '{٣ff}', '{ff½}', '{KK}', '{ſ}', '{İ}',
            '{ﬀ}', '{f́}', '{f }', '{Ⅷ}', '{ff{é}}', '{{é}ff}', 'é{ff}毛', '{ff{毛}·}', '{·ff、}',
            '{f·~}', '{ff²~}', '{ll ٣٤}', '{٣ ll}', '{ff１}', '{ｆｆ}', '{Ｆ}', '{ƒ}', '{ⓕ}', '{ffⓐ}',
            '{ff①}', '{φφ}', '{ff~é}', '²{ll}½', '{lı}', '{ı}', '{ff_é}', '{é_}', '{̀ff}', '{ff‍}',
            '{\U0001d41f\U0001d41f}', '{fİ}', '{İf}', '{ſſ}', '{Σf}', '{fΣ}', '{ffΣ}', '{ǅ}', '{ßß}', '{ff\U0001d7d8}', '{\U0001d7d8ll}', '{ff }', '{ ff　}', '{jj๐}', '{᧚}', '{ff᧚}', '{vv〇}']
# the illegal-run / second-run / unbalanced formats, systematically (quick tier already)
RUNS2 = ['f', 'ff', 'l', 'LL', 'v', 'jj', 'x', 'fl', 'fff', 'fF', 'Ff', 'lf', 'a', 'ab', 'fj', 'vvv', 'F', 'Jj']
JOINERS = [' ', '~', '1', '.', '{x}', '{}', '-', ', ', '12', '_', '{', '}', '{f}', 'é', '²', '٣']
UNBALANCED = ['{ff', 'ff}', '{ff}}', '{{ff}', '{ff{}', '{ff{-}', '{ff{-}}}', '{ff{', '{ff{{}', '{{}ff', '{ff}{', '}{ff}', '{ff}{ll', '{ff{-}{', '{ff{-}{}',
              '{{ff}}', '{{{ff}}}', '{{}}', '{}', '{}{}', '{{}', '{}}', 'a}', 'a{', '{a', '{ff}a}', '{ff}{{}', '{f}{f}{f', '{ff~', '{~', '{ ', '{1', '{_', '{_}', '_',
              '{f}_', '{f_}', '{_f}', '{f{_}}', '{{_}f}', '{f}{_}', '{ff{}{}}', '{ff{}{}{}~}', '{ff{a}{b}}', '{{a}{b}ff}', '{{a}b}', '{1{a}2}', '{1{a}2~}']


def _interp():
    from pybtex.bibtex.interpreter import Interpreter
    return Interpreter(None, 'utf-8')


def names_of(case):
    return ' and '.join(case['parts'])


def impl(case):
    from pybtex import errors
    if case['op'] in c11_fns.FN_OPS:
        return c11_fns.impl(case)
    if case['op'] == 'fmtnth':
        return _impl_nth(case)
    from pybtex.bibtex.names import format_name
    try:
        with errors.capture() as captured:
            r = format_name(case['name'], case['fmt'])
        kinds = [type(e).__name__ for e in captured]
        bad = [k for k in kinds if k != 'InvalidNameString']
        if bad:
            return {'error': 'UNEXPECTED-REPORT:' + ','.join(bad)}
        return {'str': r, 'too_many_commas': len(kinds) > 0}
    except Exception as e:  # noqa
        return {'error': compat.pybtex_error_kind(e)}


def _impl_nth(case):
    """The format.name$ built-in as a style run executes it: operands on the stack of a real Interpreter, the function looked up in its
    variable table (pybtex.bibtex.builtins.format_name -> _format_name -> memoised _format_name_and_reports / _split_names)."""
    from pybtex import errors
    try:
        i = _interp()
        i.push(names_of(case))
        i.push(case['n'])
        i.push(case['fmt'])
        with errors.capture() as captured:
            i.vars['format.name$'].execute(i)
        if len(i.stack) != 1 or not isinstance(i.stack[0], str):
            return {'error': 'UNEXPECTED-STACK:%r' % (i.stack,)}
        r = i.stack[0]
        kinds = [type(e).__name__ for e in captured]
        warns = [e for e in captured if type(e).__name__ == 'BibTeXError']
        bad = [k for k in kinds if k not in ('InvalidNameString', 'BibTeXError')]
        if bad:
            return {'error': 'UNEXPECTED-REPORT:' + ','.join(bad)}
        if warns:
            if len(warns) != 1 or len(kinds) != 1 or r != '' or 'there is no name number' not in str(warns[0]):
                return {'error': 'UNEXPECTED-REPORT:' + ','.join(kinds)}
            return {'no_such_name': True}
        return {'str': r, 'too_many_commas': len(kinds) > 0}
    except Exception as e:  # noqa
        return {'error': compat.pybtex_error_kind(e)}


def _simple_part(p):
    """A name that certainly is ONE element of the list when joined with ' and ': not blank, balanced braces, no brace-level-0
    ' and ' (also not at its ends, where the joining blanks would complete one)."""
    if not p.strip():
        return False
    d = 0
    proj = []
    for c in p:
        if c == '{':
            d += 1
        elif c == '}':
            d -= 1
            if d < 0:
                return False
        proj.append(c if d == 0 and c not in '{}' else '#')
    if d != 0:
        return False
    return ' and ' not in (' ' + ''.join(proj).lower() + ' ')


def nth_by_construction(case):
    parts, n = case['parts'], case['n']
    if not all(_simple_part(p) for p in parts):
        return None
    if 1 <= n <= len(parts):
        return parts[n - 1]
    return False        # the list has no name number n


def to_request(case):
    if case['op'] != 'fmtnth':
        return case
    req = {'op': 'fmtnth', 'names': names_of(case), 'n': case['n'], 'fmt': case['fmt']}
    nth = nth_by_construction(case)
    if isinstance(nth, str):
        req['nth'] = nth
    return req


def valid_case(case):
    if case.get('op') in c11_fns.FN_OPS:
        return c11_fns.valid_case(case)
    if case.get('op') == 'fmtnth':
        return isinstance(case.get('parts'), list) and all(isinstance(p, str) for p in case['parts']) and isinstance(case.get('n'), int)
    return isinstance(case.get('name'), str) and isinstance(case.get('fmt'), str)


def model_out(case, reply):
    return reply['out']


def _is_letter(c):
    """a brace-level-1 letter as the format grammar reads it: a word character (\\w = alphanumeric or '_') other than a decimal
    digit and '_' -- stated with the str predicates, independently of the regexes of names.py and of the tables of the model"""
    return c.isalnum() and not c.isdecimal()


def wellformed(fmt):
    """Independent reading of 'malformed': unbalanced braces, or illegal / repeated letters (or a character that is neither
    text nor letter, i.e. '_') at brace level 1."""
    d = 0
    i = 0
    n = len(fmt)
    seen = False
    while i < n:
        c = fmt[i]
        if c == '{':
            d += 1
            if d == 1:
                seen = False
            i += 1
        elif c == '}':
            d -= 1
            if d < 0:
                return False
            i += 1
        elif d == 1 and _is_letter(c):
            j = i
            while j < n and _is_letter(fmt[j]):
                j += 1
            run = fmt[i:j].lower()
            if seen or run not in ('f', 'ff', 'l', 'll', 'v', 'vv', 'j', 'jj'):
                return False
            seen = True
            i = j
        elif d == 1 and c == '_':
            return False
        else:
            i += 1
    return d == 0


def oracle(case, io, reply):
    if case['op'] in c11_fns.FN_OPS:
        return c11_fns.oracle(case, io, reply, wellformed)
    fails = []
    fmt = case['fmt']
    nth = None
    if case['op'] == 'fmtnth':
        call = 'format.name$(%r, %d, %r)' % (names_of(case), case['n'], fmt)
        nth = nth_by_construction(case)
    else:
        call = 'format_name(%r, %r)' % (case['name'], fmt)
    if 'error' in io:
        k = io['error']
        if k.startswith('INTERNAL') or k.startswith('UNEXPECTED'):
            fails.append('%s: %s raised %s (not a pybtex error)' % ('wellformed_accepted' if wellformed(fmt) else 'malformed_rejected', call, k))
        elif wellformed(fmt) and k != 'BibTeXError':
            fails.append('wellformed_accepted: %s raised %s on a well-formed format' % (call, k))
        elif nth is False:
            fails.append('nth_name: %s raised %s; a list of %d names has no name number %d (BibTeX warns and yields the empty string)' % (
                call, k, len(case['parts']), case['n']))
    elif 'no_such_name' in io:
        if isinstance(nth, str):
            fails.append('nth_name: %s found no name number %d in a list of %d names' % (call, case['n'], len(case['parts'])))
    else:
        if nth is False:
            fails.append('nth_name: %s = %r without a warning although a list of %d names has no name number %d' % (
                call, io['str'], len(case['parts']), case['n']))
        elif not wellformed(fmt):
            fails.append('malformed_rejected: %s = %r although the format is malformed' % (call, io['str']))
        spec = reply.get('spec')
        if spec is not None and 'str' in spec and spec['str'] != io['str']:
            if case['op'] == 'fmtnth':
                fails.append('nth_name: %s = %r, the BibTeX rule on name number %d (%r) gives %r' % (call, io['str'], case['n'], nth, spec['str']))
            else:
                fails.append('matches_bibtex: %s = %r, BibTeX rule gives %r' % (call, io['str'], spec['str']))
    return fails


def buckets(case, io):
    b = [case['op']]
    if case['op'] in c11_fns.FN_OPS and case['op'] not in ('c11parts', 'c11person'):
        return b
    if 'error' in io:
        return b + ['error:' + io['error']]
    if 'no_such_name' in io:
        return b + ['no_such_name']
    b.append('ok')
    if '~' in case['fmt']:
        b.append('tie')
    text = case['fmt'] + (case.get('name') or ''.join(case.get('parts', [])) or ''.join(t for sl in c11_fns.SLOTS for t in case.get(sl, [])))
    if not text.isascii():
        b.append('non-ascii')
    return b


def nontrivial(case, io):
    if case['op'] in c11_fns.FN_OPS:
        return case['op'] != 'c11consts' and ('{' in case.get('fmt', '{') and len(case.get('words', 'xx')) > 1)
    if case['op'] == 'fmtnth':
        return '{' in case['fmt'] and len(case['parts']) > 0
    return '{' in case['fmt'] and ' ' in case['name']


def corpus():
    return corpus_for(ID)


def _part(letters, pre, post, delim):
    return '{' + pre + letters + ('' if delim is None else '{' + delim + '}') + post + '}'


def _c04():
    import props.c04 as c04
    return c04


def _shape_names(tier):
    """names from the C04 token shapes: every shape of <= 2 tokens over ALL token classes (ASCII and non-ASCII), 3 tokens over a reduced
    class set; blank-separated; without comma, with a comma after the first token, (3 tokens) also von-Last, Jr, First form"""
    c04 = _c04()
    alltok = dict(c04.TOKENS)
    alltok.update(getattr(c04, 'UTOKENS', {}))
    classes = list(alltok)
    out = []
    for n in (1, 2):
        for cl in itertools.product(classes, repeat=n):
            toks = [alltok[c] for c in cl]
            out.append(' '.join(toks))
            if n == 2:
                out.append(toks[0] + ', ' + toks[1])
    reduced = [c for c in ('Cap', 'low', 'caseless', 'hyph', 'spL', 'uCap', 'cjk', 'circL') if c in alltok]
    if tier == 'quick':
        reduced = reduced[:6]
    for cl in itertools.product(reduced, repeat=3):
        toks = [alltok[c] for c in cl]
        out.append(' '.join(toks))
        out.append(toks[0] + ' ' + toks[1] + ', ' + toks[2])
        out.append(toks[0] + ', ' + toks[1] + ', ' + toks[2])
    return out


def _table_boundaries():
    """code points at and next to the boundaries of the interpreter's isalnum / isdecimal / isalpha ranges"""
    out = set()
    for pred in (str.isalnum, str.isdecimal, str.isalpha):
        prev = False
        for cp in range(0x110000):
            ok = not (0xD800 <= cp <= 0xDFFF) and pred(chr(cp))
            if ok != prev:
                out.update((cp - 1, cp))
            prev = ok
    return sorted(c for c in out if 0 < c < 0x110000 and not 0xD800 <= c <= 0xDFFF)


def gen_cases(tier, rng, info):
    cases = []
    quick = tier == 'quick'

    def add(name, fmt):
        cases.append({'op': 'fmtname', 'name': name, 'fmt': fmt})

    parts = [_part(l, pre, post, d) for l in LETTERS for pre in PRE for post in POST for d in DELIM]
    names = NAMES if not quick else NAMES[:10]
    for name in names:
        for p in parts:
            add(name, p)
    for name in NAMES:
        for f in STD:
            add(name, f)
    # two-part formats on a few names
    small = [_part(l, pre, post, d) for l in ('f', 'll', 'vv', 'jj') for pre in ('', ', ') for post in ('', '~', '~~') for d in (None, '-')]
    for name in NAMES[:4]:
        for a, b in itertools.product(small, repeat=2):
            add(name, a + ' ' + b)
    maxlen = 4 if quick else 5
    nmal = 0
    for n in range(0, maxlen + 1):
        for tup in itertools.product(MAL, repeat=n):
            add('de la Fontaine, Jr, Jean Paul', ''.join(tup))
            nmal += 1
    # systematic malformed parts: two letter runs with every kind of text between them, illegal runs, unbalanced braces
    nsys = 0
    for a in RUNS2:
        for j in JOINERS:
            for b in (RUNS2 if not quick else RUNS2[:8]):
                add('de la Fontaine, Jr, Jean Paul', '{' + a + j + b + '}')
                nsys += 1
        for pre in ('', '1', '{x}', ' '):
            for post in ('', '~', '{-}', '{-}.~'):
                add('Jean Paul Sartre', '{' + pre + a + post + '}')
                nsys += 1
    for f in UNBALANCED:
        for name in ('de la Fontaine, Jr, Jean Paul', ''):
            add(name, f)
            add(name, 'x' + f + '{ll}')
            nsys += 2
    # the name families the property quantifies over x the formats that exercise every letter, separator and tie form
    edge = BACKSLASH_NAMES + HYPHEN_NAMES + WS_NAMES + UNI_NAMES + list(getattr(_c04(), 'UNICODE_NAMES', []))
    red = [_part(l, pre, post, d) for l in ('f', 'ff', 'l', 'll', 'v', 'vv', 'j', 'jj') for pre in ('', ', ', '{x}')
           for post in ('', '.', '~', '.~') for d in (None, '', '-')]
    if not quick:
        red = parts
    for name in edge:
        for f in red + KEYFMTS + STD:
            add(name, f)
    shapes = _shape_names(tier)
    shapefmts = KEYFMTS if quick else KEYFMTS + STD
    for name in shapes:
        for f in shapefmts:
            add(name, f)
    # the C04 generator itself (same tier): its names -- token shapes x comma placements x separators, exhaustive short strings, noisy
    # Unicode names, table-boundary tokens -- each with one of the key formats in rotation (a deterministic stride bounds the number)
    import random
    c04cases = [c['s'] for c in _c04().gen_cases(tier, random.Random(rng.random()), {}) if c.get('op') == 'person' and isinstance(c.get('s'), str)]
    cap = 25000 if quick else 250000
    stride = max(1, -(-len(c04cases) // cap))
    nc04 = 0
    for i, name in enumerate(c04cases[::stride]):
        add(name, KEYFMTS[i % len(KEYFMTS)])
        nc04 += 1
    # non-ASCII text, letters and digits in the format
    uninames = ['Al Bob Cy', 'de la Fontaine, Jr, Jean Paul', 'Édouard van Beneden', '毛 泽东', 'A B C D', '']
    for f in UNI_FMTS:
        for name in uninames:
            add(name, f)
    # the tables themselves: code points at the boundaries of the interpreter's classes (and random ones) as post-text, pre-text,
    # separator, level-0 text, letter run; and as the first character of a name token
    bounds = _table_boundaries()
    frames_f = ['{ff%s}', '{%sff}', '{ff{%s}}', '%s{ll}', '{%s}', '{f%s~}', '{1%s2}']
    frames_n = ['%sx Last', 'A%s Last', '1%s Last', '%s-%s Last', '{%s}x Last']
    for _ in range(1500 if quick else 40000):
        cp = rng.choice(bounds) if rng.random() < 0.7 else rng.choice([rng.randint(0x80, 0x2FFF), rng.randint(0x80, 0xFFFF), rng.randint(0x10000, 0x323AF)])
        if 0xD800 <= cp <= 0xDFFF:
            continue
        ch = chr(cp)
        if rng.random() < 0.6:
            add(rng.choice(['Al Bob Cy', 'A B']), rng.choice(frames_f).replace('%s', ch))
        else:
            add(rng.choice(frames_n).replace('%s', ch), rng.choice(['{f.~}{ll}', '{f{}}{l{}}', '{ff~}{vv~}{ll}']))
    # brace nesting: verbatim text nested far deeper than any Python recursion limit; the nesting limit of the string primitives (100)
    # applies only where the text length is asked for (discretionary tie, three or more tokens)
    ndeep = 0
    for d in ([1, 5, 99, 100, 101, 300, 600, 1200] if quick else [1, 2, 5, 50, 98, 99, 100, 101, 102, 200, 300, 400, 500, 600, 800, 1000, 1200, 2500]):
        g = '{' * d + 'x' + '}' * d
        for f in ('{' + g + 'ff}', '{' + g + 'ff~}', '{ff{' + g + '}}', '{ff' + g + '}', '{ff ' + g + '~}', '{' + g + '}', '{' + g + '~}', '{ff' + '{' * d + '}' * (d - 1) + '}',
                  'a' + g, '{ff{' + g + '}}{ll' + g + '}'):
            for name in ('Al Bob', 'Al Bob Cy Di'):
                add(name, f)
                ndeep += 1
        for name in ('A' + g + ' Bob', g + ' ' + g + ' ' + g + ' Z', 'a' + g + ' B'):
            add(name, '{ff~}{vv~}{ll}')
            add(name, '{f.~}{ll}')
            ndeep += 2
    # the format.name$ built-in: name lists x name numbers (in and out of range) x formats
    listpool = NAMES + BACKSLASH_NAMES[:4] + HYPHEN_NAMES[:6] + WS_NAMES[:4] + UNI_NAMES[:6] + ['{Barnes and Noble}', 'Smith, and', 'others', 'Anderson', 'Land and', 'and']
    nnth = 0
    lists = [[], [''], ['Smith'], ['A B', 'C D'], ['A B', 'C D', 'E F'], ['von Beethoven, Jr, Ludwig', '{Barnes and Noble}', 'Jean-Paul Sartre', 'others'],
             ['a b, c d, e f, g', 'Smith'], ['Smith', 'a b, c d, e f, g'], ['A', 'A', 'A'], ['Armand', 'anderssen'], [' A ', '\tB\n'], ['', 'A', '']]
    for pl in lists:
        for n in range(-1, len(pl) + 3):
            for f in ('{ff~}{vv~}{ll}{, jj}', '{f.~}{ll}', '{ll', ''):
                cases.append({'op': 'fmtnth', 'parts': pl, 'n': n, 'fmt': f})
                nnth += 1
    for _ in range(1500 if quick else 30000):
        pl = [rng.choice(listpool) for _ in range(rng.randint(0, 5))]
        n = rng.choice([rng.randint(1, max(1, len(pl))), rng.randint(1, max(1, len(pl))), rng.randint(-1, len(pl) + 2)])
        cases.append({'op': 'fmtnth', 'parts': pl, 'n': n, 'fmt': rng.choice(KEYFMTS + STD + ['{ll', '{ff}}', '{fl}', 'et al.'])})
        nnth += 1
    info['exhaustive'] = True
    info['scope'] = ('%d one-part formats x %d names; %d standard formats x %d names; %d two-part formats x 4 names; all %d format strings '
                     'of length <=%d over %r; %d systematic two-run / illegal-run / unbalanced formats; %d edge names (level-0 backslash, hyphen pieces, '
                     'white space, non-ASCII) x %d formats; %d C04 shape names x %d formats; %d names of the C04 generator (every %d-th of its %d) x one key '
                     'format each; %d non-ASCII formats x %d names; %d nested-brace cases; '
                     '%d format.name$ built-in cases (%d systematic lists x every name number)' % (
                         len(parts), len(names), len(STD), len(NAMES), len(small) ** 2, nmal, maxlen, MAL, nsys, len(edge), len(red + KEYFMTS + STD),
                         len(shapes), len(shapefmts), nc04, stride, len(c04cases), len(UNI_FMTS), len(uninames), ndeep, nnth, len(lists)))
    c04 = _c04()
    apool = list(c04.TOKENS.values()) + ['de', 'la', 'Jr.', 'III', '{\\relax van}', 'd\'Aviano', '{', '}', '\\', '~', ',', ' ', '  ', 'and', '{{\\LaTeX}}',
                                         '\\~{n}', 'A.', 'x', 'Al', 'Jean-Paul', '{\\relax von}', "\\'E", '-', '--', 'J-', '-K', '1-2', '\t', '\n', 'Ab', 'Abc']
    upool = apool + list(getattr(c04, 'UTOKENS', {}).values()) + list(getattr(c04, 'UPOOL', []))
    fpool = LETTERS + PRE + POST + ['{', '}', '{', '}', ' ', ', ', '.', '-', 'and', '{-}', '{.}', '_', '12', '{{a}}', '~']
    ufpool = fpool + ['é', '²', '٣', '毛', '·', ' ', '{é}', 'ｆ', 'Ⅷ']
    for i in range(6000 if quick else 120000):
        pl = apool if i % 2 else upool
        name = ''.join(rng.choice(pl) + rng.choice([' ', ' ', '~', ', ', '', '-']) for _ in range(rng.randint(1, 6)))
        if rng.random() < 0.01:
            name += '{' * rng.choice([99, 100, 101]) + 'x' + '}' * 100
        r = rng.random()
        if r < 0.5:
            fmt = ''.join(_part(rng.choice(LETTERS), rng.choice(PRE), rng.choice(POST), rng.choice(DELIM)) + rng.choice(['', ' ', 'x '])
                          for _ in range(rng.randint(1, 4)))
        elif r < 0.6:
            fmt = rng.choice(KEYFMTS + STD)
        else:
            fmt = ''.join(rng.choice(ufpool if i % 4 == 0 else fpool) for _ in range(rng.randint(1, 8)))
        add(name, fmt)
    # function-level correspondence: the classes and helpers of names.py one by one (props/c11_fns.py)
    cases += c11_fns.gen(tier, rng, info, {
        'parts': parts, 'STD': STD, 'KEYFMTS': KEYFMTS, 'UNI_FMTS': UNI_FMTS, 'UNBALANCED': UNBALANCED, 'RUNS2': RUNS2, 'JOINERS': JOINERS,
        'MAL': MAL, 'PRE': PRE, 'POST': POST, 'DELIM': DELIM, 'fpool': fpool, 'ufpool': ufpool, 'tokens': sorted(set(upool)),
        'names': NAMES + BACKSLASH_NAMES + HYPHEN_NAMES + WS_NAMES + UNI_NAMES})
    return cases


LEVEL_TEXT = ('Machine-checked proof (Lean 4): for EVERY name and EVERY format string the executable model of format_name '
              '(NameFormatParser, NamePart, join, tie_or_space, bibtex_abbreviate) produces exactly the outcome of an independent reference '
              '(Spec/NameFormat.lean: declarative grammar of format strings -- level-0 text | { verbatim* letters [{sep}] verbatim* } -- and the '
              'formatting rule on the parsed shape, transcribed clause by clause from the property), incl. the error classes; malformed formats '
              '(a predicate read directly off the string) are rejected and well-formed ones accepted; the model is total (no internal outcome). '
              'Clause theorems (level-0 text, omitted parts, full/abbreviated for one and for any number of tokens, explicit/default separator, '
              'discretionary ties) are stated on the model directly; a compositional theorem (a well-formed part in front of ANY format string '
              'contributes the rule for that part alone) gives level-0 text and parts at any position without the reference parser; hyphen-aware '
              'abbreviation is stated on tokens written as hyphen-joined pieces (initials of the pieces in order, letterless pieces skipped); the '
              'format.name$ built-in formats exactly the n-th name of a list written with " and ". Letters are the running interpreter\'s Unicode '
              'classes in model and reference. The model AND the reference are tied to the code by the differential check (reference = '
              'implementation on every case). The classes of names.py are also modelled as objects (NamePart.__init__ / NamePart.format / '
              'NameFormat.__init__ separately, Model/NameFormatFns.lean), proved equal to the fused model on everything the parser produces, '
              'and the rule is proved for ANY person object (arbitrary token lists), not only for Person(name); the abbreviation primitive is '
              'proved to be the C12 one; the built-in through the two memoize caches of builtins.py (C18 model) is proved to return what the '
              'cache-free n-th-name model returns.')
LEVEL_NOTE = ('Trusted: Lean kernel; axioms propext/Classical.choice/Quot.sound only; the hand-written model (Model/NameFormat.lean, '
              'Model/NameFormatChars.lean, Model/Names.lean, Model/TeXString.lean) corresponds to pybtex/bibtex/names.py only as far as the '
              'differential check explores; the character classes of the format grammar (\\w, \\d) and of the first letter of a token (isalpha) are '
              'the running interpreter\'s tables, regenerated on every run; the reference builds on the C04 split of a name (mkPerson) and the C12 '
              'primitives (scan, bibtex_len, split_tex_string on "-"), it does not re-specify them; in particular the reference abbreviation '
              '(Spec.NameFormat.abbreviate / firstLetter) is a near-transcription of the model\'s bibtex_abbreviate / bibtex_first_letter '
              '(same split at "-", scan, filter and join; find? instead of explicit recursion), so for tokens WITH braces or special '
              'characters C11_matches_spec says little that is independent about the "first letter or special character" rule -- the '
              'independent statements are C11_hyphen_abbreviation (brace-free pieces, own "initial") and, for the primitives, '
              'C12_first_letter_spec / C12_split_leftmost; the clause-by-clause theorems C11_full_vs_abbrev, C11_explicit_separator, '
              'C11_default_separator, C11_full_vs_abbrev_tokens are about ONE part (formatPart) with a post-text that does not end in a tie '
              'directive (C11_discretionary_tie covers the directives, C11_compositional / C11_level0_verbatim lift parts to format '
              'strings); fidelity of the reference rule to the BibTeX '
              'program itself is by reading (no BibTeX binary or bibtex.web in this environment). Two points of the rule could NOT be checked '
              'against BibTeX and are recorded as unverified: (1) BibTeX\'s enough_text_chars for the tie after the first token may count from the '
              'start of the part (pre-text and the period of an abbreviation included) whereas code and reference count the first token alone -- '
              'observable only with a pre-text before the letters and three or more tokens; (2) BibTeX tokenises names at "-" as well and keeps '
              'the separator per token (name_sep_char), the code keeps hyphenated tokens whole and abbreviates them piecewise -- token counts for '
              'the tie rule may differ on hyphenated names. The format.name$ built-in (name index, memoisation) is driven by the fmtnth family; '
              'operands of other types are covered by C03. Function-level correspondence (props/c11_fns.py): NameFormat(fmt).parts object by '
              'object, NamePart(format_list) with .format(person) / __repr__ / __eq__, NameFormat on person objects given by token lists (the '
              'harness repeats the one join line of NameFormat.format, which itself only takes a name string), join / tie_or_space with '
              'arbitrary tie and space strings, bibtex_abbreviate / bibtex_first_letter, and the constants of names.py the model hard-codes '
              '(op c11consts, every run). Not modelled: to_python (no caller), Text.__repr__, error message texts and positions; '
              'coverage/C11.md has the map.')
