"""C14 -- cross-referenced fields are inherited, own fields win, lookup always terminates."""
import contextlib
import itertools
import re
import signal

import compat  # noqa: F401
from props.base import to_request, corpus_for  # noqa: F401
from props import dbcommon

ID = 'C14'
HANG_CLAUSE = 'terminates'   # check.py: a case that does not return is a failing input of this clause
CASE_TIMEOUT = 60             # wall seconds per case (check.py, SIGALRM); the module's own watchdog counts CPU time (SIGPROF)
LEAN_MODULES = ['PybtexModel.Props.C14', 'PybtexModel.Props.C14x', 'PybtexModel.Props.C14y']
THEOREMS = {
    'C14_own_field_wins': "[model wiring] one unfolding of the model lookup (its first test is the entry's own field table): an own field is returned whatever the database and the visited set; the independent own-first claim is C14_inherits_nearest (the reference asks field, then role, of the entry before any parent)",
    'C14_inherits_nearest': 'a field the entry lacks is seen with the value of the first entry along the cross-reference chain that defines the field or role (model = reference lookup)',
    'C14_person_roles_joined': "[model wiring] one unfolding of the model lookup: when no FIELD of that name hides it, a role the entry has itself is returned as its ' and '-joined persons; the independent claim (own and inherited roles, against the reference lookup) is C14_inherits_nearest",
    'C14_missing_iff': 'a field counts as missing iff no entry along the whole chain defines it',
    'C14_terminates': 'for the model of the REPAIRED code (visited guard, proposed_fixes/C14-1; termination itself is Lean totality of that model, the code is tied to it by the correspondence check on cycles and long chains), every well-formed database and entry: the answer equals a reference walk of ANY length >= |db|+1, a chain/cycle without the field gives missing, at most |db| cross-references are followed',
    'C14_dangling': 'lookup through a dangling reference gives missing, and resolution reports a bad cross-reference for every entry that goes into the bibliography (cited or appended)',
    'C14_engines_agree': '[model wiring] both model paths (Field.value / missing$ and the template field node) are the ONE model lookup in two wrappers: they agree by definition; proved content = that lookup is the reference lookup (C14_inherits_nearest); that both REAL engines go through Entry._find_field with the database is carried by the correspondence check (clause engines_agree)',
    'C14_python_names_partial': 'for a role the entry has ITSELF and no field of that name hides: the model names node returns its persons (conjunct 1: [model wiring], one unfolding of templateNames), and their joined names are the reference lookup and the BST value (via C14_inherits_nearest)',
    'C14_loop_is_recursion': 'for every database (or none), visited set, entry and name: the model of the code as written now (Entry._find_field as a while-loop around the step function _find_crossref_entry; _find_crossref_field = one step + loop) returns what the recursive model findField returns, so every C14 theorem about findField holds of the loop; no hypothesis',
    'C14_loop_inherits_nearest': 'well-formed database and entry: the loop started with the empty visited set equals the reference lookup (C14_loop_is_recursion + C14_inherits_nearest)',
    'C14_step_is_parent': 'well-formed database and entry, nothing visited: _find_crossref_entry succeeds exactly when the reference parent exists, returns that entry and records exactly the lower-cased crossref text; without a database it always raises ([model wiring] for that last conjunct)',
    'C14_visited_only_cuts': 'well-formed database and entry, ANY visited set: (1) what a lookup finds with a visited set it finds with every subset of it; (2) a value _find_field returns with any visited set is the reference value (it may be missing where the reference has one, never another value); (3) the same for _find_crossref_field on an entry that does not define the name itself',
    'C14_constants_match': '[table tie] the constants the model hard-codes (the and-separator of _find_person_field, the field name crossref of _find_crossref_entry / add_entry / the BST variable, the empty default of visited, bib_data=None, min_crossrefs=2) equal the literals regenerated from the source on this run (Gen/C14Consts.lean)',
    'C14_field_node': "well-formed database and entry: the template node field yields the reference value and FieldIsMissing with the message 'missing <name> in <key>' (format string regenerated from the source) exactly when no entry along the chain defines the name; in a context without bib_data it sees the entry's own fields and roles only; it agrees with templateField of C14_engines_agree up to the message",
    'C14_u_inherits_nearest': "NO hypothesis: for every key normaliser (the driver runs str.lower() of the interpreter, so keys / targets / field and role names may be any Unicode text), every database value, entry and name, the loop of the code with the empty visited set equals the reference walk of len(db)+1 entries through entries[crossref] (first entry that defines the name as field or role), and any longer walk gives the same (cycles never change the answer) (what an entry defines = the model's `own`: field, else ' and '-joined role; the role clause itself rests on the ASCII theorems and the differential check)",
    'C14_u_own_missing_dangling': 'every key normaliser, database, entry, name: (1) [model wiring] an own field / role is returned whatever the database and the visited set; (2) without a database only the entry is asked; (3) missing iff no entry of the reference walk defines the name; (4) a crossref to a key the database lacks gives missing when the entry lacks the name, for every visited set',
    'C14_u_visited_only_cuts': 'every key normaliser, database, entry, name, visited set: what a lookup finds with a visited set it finds with every subset of it, and a value returned with any visited set is the reference value (Unicode twin of C14_visited_only_cuts, no hypothesis)',
    'C14_u_is_ascii': "bridge of the two lookup models, NO hypothesis (DbWF not needed): for every ASCII-model database value (or none), visited set, entry, name, the Unicode-generic loop Uni.findFieldLoop run with the ASCII normaliser lower on the translated database / entry (Entry.toU / BibData.toU of Lemmas/CrossrefBridge.lean: the two tables of every container copied, type / wanted / citations dropped) returns what the ASCII loop findFieldLoop and the recursive findField return; _find_crossref_entry and _find_crossref_field commute with the translation likewise (induction over the loop; both models keep the same two tables, so this ties two hand-written models to each other, not a model to the code; lowerPy, the normaliser the driver runs, is NOT related to lower here)",
    'C14_translation_onto': "the translation is onto: toU(toA(x)) = x for every Unicode-model database / entry value (toA: empty entry type, no filter, no citations), so the Unicode-generic loop with lower on ANY UDb value, visited set, entry and name equals the ASCII loop / findField on the values translated back; no hypothesis",
    'C14_inherits_nearest_nohyp': "round-1 inheritance + walk-length independence WITHOUT DbWF / EntryWF: for every BibData value, entry, name, e.findField(name, db) and the loop from the empty visited set equal the reference walk lookupU lower over the translated database (first entry along entries[crossref] defining the name as field or role), and any walk of length >= len(db)+1 gives the same; the reference is lookupU (asks the containers through getItem), not the table-free Spec.lookup of round 1 (that needs DbWF: C14_specs_agree, C14_specs_agree_neg)",
    'C14_specs_agree': "hypotheses DbWF db, EntryWF e: the round-2 reference lookupU lower on the translated database equals the round-1 reference Spec.lookup on db.toS (both equal the one model lookup); so the C14_u_* theorems at norm = lower and the round-1 theorems speak of the same value",
    'C14_specs_agree_neg': "witness: on a BibData value that is not DbWF (key table lost) lookupU and the model lookup find a value that Spec.lookup over toS does not; DbWF in C14_specs_agree cannot be dropped (it is needed by the abstraction toS, not by the lookup)",
    'C14_visited_missing_nohyp': "WITHOUT DbWF / EntryWF, every BibData value, entry, name, visited set: a value the loop returns with ANY visited set is the reference value lookupU lower of the translated database, and the lookup from the empty set is missing iff no entry of the reference walk of len(db)+1 entries defines the name (C14_u_visited_only_cuts / C14_u_own_missing_dangling carried over by C14_u_is_ascii)",
    'C14_loop_hop_bound': "hop bound for the LOOP model, no hypothesis: for every key normaliser, database value, visited set, entry, name, the loop instrumented with a step counter (Uni.findFieldLoopHops, an instrumented COPY of the loop defined in Lemmas/CrossrefBridge.lean; conjunct 1: its value is the loop's value) takes at most len(db) _find_crossref_entry steps, none without a database; at norm = lower its counter equals the round-1 counter findFieldHops on every ASCII-model database, hence findFieldHops <= number of entries for every BibData value and every visited set without DbWF; NOT proved: anything about Python stack depth or about the real code's iteration count (the counter is tied to the code only through the value)",
    'C14_crossref_variable': 'well-formed database and entry: the BST variable crossref (interpreter Crossref.value) is the stored key of the reference parent, and missing exactly when there is no crossref field or the reference dangles (the value behind the oracle clause dangling)',
    'C14_python_names_neg': 'witness: a role (and the year the labels and sort keys read) inherited from the cross-referenced parent is seen by the BibTeX engine and not by the names node / label / sorting styles of the Python engine (finding C14-python-engine-reads-own-persons)',
}
NAMES = ['note', 'howpublished', 'author', 'zz']
RULE = ('exhaustive: every cross-reference graph on <=N entries (keys a, B, c; each crossref in {none, each key, each key in the other '
        'case, dangling}; N=2 quick + a slice of N=3, N=3 thorough) x every assignment of the fields note, howpublished (absent / value / '
        'EMPTY value) and the role author to the entries x every (entry, name) query over %r, observed through Entry._find_field (with and '
        'without bib_data), a generated .bst writing every field or <MISSING>, and the unsrt Python style -- with every entry cited and, '
        'when all references point down the file, with ONLY the first entry cited (min_crossrefs 2: parent read but not appended; 1: '
        'appended); chains and cycles of 300-1000 entries looked up from their first entry; the names / field nodes and the unsrt, plain '
        'and alpha styles of the Python engine on book / inproceedings / misc entries that inherit author, editor, year, title (each '
        'style compared with its own output on the database with the inherited values written out); plus seeded random longer '
        'chains/cycles with mixed-case field names; the methods _find_crossref_entry / _find_field / _find_crossref_field / '
        '_find_person_field called one by one with explicit visited sets (every graph on 2 entries x 10 visited sets, ASCII; and on '
        'databases with non-ASCII keys, targets, field and role names: every pair of spellings of 10 orbits); the template node field '
        'evaluated directly with / without bib_data in the context, raw and through Text.from_latex, with the FieldIsMissing message, '
        'and format_entries with / without bib_data.  non-trivial = some entry has a crossref; distinct by case JSON' % (NAMES,))
TRUSTED = ['str.lower is ASCII in the model of the ops that read .bib text or compose with the C05 database model (findfield, findfield_api, findvisited, findchain, fieldnode, pystyles); the op findvisited_u runs the same lookup methods over the Unicode containers with the whole-string str.lower() of the interpreter (lowerPy, tables regenerated)', "person names are of the form 'Last, First' so that str(Person(name)) == name (name splitting is C04)",
           'the Python engine is observed through the plain-text rendering of the unsrt misc template: the value of note / howpublished '
           'is recognised by a token unique to (entry, field); an empty value shows no token',
           'the Python styles (unsrt, plain, alpha) are not modelled: what they must show for an entry that inherits is what they show for '
           'the same entry with the inherited values written out (the flattening is checked against the Lean reference lookup)']
ASSUMPTIONS = ['field values are ASCII tokens or empty; when observed through an engine every entry is cited explicitly, or only the first '
               'entry of a file whose references all point down the file (so that the filtered reading keeps every entry needed: the C05 '
               'findings about parents that precede their children are about the other case)',
               'the model follows the code with proposed_fixes/C05-2 (dangling reference of an appended parent reported) applied; '
               'proposed_fixes/C14-3 (lookup as a loop) does not change the model: without it chains of about 490 or more '
               'cross-references end in RecursionError (clause terminates)']

BST = r'''ENTRY { note howpublished author zz } {} {}
FUNCTION {show} { "\bibitem{" cite$ * "}" * write$ newline$
  "note=" note missing$ { "<MISSING>" } { note } if$ * write$ newline$
  "howpublished=" howpublished missing$ { "<MISSING>" } { howpublished } if$ * write$ newline$
  "author=" author missing$ { "<MISSING>" } { author } if$ * write$ newline$
  "zz=" zz missing$ { "<MISSING>" } { zz } if$ * write$ newline$
  "crossref=" crossref missing$ { "<MISSING>" } { crossref } if$ * write$ newline$
}
READ
ITERATE {show}
'''
BST_NAMES = ['note', 'howpublished', 'author', 'zz', 'crossref']
PY_NAMES = ['note', 'howpublished']


def _plugins():
    from pybtex.database.input.bibtex import Parser
    from pybtex.style.formatting.unsrt import Style
    from pybtex.style.labels.number import LabelStyle
    from pybtex.style.names.plain import NameStyle
    from pybtex.style.sorting.none import SortingStyle
    return Parser, Style, {'bib_format': Parser, 'label_style': LabelStyle, 'name_style': NameStyle, 'sorting_style': SortingStyle}


class _NoTermination(BaseException):
    """raised by the CPU-time watchdog (not an Exception: nothing in pybtex may swallow it)"""


NO_TERMINATION = 'INTERNAL:NoTermination'
SKIPPED = 'SKIPPED:after-no-termination'      # not run: an earlier lookup of the same case did not terminate (ignored by the oracle)
_STATE = {'timed_out': False, 'count': 0}     # per case / per process


@contextlib.contextmanager
def _cpu_limit(seconds):
    """Run the block with a limit on the CPU time of this process (ITIMER_PROF: independent of the load of the machine).
    A lookup that goes round a cycle for ever -- the clause `terminates` -- ends in _NoTermination instead of hanging the check."""
    def handler(signum, frame):
        raise _NoTermination()
    try:
        old = signal.signal(signal.SIGPROF, handler)
    except ValueError:          # not the main thread: no watchdog
        yield
        return
    signal.setitimer(signal.ITIMER_PROF, seconds)
    try:
        yield
    finally:
        signal.setitimer(signal.ITIMER_PROF, 0)
        signal.signal(signal.SIGPROF, old)


def _lookup(entry, name, bib):
    if bib is not None and _STATE['timed_out']:
        return SKIPPED
    try:
        # a lookup takes microseconds (milliseconds on a chain of a thousand entries); half a second of CPU time is "never".
        # A tree on which lookups have already failed to terminate gets less patience (thousands of cases will do the same).
        with _cpu_limit(0.5 if _STATE['count'] < 3 else 0.05):
            return entry._find_field(name, bib) if bib is not None else entry._find_field(name)
    except KeyError:
        return None
    except _NoTermination:
        _STATE['timed_out'] = True
        _STATE['count'] += 1
        return NO_TERMINATION
    except Exception as e:  # noqa
        return compat.pybtex_error_kind(e)


def _api(text, names):
    from pybtex import errors
    from pybtex.database import parse_string
    try:
        with errors.capture():
            bib = parse_string(text, _plugins()[0])
        with_db = [[e.key, [_lookup(e, n, bib) for n in names]] for e in bib.entries.values()]
        without = [[e.key, [_lookup(e, n, None) for n in names]] for e in bib.entries.values()]
        return with_db, without
    except Exception as e:  # noqa
        k = compat.pybtex_error_kind(e)
        return k, k


def _bst(text, cits, m=2):
    from pybtex import errors
    import pybtex.bibtex
    if _STATE['timed_out']:
        return SKIPPED, SKIPPED
    try:
        with errors.capture() as errs, _cpu_limit(30.0):
            out = pybtex.bibtex.format_from_string(text, dbcommon.bst_path('c14', BST), citations=list(cits), min_crossrefs=m)
        rows = []
        for key, lines in dbcommon.split_bibitems(out):
            vals = {}
            for line in lines:
                n, _, v = line.partition('=')
                if n in BST_NAMES and n not in vals:
                    vals[n] = None if v == '<MISSING>' else v
            rows.append([key, [vals.get(n, 'UNPARSED') for n in BST_NAMES]])
        return rows, [dbcommon.report(e) for e in errs]
    except _NoTermination:
        _STATE['timed_out'] = True
        return NO_TERMINATION, NO_TERMINATION
    except Exception as e:  # noqa
        k = compat.pybtex_error_kind(e)
        return k, k


def tokens(file):
    """field -> {token: value}: every value of note / howpublished in the case (values are unique tokens)"""
    t = {n: set() for n in PY_NAMES}
    for e in file:
        for n, v in e['fields']:
            if n.lower() in t and v:
                t[n.lower()].add(v)
    return t


def _py(text, cits, file, m=2):
    from pybtex import errors
    import pybtex
    if _STATE['timed_out']:
        return SKIPPED, SKIPPED
    try:
        _p, style, kw = _plugins()
        with errors.capture() as errs, _cpu_limit(30.0):
            out = pybtex.format_from_string(text, style, citations=list(cits), min_crossrefs=m,
                                            output_backend=dbcommon.key_backend(), **kw)
        toks = tokens(file)
        rows = []
        for key, lines in dbcommon.split_bibitems(out):
            body = '\n'.join(lines)
            vals = []
            for n in PY_NAMES:
                found = sorted(v for v in toks[n] if v in body)
                vals.append(None if not found else found[0] if len(found) == 1 else 'AMBIGUOUS:%r' % (found,))
            rows.append([key, vals])
        return rows, [dbcommon.report(e) for e in errs]
    except _NoTermination:
        _STATE['timed_out'] = True
        return NO_TERMINATION, NO_TERMINATION
    except Exception as e:  # noqa
        k = compat.pybtex_error_kind(e)
        return k, k


def _api_direct(file, names):
    """The database built from Entry objects with add_entry: no .bib text, so a field and a role may share a name."""
    from pybtex import errors
    from pybtex.database import BibliographyData, Entry, Person
    try:
        bib = BibliographyData()
        with errors.capture():
            for e in file:
                entry = Entry(e['type'], fields=[(n, v) for n, v in e['fields']],
                              persons=[(r, [Person(nm) for nm in names_]) for r, names_ in e['persons']])
                bib.add_entry(e['key'], entry)
        with_db = [[e.key, [_lookup(e, n, bib) for n in names]] for e in bib.entries.values()]
        without = [[e.key, [_lookup(e, n, None) for n in names]] for e in bib.entries.values()]
        return with_db, without
    except Exception as e:  # noqa
        k = compat.pybtex_error_kind(e)
        return k, k


def _guard(f):
    """one call of a lookup method: value, None = KeyError, INTERNAL:<kind>, or NO_TERMINATION"""
    if _STATE['timed_out']:
        return SKIPPED
    try:
        with _cpu_limit(0.5 if _STATE['count'] < 3 else 0.05):
            return f()
    except KeyError:
        return None
    except _NoTermination:
        _STATE['timed_out'] = True
        _STATE['count'] += 1
        return NO_TERMINATION
    except Exception as e:  # noqa
        return compat.pybtex_error_kind(e)


_PRIVATE_API = {}


def _private_api_ok():
    """findvisited / findvisited_u call PRIVATE methods of Entry with an explicit `visited` argument.  Whether the tree under test
    still has those methods with those parameters is decided statically (names and parameter names); if it does not (a
    behaviour-preserving refactoring replaced the step helper by something else), the function-level cases are dropped from the
    comparison and from the oracle: the public behaviour is observed by the other families (findfield, findfield_api, findchain,
    fieldnode, pystyles) on every run."""
    if 'ok' not in _PRIVATE_API:
        import inspect
        from pybtex.database import Entry
        want = {'_find_crossref_entry': ['self', 'name', 'bib_data', 'visited'],
                '_find_field': ['self', 'name', 'bib_data', 'visited'],
                '_find_crossref_field': ['self', 'name', 'bib_data', 'visited'],
                '_find_person_field': ['self', 'role']}
        ok = True
        for meth, params in want.items():
            f = getattr(Entry, meth, None)
            try:
                got = list(inspect.signature(f).parameters) if f is not None else None
            except (TypeError, ValueError):
                got = None
            if got is None or len(got) != len(params) or (meth != '_find_person_field' and got != params):
                ok = False
        _PRIVATE_API['ok'] = ok
    return _PRIVATE_API['ok']


def _impl_visited(case):
    if not _private_api_ok():
        return {'private_api': 'absent'}
    """the three lookup methods with an explicit visited set (function-level: _find_crossref_entry, _find_field,
    _find_crossref_field, _find_person_field), database built with add_entry"""
    from pybtex import errors
    from pybtex.database import BibliographyData, Entry, Person
    names = case['names']
    vis = frozenset(case['visited'])
    try:
        bib = BibliographyData()
        with errors.capture() as errs:
            for e in case['file']:
                bib.add_entry(e['key'], Entry(e['type'], fields=[(n, v) for n, v in e['fields']],
                                              persons=[(r, [Person(nm) for nm in ns]) for r, ns in e['persons']]))
        entries = list(bib.entries.values())
        repeated = [str(x.args[0])[len('repeated bibliography entry: '):] if str(x.args[0]).startswith('repeated bibliography entry: ')
                    else compat.pybtex_error_kind(x) for x in errs]
    except Exception as e:  # noqa
        k = compat.pybtex_error_kind(e)
        return {k_: k for k_ in ('step', 'step_nodb', 'field', 'field_nodb', 'xfield', 'person')}

    def step(e, b):
        def f():
            p, v = e._find_crossref_entry(names[0], b, vis)
            return [p.key, sorted(set(v))]
        return _guard(f)

    extra = {'repeated': repeated} if case['op'] == 'findvisited_u' else {}
    return {**extra, 'step': [[e.key, step(e, bib)] for e in entries],
            'step_nodb': [[e.key, step(e, None)] for e in entries],
            'field': [[e.key, [_guard(lambda: e._find_field(n, bib, vis)) for n in names]] for e in entries],
            'field_nodb': [[e.key, [_guard(lambda: e._find_field(n, None, vis)) for n in names]] for e in entries],
            'xfield': [[e.key, [_guard(lambda: e._find_crossref_field(n, bib, vis)) for n in names]] for e in entries],
            'person': [[e.key, [_guard(lambda: e._find_person_field(n)) for n in names]] for e in entries]}


def _impl_fieldnode(case):
    """the template node `field` evaluated directly: raw and through Text.from_latex, in a context with the database, without the
    key bib_data and with bib_data None; and BaseStyle.format_entries(entries, bib_data) / format_entries(entries) of unsrt"""
    from pybtex import errors
    from pybtex.database import parse_string
    from pybtex.style.template import field, FieldIsMissing
    from pybtex.backends.plaintext import Backend
    names = case['names']
    text = dbcommon.bib_text(case['file'])
    try:
        with errors.capture():
            bib = parse_string(text, _plugins()[0])
        entries = list(bib.entries.values())
    except Exception as e:  # noqa
        k = compat.pybtex_error_kind(e)
        return {k_: k for k_ in ('node_db', 'node_db_text', 'node_nodb', 'node_none', 'entries_db', 'entries_nodb')}

    def node(e, n, ctx, raw):
        def f():
            try:
                v = field(n, raw=raw).format_data(ctx)
                return v if raw else str(v)
            except FieldIsMissing as ex:
                return {'missing': str(ex)}
        return _guard(f)

    def rows(mk, raw=True):
        return [[e.key, [node(e, n, mk(e), raw) for n in names]] for e in entries]

    def styled(*args):
        def f():
            _p, style, kw = _plugins()
            st = style(**{k: v for k, v in kw.items() if k != 'bib_format'})
            toks = tokens(case['file'])
            out = []
            for fe in st.format_entries(entries, *args):
                body = fe.text.render(Backend())
                vals = []
                for n in PY_NAMES:
                    found = sorted(v for v in toks[n] if v in body)
                    vals.append(None if not found else found[0] if len(found) == 1 else 'AMBIGUOUS:%r' % (found,))
                out.append([fe.key, vals])
            return out
        if _STATE['timed_out']:
            return SKIPPED
        try:
            with _cpu_limit(10.0):
                return f()
        except _NoTermination:
            _STATE['timed_out'] = True
            return NO_TERMINATION
        except Exception as e:  # noqa
            return compat.pybtex_error_kind(e)

    return {'node_db': rows(lambda e: {'entry': e, 'bib_data': bib}),
            'node_db_text': rows(lambda e: {'entry': e, 'bib_data': bib}, raw=False),
            'node_nodb': rows(lambda e: {'entry': e}),
            'node_none': rows(lambda e: {'entry': e, 'bib_data': None}),
            'entries_db': styled(bib), 'entries_nodb': styled()}


def impl(case):
    _STATE['timed_out'] = False
    if case['op'] in ('findvisited', 'findvisited_u'):
        return _impl_visited(case)
    if case['op'] == 'fieldnode':
        return _impl_fieldnode(case)
    if case['op'] == 'findfield_api':
        api, nodb = _api_direct(case['file'], case['names'])
        return {'api': api, 'api_nodb': nodb}
    if case['op'] == 'findchain':
        return _impl_chain(case)
    if case['op'] == 'pystyles':
        return _impl_styles(case)
    text = dbcommon.bib_text(case['file'])
    cits = [e['key'] for e in case['file']]
    api, nodb = _api(text, case['names'])
    bst, bst_reports = _bst(text, cits)
    py, py_reports = _py(text, cits, case['file'])
    out = {'api': api, 'api_nodb': nodb, 'bst': bst, 'bst_reports': bst_reports, 'py': py, 'py_reports': py_reports}
    if _leaf_eligible(case['file']):
        # the engines read the file restricted to the citations: cite ONLY the first entry; its parents are pulled in by the
        # cross-references (children come before their parents in these files, so finding C05-filtered-parent-before-child does not apply)
        leaf = [case['file'][0]['key']]
        rows, _r = _bst(text, leaf)
        out['bst_leaf'] = [vals[:4] for k, vals in rows if k.lower() == leaf[0].lower()] if isinstance(rows, list) else rows
        rows, _r = _py(text, leaf, case['file'])
        out['py_leaf'] = [vals for k, vals in rows if k.lower() == leaf[0].lower()] if isinstance(rows, list) else rows
        # the same with min_crossrefs = 1: the parent of the cited entry is appended and shown too
        out['bst_leaf1'], _r = _bst(text, leaf, 1)
        out['py_leaf1'], _r = _py(text, leaf, case['file'], 1)
    return out


def _impl_chain(case):
    """a long file, looked at from its first entry only (entry API; both engines with only that entry cited)"""
    from pybtex import errors
    from pybtex.database import parse_string
    text = dbcommon.bib_text(case['file'])
    leaf = [case['file'][0]['key']] if case['file'] else []
    try:
        with errors.capture():
            bib = parse_string(text, _plugins()[0])
        first = list(bib.entries.values())[:1]
        api = [_lookup(first[0], n, bib) for n in case['names']] if first else None
    except Exception as e:  # noqa
        api = compat.pybtex_error_kind(e)
    rows, _r = _bst(text, leaf)
    bst = [[k, vals] for k, vals in rows if leaf and k.lower() == leaf[0].lower()] if isinstance(rows, list) else rows
    rows, _r = _py(text, leaf, case['file'])
    py = [[k, vals] for k, vals in rows if leaf and k.lower() == leaf[0].lower()] if isinstance(rows, list) else rows
    return {'api': api, 'bst_leaf': bst, 'py_leaf': py}


def _leaf_eligible(file):
    """every cross-reference points to an entry further down in the file (so: no cycle, no dangling reference) and the first entry has one"""
    pos = {e['key'].lower(): i for i, e in enumerate(file)}
    if not file or len(pos) != len(file) or _xref(file[0]) is None:
        return False
    for i, e in enumerate(file):
        x = _xref(e)
        if x is not None and pos.get(x.lower(), -1) <= i:
            return False
    return True


# ---------------------------------------------------------------- the Python styles (names node, labels, sorting)

STYLE_ROLES = ['author', 'editor']
STYLE_FIELDS = ['title', 'year', 'booktitle', 'publisher', 'journal', 'key', 'note']
STYLES = ['unsrt', 'plain', 'alpha']


def py_lookup(file, i, name):
    """An independent re-statement of the reference lookup (used to write the inherited values out; the oracle checks it against
    the Lean specification): value of the first entry along the chain that defines `name` as a field or role."""
    first = {}
    for j, e in enumerate(file):
        first.setdefault(e['key'].lower(), j)
    seen = set()
    while True:
        e = file[i]
        for n, v in e['fields']:
            if n.lower() == name.lower():
                return v
        for r, ns in e['persons']:
            if r.lower() == name.lower():
                return ' and '.join(ns)
        x = _xref(e)
        if x is None or x.lower() not in first or x.lower() in seen:
            return None
        seen.add(x.lower())
        i = first[x.lower()]


def flatten(file):
    """the same database with every inherited value written out in the entry that inherits it"""
    out = []
    for i, e in enumerate(file):
        fields = [list(f) for f in e['fields']]
        persons = [[r, list(ns)] for r, ns in e['persons']]
        have = {n.lower() for n, _ in fields} | {r.lower() for r, _ in persons}
        for n in STYLE_FIELDS:
            v = py_lookup(file, i, n)
            if n not in have and v is not None:
                fields.append([n, v])
        for r in STYLE_ROLES:
            v = py_lookup(file, i, r)
            if r not in have and v is not None:
                persons.append([r, v.split(' and ')])
        out.append({'key': e['key'], 'type': e['type'], 'fields': fields, 'persons': persons})
    return out


def label_backend():
    base = dbcommon.key_backend()

    class LabelBackend(base):
        def write_entry(self, key, label, text):
            self.output('\\bibitem{%s}\n%s\n%s\n' % (key, label, text))
    return LabelBackend


def _style_plugins(style, by_name):
    """the style and the label / name / sorting styles it defaults to, as classes (looking plug-ins up by name scans the
    installed entry points: C17 is about that; every 16th case does it anyway)"""
    if by_name:
        return style, {}
    import importlib
    cls = importlib.import_module('pybtex.style.formatting.' + style).Style
    from pybtex.style.names.plain import NameStyle
    label = importlib.import_module('pybtex.style.labels.' + (cls.default_label_style or 'number')).LabelStyle
    sorting = importlib.import_module('pybtex.style.sorting.' + (cls.default_sorting_style or 'none')).SortingStyle
    return cls, {'label_style': label, 'name_style': NameStyle, 'sorting_style': sorting}


def _style_run(text, style, cits, m, by_name=False):
    from pybtex import errors
    import pybtex
    try:
        cls, kw = _style_plugins(style, by_name)
        with errors.capture() as errs, _cpu_limit(30.0):
            out = pybtex.format_from_string(text, cls, citations=list(cits), min_crossrefs=m, output_backend=label_backend(),
                                            bib_format=_plugins()[0], **kw)
        items = [[k, lines[0] if lines else '', ' '.join(lines[1:]).strip()] for k, lines in dbcommon.split_bibitems(out)]
        return {'items': items, 'reports': [dbcommon.report(e) for e in errs]}
    except _NoTermination:
        return {'error': NO_TERMINATION, 'message': 'no answer within 30 s of CPU time'}
    except Exception as e:  # noqa
        return {'error': compat.pybtex_error_kind(e), 'message': str(e)}


def _impl_styles(case):
    from pybtex import errors
    from pybtex.database import parse_string
    from pybtex.richtext import Text
    from pybtex.style.template import names, field, FieldIsMissing

    class PlainNames(object):
        abbreviate_names = False

        def format_name(self, person, abbr=False):
            return Text(str(person))

    def nodes_of(text):
        with errors.capture():
            bib = parse_string(text, _plugins()[0])
        rows = []
        for e in bib.entries.values():
            ctx = {'entry': e, 'style': PlainNames(), 'bib_data': bib}
            row = [e.key, [], [], []]
            for r in STYLE_ROLES:
                try:
                    row[1].append(str(names(r, sep=' and ').format_data(ctx)))
                except FieldIsMissing:
                    row[1].append(None)
            for n in STYLE_FIELDS:
                try:
                    row[2].append(field(n, raw=True).format_data(ctx))
                except FieldIsMissing:
                    row[2].append(None)
                row[3].append(e.fields.get(n))          # what the label and sorting styles read
            rows.append(row)
        return rows

    text = dbcommon.bib_text(case['file'])
    try:
        with _cpu_limit(30.0):
            nodes = nodes_of(text)
    except _NoTermination:
        nodes = NO_TERMINATION
    except Exception as e:  # noqa
        nodes = compat.pybtex_error_kind(e)
    flat = flatten(case['file'])
    flat_text = dbcommon.bib_text(flat)
    styles = {}
    import json
    import zlib
    by_name = zlib.crc32(json.dumps(case, sort_keys=True).encode('utf-8')) % 16 == 0
    for st in STYLES:
        styles[st] = {'as_is': _style_run(text, st, case['citations'], case['min_crossrefs'], by_name),
                      'written_out': _style_run(flat_text, st, case['citations'], case['min_crossrefs'], by_name)}
    return {'nodes': nodes, 'styles': styles,
            'flat': [[e['key'], [py_lookup(case['file'], i, r) for r in STYLE_ROLES], [py_lookup(case['file'], i, n) for n in STYLE_FIELDS]]
                     for i, e in enumerate(case['file'])]}


def compare_view(io):
    """what is compared with the model: everything but the runs of the (unmodelled) styles"""
    if isinstance(io, dict) and 'styles' in io:
        return {'nodes': io['nodes']}
    return io


def to_request(case):
    if case['op'] == 'pystyles':
        req = dict(case)
        req['names'] = STYLE_FIELDS
        req['roles'] = STYLE_ROLES
        return req
    return case


def _noempty(rows):
    """the Python engine is observed through tokens: an empty value shows none"""
    if not isinstance(rows, list):
        return rows
    return [[k, [None if v == '' else v for v in vals]] for k, vals in rows]


def reconcile(case, view, mo):
    """function-level observations of private methods that the tree under test does not expose are dropped from both sides"""
    if isinstance(view, dict) and view.get('private_api') == 'absent':
        return view, view
    return view, mo


def model_out(case, reply):
    out = dict(reply['out'])
    if case['op'] == 'fieldnode':
        idx = [case['names'].index(n) for n in PY_NAMES]

        def toks(rows):
            if not isinstance(rows, list):
                return rows
            return [[k, [None if (isinstance(vals[i], dict) or vals[i] == '') else vals[i] for i in idx]] for k, vals in rows]
        out['node_db_text'] = out['node_db']
        out['node_none'] = out['node_nodb']
        out['entries_db'] = toks(out['node_db'])
        out['entries_nodb'] = toks(out['node_nodb'])
        return out
    if case['op'] in ('findvisited', 'findvisited_u'):
        for side in ('step', 'step_nodb'):
            if isinstance(out[side], list):
                out[side] = [[k, None if r is None else [r[0], sorted(set(r[1]))]] for k, r in out[side]]
        return out
    if case['op'] in ('findfield_api', 'pystyles'):
        return out
    idx = [case['names'].index(n) for n in PY_NAMES]

    def pycols(rows):
        return _noempty([[k, [vals[i] for i in idx]] for k, vals in rows]) if isinstance(rows, list) else rows

    if case['op'] == 'findchain':
        out['py_leaf'] = pycols(out['py_leaf'])
        return out
    out['py'] = pycols(out['py'])
    if _leaf_eligible(case['file']):
        first = case['file'][0]['key'].lower()
        out['bst_leaf'] = [vals[:4] for k, vals in out['bst_leaf'] if k.lower() == first] if isinstance(out['bst_leaf'], list) else out['bst_leaf']
        out['py_leaf'] = [vals for k, vals in pycols(out['py_leaf']) if k.lower() == first] if isinstance(out['py_leaf'], list) else out['py_leaf']
        out['py_leaf1'] = pycols(out['py_leaf1'])
    else:
        for k in ('bst_leaf', 'py_leaf', 'bst_leaf1', 'py_leaf1'):
            out.pop(k, None)
    return out


def _file_ok(case):
    if not dbcommon.valid_file(case['file'], allow_empty=True):
        return False
    seen = set()
    for e in case['file']:
        for n, v in e['fields']:
            if n.lower() in PY_NAMES and v:
                if v in seen or len(v) < 3:
                    return False
                seen.add(v)
        if e['type'] != 'misc':
            return False
    vals = sorted(seen)
    return not any(a in b for a in vals for b in vals if a != b)


def valid_case(case):
    if case.get('op') == 'pystyles':
        if set(case) != {'op', 'file', 'citations', 'min_crossrefs'} or not dbcommon.valid_file(case['file']):
            return False
        if not isinstance(case['min_crossrefs'], int) or isinstance(case['min_crossrefs'], bool) or not 1 <= case['min_crossrefs'] <= 3:
            return False
        keys = [e['key'].lower() for e in case['file']]
        if len(set(keys)) != len(keys) or not all(dbcommon.KEY_OK.match(c) for c in case['citations']):
            return False
        for i, e in enumerate(case['file']):
            if e['type'] not in ('book', 'inproceedings', 'misc', 'article'):
                return False
            names = [n.lower() for n, _ in e['fields']] + [r.lower() for r, _ in e['persons']]
            if any(n not in STYLE_FIELDS + STYLE_ROLES + ['crossref'] for n in names):
                return False
            x = _xref(e)
            if x is not None and x.lower() not in keys[i + 1:]:     # references point down the file (filtered reading keeps the parents)
                return False
        return True
    if case.get('op') == 'fieldnode':
        return set(case) == {'op', 'file', 'names'} and case['names'] == NAMES and _file_ok(case)
    if case.get('op') == 'findvisited_u':
        def strs(l):
            return isinstance(l, list) and all(isinstance(x, str) for x in l)
        if set(case) != {'op', 'file', 'names', 'visited'} or not strs(case['names']) or not strs(case['visited']) or not isinstance(case['file'], list):
            return False
        for e in case['file']:
            if not (isinstance(e, dict) and set(e) == {'key', 'type', 'fields', 'persons'} and isinstance(e['key'], str) and e['type'] == 'misc'):
                return False
            if not (isinstance(e['fields'], list) and all(isinstance(f, list) and len(f) == 2 and strs(f) for f in e['fields'])):
                return False
            if not (isinstance(e['persons'], list) and all(isinstance(r, list) and len(r) == 2 and isinstance(r[0], str) and strs(r[1])
                                                           and all(re.match(r'^[A-Z][a-z]+, [A-Z][a-z]+$', nm) for nm in r[1]) for r in e['persons'])):
                return False
        return True
    if case.get('op') == 'findvisited':
        return (set(case) == {'op', 'file', 'names', 'visited'} and case['names'] == API_NAMES
                and isinstance(case['visited'], list) and all(isinstance(v, str) for v in case['visited'])
                and dbcommon.valid_file(case['file'], allow_overlap=True, allow_empty=True))
    if set(case) != {'op', 'file', 'names'} or case['op'] not in ('findfield', 'findfield_api', 'findchain'):
        return False
    if case['op'] == 'findfield_api':
        return case['names'] == API_NAMES and dbcommon.valid_file(case['file'], allow_overlap=True, allow_empty=True)
    if case['names'] != NAMES:
        return False
    if case['op'] == 'findchain':
        # only whole chains / cycles as the generator builds them (a shrink that drops an entry from the middle of a file of
        # hundreds is rejected here, cheaply, instead of being run)
        file = case['file']
        if not file:
            return False
        at = [i for i, e in enumerate(file) if any(n.lower() == 'note' for n, _ in e['fields'])]
        closed = _xref(file[-1]) is not None
        return len(at) <= 1 and any(case == _chain(len(file), at[0] if at else None, closed, oc) for oc in (False, True))
    return _file_ok(case)


def _tokview(v):
    return None if v == '' else v


def _oracle_chain(case, impl_out, reply):
    spec = reply['spec']
    names = case['names']
    fails = []
    want = spec['lookup']
    n = len(case['file'])
    api = impl_out['api']
    if isinstance(api, str):
        fails.append('%s: the entry API lookup from the first of %d entries raised %s' % ('terminates' if api.startswith('INTERNAL:') else 'never_crash', n, api))
    elif api is not None:
        for name, got, w in zip(names, api, want):
            if got != w and got != SKIPPED:
                tag = 'terminates' if isinstance(got, str) and got.startswith('INTERNAL:') else 'inherits_nearest' if w is not None else 'missing_iff'
                fails.append('%s: api lookup of %r from the first of %d entries gives %r, the property demands %r' % (tag, name, n, got, w))
    for side, cols, view in (('bst_leaf', BST_NAMES[:4], lambda v: v), ('py_leaf', PY_NAMES, _tokview)):
        rows = impl_out[side]
        if rows == SKIPPED:
            continue
        if isinstance(rows, str):
            fails.append('%s: the %s observation of a file of %d entries (first one cited) raised %s' % (
                'terminates' if rows.startswith('INTERNAL:') else 'never_crash', side, n, rows))
            continue
        exp = [view(want[names.index(c)]) for c in cols]
        got = [vals[:len(cols)] for _k, vals in rows]
        if got != [exp]:
            fails.append('engines_agree: with only the first of %d entries cited the %s observation of %r is %r, the property demands %r' % (n, side, cols, got, [exp]))
    return fails


def inherits_style_input(case):
    """entries (lower-cased keys) that lack a role, or a field the label / sorting styles read, which the reference lookup finds
    in a cross-referenced parent -- the class of finding C14-python-engine-reads-own-persons"""
    out = set()
    for i, e in enumerate(case['file']):
        have = {n.lower() for n, _ in e['fields']} | {r.lower() for r, _ in e['persons']}
        for n in STYLE_ROLES + ['year', 'title', 'key']:
            if n not in have and py_lookup(case['file'], i, n) is not None:
                out.add(e['key'].lower())
    return out


def inherits_role(case):
    """entries (lower-cased keys) that lack a person role which the reference lookup finds in a cross-referenced parent"""
    out = set()
    for i, e in enumerate(case['file']):
        have = {n.lower() for n, _ in e['fields']} | {r.lower() for r, _ in e['persons']}
        if any(r not in have and py_lookup(case['file'], i, r) is not None for r in STYLE_ROLES):
            out.add(e['key'].lower())
    return out


def _oracle_styles(case, impl_out, reply):
    spec = reply['spec']
    fails = []
    want = {k.lower(): (roles, fields) for k, roles, fields in spec['lookup']}
    # the harness's written-out database is the reference lookup
    for k, roles, fields in impl_out['flat']:
        if (roles, fields) != tuple(want.get(k.lower(), (None, None))) and [x['key'].lower() for x in case['file']].count(k.lower()) == 1:
            fails.append('harness_flatten: the written-out values of %r are %r, the reference lookup gives %r' % (k, (roles, fields), want.get(k.lower())))
    inh = inherits_style_input(case)
    nodes = impl_out['nodes']
    if isinstance(nodes, str):
        fails.append('never_crash: evaluating the template nodes raised %s' % nodes)
    else:
        for key, roles, fields, _own in nodes:
            w = want[key.lower()]
            for r, got, exp in zip(STYLE_ROLES, roles, w[0]):
                if got != exp:
                    tag = 'python_names_not_inherited' if (got is None and key.lower() in inh) else 'person_roles_joined'
                    fails.append('%s: the names node of the Python engine gives %r for the role %r of entry %r, the property demands %r' % (tag, got, r, key, exp))
            for n, got, exp in zip(STYLE_FIELDS, fields, w[1]):
                if got != exp:
                    fails.append('engines_agree: the field node of the Python engine gives %r for %r of entry %r, the property demands %r' % (got, n, key, exp))
    for st in STYLES:
        a, b = impl_out['styles'][st]['as_is'], impl_out['styles'][st]['written_out']
        for run, name in ((a, 'as it is'), (b, 'with the inherited values written out')):
            if 'error' in run and run['error'].startswith('INTERNAL:'):
                fails.append('never_crash: style %s on the database %s raised %s' % (st, name, run['error']))
        if 'error' in a or 'error' in b:
            if a.get('error') != b.get('error') or ('error' in a and a.get('message') != b.get('message')):
                # the run on the database as it is stops at a role that the entry does inherit
                mm = re.match(r'^missing (\w+) in (.*)$', a.get('message', '')) if a.get('error') == 'FieldIsMissing' else None
                # (a book wants author OR editor: the role named in the message need not be the inherited one)
                mine = bool(mm and mm.group(1) in STYLE_ROLES and mm.group(2).lower() in inherits_role(case))
                # both runs stop, at different entries: the sorting style put another entry first (sort key read from the entry itself)
                if (not mine and a.get('error') == b.get('error') == 'FieldIsMissing' and st != 'unsrt' and inh
                        and a['message'].split(' in ')[-1] != b['message'].split(' in ')[-1]):
                    mine = True
                tag = 'python_style_not_inherited' if mine else 'engines_agree'
                fails.append('%s: style %s ends in %r on the database as it is and in %r with the inherited values written out' % (
                    tag, st, a.get('message', 'a bibliography'), b.get('message', 'a bibliography')))
            continue
        ka, kb = [i[0] for i in a['items']], [i[0] for i in b['items']]
        if sorted(ka) != sorted(kb):
            fails.append('engines_agree: style %s emits %r as it is and %r with the inherited values written out' % (st, ka, kb))
            continue
        if ka != kb:
            tag = 'python_style_not_inherited' if inh & {k.lower() for k in ka} else 'engines_agree'
            fails.append('%s: style %s orders the entries %r; with the inherited values written out %r (sort key)' % (tag, st, ka, kb))
        db_ = {i[0]: i for i in b['items']}
        for k, label, text in a['items']:
            if [label, text] != db_[k][1:]:
                what = 'label' if text == db_[k][2] else 'text'
                # numeric labels follow the order: a different number is the order difference reported above
                if what == 'label' and ka != kb and label.isdigit():
                    continue
                # the text is the entry's own business; a label depends on the other entries too (suffix letters, numbers)
                mine = k.lower() in inh if what == 'text' else bool(inh & {x.lower() for x in ka})
                tag = 'python_style_not_inherited' if mine else 'engines_agree'
                fails.append('%s: style %s shows entry %r as [%s] %r; with the inherited values written out it is [%s] %r (%s)' % (
                    tag, st, k, label, text, db_[k][1], db_[k][2], what))
        if a['reports'] != b['reports']:
            fails.append('engines_agree: style %s reports %r as it is and %r with the inherited values written out' % (st, a['reports'], b['reports']))
    return fails


def _oracle_visited(case, impl_out, reply):
    """what the PROPERTY says about the methods called with a visited set: an own field / role always wins, whatever has been
    visited; a value returned is the value of the nearest definer (C14_visited_only_cuts: a visited set can make the answer
    missing, never different); the call returns; with nothing visited the answer is the reference lookup.  What the step function
    returns is compared with the model only."""
    spec = reply['spec']
    names = case['names']
    want = {k.lower(): vals for k, vals in spec['lookup']}
    own = {k.lower(): vals for k, vals in spec['own']}
    fails = []
    for side in ('step', 'step_nodb', 'field', 'field_nodb', 'xfield', 'person'):
        rows = impl_out[side]
        if isinstance(rows, str):
            fails.append('never_crash: building the database for %s raised %s' % (side, rows))
            continue
        for key, vals in rows:
            for got in (vals if side not in ('step', 'step_nodb') else [vals]):
                if isinstance(got, str) and got.startswith('INTERNAL:'):
                    fails.append('terminates: %s of entry %r with visited %r gives %r' % (side, key, case['visited'], got))
    if isinstance(impl_out['field'], list):
        for key, vals in impl_out['field']:
            k = key.lower()
            if [x['key'].lower() for x in case['file']].count(k) != 1:
                continue
            for i, got in enumerate(vals):
                if got == SKIPPED or (isinstance(got, str) and got.startswith('INTERNAL:')):
                    continue
                if own[k][i] is not None and got != own[k][i]:
                    e = [e for e in case['file'] if e['key'].lower() == k][0]
                    is_field = any(n.lower() == names[i].lower() for n, _ in e['fields'])
                    fails.append('%s: _find_field(%r, bib_data, visited=%r) in entry %r gives %r, the entry itself defines %r' % (
                        'own_field_wins' if is_field else 'person_roles_joined', names[i], case['visited'], key, got, own[k][i]))
                elif got is not None and got != want[k][i]:
                    fails.append('inherits_nearest: _find_field(%r, bib_data, visited=%r) in entry %r gives %r, the nearest definer has %r' % (
                        names[i], case['visited'], key, got, want[k][i]))
                elif not case['visited'] and got != want[k][i]:
                    fails.append('%s: api lookup of %r in entry %r gives %r, the property demands %r' % (
                        'missing_iff' if want[k][i] is None else 'inherits_nearest', names[i], key, got, want[k][i]))
    if isinstance(impl_out['field_nodb'], list):
        for key, vals in impl_out['field_nodb']:
            k = key.lower()
            for i, got in enumerate(vals):
                if got != own[k][i] and got != SKIPPED and [x['key'].lower() for x in case['file']].count(k) == 1:
                    fails.append('own_field_wins: _find_field(%r) without bib_data (visited=%r) in entry %r gives %r, the entry itself defines %r' % (
                        names[i], case['visited'], key, got, own[k][i]))
    return fails


def _oracle_fieldnode(case, impl_out, reply):
    """engines_agree at the node itself: with the database in the context the field node (raw or not) and format_entries show
    the reference lookup, FieldIsMissing exactly when it is missing.  What is seen WITHOUT a database, and the message text, are
    compared with the model only."""
    spec = reply['spec']
    names = case['names']
    want = {k.lower(): vals for k, vals in spec['lookup']}
    fails = []
    for side in ('node_db', 'node_db_text', 'node_nodb', 'node_none', 'entries_db', 'entries_nodb'):
        rows = impl_out[side]
        if rows == SKIPPED:
            continue
        if isinstance(rows, str):
            fails.append('%s: the %s observation raised %s' % ('terminates' if ('Recursion' in rows or 'NoTermination' in rows) else 'never_crash', side, rows))
            continue
        for key, vals in rows:
            for got in vals:
                if isinstance(got, str) and got.startswith('INTERNAL:'):
                    fails.append('%s: %s of entry %r gives %r' % ('terminates' if ('Recursion' in got or 'NoTermination' in got) else 'never_crash', side, key, got))
    for side, cols, view in (('node_db', names, lambda v: v), ('node_db_text', names, lambda v: v), ('entries_db', PY_NAMES, _tokview)):
        rows = impl_out[side]
        if not isinstance(rows, list):
            continue
        if [k.lower() for k, _ in rows] != [k.lower() for k, _ in spec['lookup']]:
            fails.append('engines_agree: %s shows entries %r, the database has %r' % (side, [k for k, _ in rows], [k for k, _ in spec['lookup']]))
            continue
        for key, vals in rows:
            for n, got in zip(cols, vals):
                exp = view(want[key.lower()][names.index(n)])
                g = None if isinstance(got, dict) else got
                if isinstance(g, str) and (g == SKIPPED or g.startswith('INTERNAL:')):
                    continue
                if g != exp:
                    fails.append('engines_agree: the field node of the Python engine (%s) gives %r for %r of entry %r, the property demands %r' % (side, got, n, key, exp))
    return fails


def oracle(case, impl_out, reply):
    if case['op'] == 'fieldnode':
        return _oracle_fieldnode(case, impl_out, reply)
    if case['op'] in ('findvisited', 'findvisited_u'):
        if isinstance(impl_out, dict) and impl_out.get('private_api') == 'absent':
            return []       # the private step helpers are not there to be driven (see _private_api_ok)
        return _oracle_visited(case, impl_out, reply)
    if case['op'] == 'findchain':
        return _oracle_chain(case, impl_out, reply)
    if case['op'] == 'pystyles':
        return _oracle_styles(case, impl_out, reply)
    spec = reply['spec']
    names = case['names']
    fails = []
    want = {k.lower(): vals for k, vals in spec['lookup']}
    own = {k.lower(): vals for k, vals in spec['own']}
    par = {k.lower(): vals[0] for k, vals in spec.get('parent', [])}

    def clause(key, i, got):
        k = key.lower()
        if isinstance(got, str) and got.startswith('INTERNAL:'):
            return 'terminates'
        if own[k][i] is not None:
            e = [e for e in case['file'] if e['key'].lower() == k][0]
            is_field = any(n.lower() == names[i].lower() for n, _ in e['fields'])
            return 'own_field_wins' if is_field else 'person_roles_joined'
        if want[k][i] is None:
            return 'missing_iff'
        return 'inherits_nearest'

    sides = (('api', names),) if case['op'] == 'findfield_api' else (('api', names), ('bst', names), ('py', PY_NAMES))
    for side, cols in sides:
        rows = impl_out[side]
        if rows == SKIPPED:
            continue
        if isinstance(rows, str):
            fails.append('%s: the %s observation raised %s' % ('terminates' if ('Recursion' in rows or 'NoTermination' in rows) else 'never_crash', side, rows))
            continue
        seen_keys = [k.lower() for k, _ in rows]
        if seen_keys != [k.lower() for k, _ in spec['lookup']]:
            fails.append('engines_agree: %s shows entries %r, the database has %r' % (side, [k for k, _ in rows], [k for k, _ in spec['lookup']]))
            continue
        for key, vals in rows:
            for n, got in zip(cols, vals):
                i = names.index(n)
                exp = want[key.lower()][i]
                if side == 'py':
                    exp = _tokview(exp)
                if got != exp and got != SKIPPED:
                    tag = clause(key, i, got)
                    if side != 'api' and tag in ('inherits_nearest', 'missing_iff', 'own_field_wins'):
                        tag = 'engines_agree'
                    fails.append('%s: %s lookup of %r in entry %r gives %r, the property demands %r' % (tag, side, n, key, got, exp))
    if 'bst_leaf' in impl_out:
        vals = spec['lookup'][0][1]
        for side, cols, view in (('bst_leaf', BST_NAMES[:4], lambda v: v), ('py_leaf', PY_NAMES, _tokview)):
            exp = [[view(vals[names.index(n)]) for n in cols]]
            if impl_out[side] != exp and impl_out[side] != SKIPPED:
                fails.append('engines_agree: with only %r cited (its parents are read because it refers to them) the %s observation of %r is %r, '
                             'the property demands %r' % (case['file'][0]['key'], side, cols, impl_out[side], exp))
        # min_crossrefs = 1: the parent is appended; every entry shown has its values, inherited ones included
        first = case['file'][0]['key']
        for side, cols, view in (('bst_leaf1', BST_NAMES[:4], lambda v: v), ('py_leaf1', PY_NAMES, _tokview)):
            rows = impl_out[side]
            if rows == SKIPPED:
                continue
            if isinstance(rows, str):
                fails.append('%s: the %s observation raised %s' % ('terminates' if ('Recursion' in rows or 'NoTermination' in rows) else 'never_crash', side, rows))
                continue
            if [k.lower() for k, _ in rows][:1] != [first.lower()] or any(k.lower() not in want for k, _ in rows):
                fails.append('engines_agree: with only %r cited and min_crossrefs 1 the %s observation shows the entries %r' % (first, side, [k for k, _ in rows]))
                continue
            for key, vals_ in rows:
                exp = [view(want[key.lower()][names.index(n)]) for n in cols]
                if vals_[:len(cols)] != exp:
                    fails.append('engines_agree: with only %r cited and min_crossrefs 1 the %s observation of %r in entry %r is %r, the property demands %r' % (
                        first, side, cols, key, vals_[:len(cols)], exp))
                if side == 'bst_leaf1':
                    p, got = par.get(key.lower()), vals_[-1]
                    if (got is None) != (p is None) or (got is not None and got.lower() != p.lower()):
                        fails.append('dangling: BST crossref of %r is %r (only %r cited, min_crossrefs 1), parent is %r' % (key, got, first, p))
    rows = impl_out['api_nodb']
    if isinstance(rows, list):
        for key, vals in rows:
            for i, got in enumerate(vals):
                if got != own[key.lower()][i]:
                    fails.append('own_field_wins: _find_field(%r) without bib_data in entry %r gives %r, the entry itself defines %r' % (names[i], key, got, own[key.lower()][i]))
    if case['op'] == 'findfield_api':
        return fails
    # a dangling reference is reported as a bad cross-reference by resolution (both engines cite every entry)
    dang = [[c.lower(), x.lower()] for c, x in spec['dangling']]
    for side in ('bst_reports', 'py_reports'):
        r = impl_out[side]
        if isinstance(r, list):
            got = [[x.lower() for x in rep[1:]] for rep in r if rep[0] == 'bad_crossref']
            if got != dang:
                fails.append('dangling: %s has bad cross-references %r, dangling references are %r' % (side, got, spec['dangling']))
            other = [rep for rep in r if rep[0] not in ('bad_crossref', 'repeated')]
            if other:
                fails.append('never_crash: %s contains %r' % (side, other[:2]))
    # the BST variable crossref: the stored key of the parent, or missing
    if isinstance(impl_out['bst'], list):
        for key, vals in impl_out['bst']:
            p = par.get(key.lower())
            got = vals[-1]
            if (got is None) != (p is None) or (got is not None and got.lower() != p.lower()):
                fails.append('dangling: BST crossref of %r is %r, parent is %r' % (key, got, p))
    return fails


def _python_reads_own(case, impl_out, text):
    """Matcher for finding C14-python-engine-reads-own-persons: the failure is about the names node / a style of the Python
    engine, the oracle attributed it to an entry that inherits a role or a label / sort input, and the case has such an entry."""
    tag = text.split(':')[0]
    if case.get('op') != 'pystyles' or tag not in ('python_names_not_inherited', 'python_style_not_inherited'):
        return False
    return bool(inherits_style_input(case))


def _deep_chain(case, impl_out, text):
    """Matcher for finding C14-deep-chain-recursion (void once proposed_fixes/C14-3 is applied): a RecursionError, on a chain or
    cycle of several hundred entries looked up from its first entry -- never on the small graphs."""
    return (case.get('op') == 'findchain' and len(case['file']) >= 400 and text.split(':')[0] == 'terminates'
            and 'INTERNAL:RecursionError' in text)


KNOWN_MATCHERS = {'C14-python-engine-reads-own-persons': _python_reads_own,
                  'C14-deep-chain-recursion': _deep_chain}


def _xref(e):
    for n, v in e['fields']:
        if n.lower() == 'crossref':
            return v
    return None


def buckets(case, impl_out):
    file = case['file']
    b = ['n=%d' % len(file) if len(file) < 10 else 'n>=%d' % (len(file) // 100 * 100), case['op']]
    if case['op'] == 'pystyles':
        b.append('cited=%d' % len(case['citations']))
        b.append('m=%d' % case['min_crossrefs'])
        if inherits_style_input(case):
            b.append('inherits_role_or_label_input')
        for st in STYLES:
            run = impl_out.get('styles', {}).get(st, {}).get('as_is', {})
            if 'error' in run:
                b.append('%s_%s' % (st, run['error']))
        return b
    if case['op'] == 'fieldnode':
        nd = impl_out.get('node_db')
        if isinstance(nd, list):
            flat = [v for _k, vals in nd for v in vals]
            if any(isinstance(v, dict) for v in flat):
                b.append('field_is_missing')
            nn = impl_out.get('node_nodb')
            if nn != nd:
                b.append('database_in_context_matters')
        return b
    if case['op'] in ('findvisited', 'findvisited_u'):
        if case['op'] == 'findvisited_u':
            keys = [e['key'] for e in file]
            for e in file:
                x = _xref(e)
                if x is not None and any(x != k and x.lower() == k.lower() and not (x + k).isascii() for k in keys):
                    b.append('crossref_matches_by_non_ascii_lowering')
                if x is not None and any(x.lower() != k.lower() and x.casefold() == k.casefold() for k in keys):
                    b.append('crossref_differs_only_by_casefold')
            if impl_out.get('repeated'):
                b.append('repeated_key')
            if any(not n.isascii() for e in file for n, _v in e['fields']):
                b.append('non_ascii_field_name')
        b.append('visited=%d' % len(case['visited']))
        st = impl_out.get('step')
        if isinstance(st, list):
            low = {e['key'].lower() for e in file}
            for e, (_k, r) in zip(file, st):
                x = _xref(e)
                b.append('step_ok' if r is not None else 'step_no_crossref' if x is None else
                         'step_visited' if x.lower() in case['visited'] else 'step_dangling' if x.lower() not in low else 'step_other')
        fl, wl = impl_out.get('field'), None
        if isinstance(fl, list) and any(v is None for _k, vals in fl for v in vals):
            b.append('some_missing')
        return sorted(set(b))
    if case['op'] == 'findfield_api' and any({n.lower() for n, _ in e['fields']} & {r.lower() for r, _ in e['persons']} for e in file):
        b.append('field_and_role_same_name')
    if any(not v for e in file for _n, v in e['fields']):
        b.append('empty_value')
    if 'bst_leaf1' in impl_out:
        b.append('first_entry_only_cited')
    if case['op'] == 'findchain':
        for side in ('api', 'bst_leaf', 'py_leaf'):
            if isinstance(impl_out.get(side), str):
                b.append(side + '_' + impl_out[side])
        return b
    low = {e['key'].lower(): e for e in file}
    shapes = set()
    for e in file:
        seen, cur, steps = {e['key'].lower()}, e, 0
        while True:
            x = _xref(cur)
            if x is None:
                shapes.add('chain%d' % min(steps, 3))
                break
            if x.lower() not in low:
                shapes.add('dangling')
                break
            if x.lower() in seen:
                shapes.add('self_loop' if x.lower() == cur['key'].lower() else 'cycle')
                break
            seen.add(x.lower())
            cur = low[x.lower()]
            steps += 1
    b += sorted(shapes)
    api = impl_out.get('api')
    if isinstance(api, list):
        flat = [v for _k, vals in api for v in vals]
        if any(isinstance(v, str) and v.startswith('INTERNAL:') for v in flat):
            b.append('api_internal_error')
        if any(v is None for v in flat):
            b.append('some_missing')
    for side in ('bst', 'py'):
        if isinstance(impl_out.get(side), str):
            b.append(side + '_' + impl_out[side])
    return b


def nontrivial(case, impl_out):
    return any(_xref(e) is not None for e in case['file'])


def corpus():
    return corpus_for(ID)


KEYS = ['a', 'B', 'c']
OTHER = {'a': 'A', 'B': 'b', 'c': 'C'}
AUTH = {'a': ['Aa, Xa', 'Ab, Ya'], 'B': ['Ba, Xb'], 'c': ['Ca, Xc', 'Cb, Yc']}


def _entry(key, xref, has_note, has_how, has_auth, names=('note', 'howpublished', 'crossref', 'author'), tag=None):
    """has_note / has_how: False or 0 = no such field, True or 1 = a value, 2 = the empty value (`note = {}`)"""
    tag = tag or key
    fields = []
    if has_note:
        fields.append([names[0], '' if has_note == 2 else 'Nn' + tag])
    if xref is not None:
        fields.append([names[2], xref])
    if has_how:
        fields.append([names[1], '' if has_how == 2 else 'Hh' + tag])
    persons = [[names[3], AUTH.get(key, ['Zz, Q' + 'x'])]] if has_auth else []
    return {'key': key, 'type': 'misc', 'fields': fields, 'persons': persons}


def _graphs(n):
    keys = KEYS[:n]
    targets = [None] + keys + [OTHER[k] for k in keys] + ['zz']
    return keys, list(itertools.product(targets, repeat=n))


FLAGS = list(itertools.product([0, 1, 2], [0, 1], [False, True]))        # note: absent / value / empty; howpublished; author role
FLAGS3 = list(itertools.product([0, 1, 2], [0, 1, 2], [False, True]))    # the sampled three-entry space: howpublished may be empty too


def _exhaustive(n, rng=None, sample=None):
    keys, graphs = _graphs(n)
    assigns = list(itertools.product(FLAGS if sample is None else FLAGS3, repeat=n))
    if sample is not None and sample < len(graphs) * len(assigns):
        combos = [(rng.choice(graphs), rng.choice(assigns)) for _ in range(sample)]
    else:
        combos = [(g, a) for g in graphs for a in assigns]
    cases = []
    for g, a in combos:
        file = [_entry(k, x, *flags) for k, x, flags in zip(keys, g, a)]
        cases.append({'op': 'findfield', 'file': file, 'names': NAMES})
    return cases


API_NAMES = ['author', 'note', 'zz']


def _api_cases(n):
    """every graph on n entries x every assignment of {field author (absent / value / EMPTY), role author, field note}: a field
    and a role of the same name are possible here (the field must win, an empty one too)"""
    keys, graphs = _graphs(n)
    assigns = list(itertools.product(itertools.product([0, 1, 2], [False, True], [False, True]), repeat=n))
    cases = []
    for g in graphs:
        for a in assigns:
            file = []
            for k, x, (fa, ra, fn) in zip(keys, g, a):
                fields = ([['author', '' if fa == 2 else 'Fa' + k]] if fa else []) + ([['crossref', x]] if x is not None else []) + ([['Note', 'Nn' + k]] if fn else [])
                file.append({'key': k, 'type': 'misc', 'fields': fields, 'persons': [['Author', AUTH[k]]] if ra else []})
            cases.append({'op': 'findfield_api', 'file': file, 'names': API_NAMES})
    return cases


VISITED_SETS = [[], ['a'], ['b'], ['zz'], ['a', 'b'], ['a', 'zz'], ['b', 'zz'], ['a', 'b', 'zz'], ['B'], ['A', 'b']]


def _visited_cases():
    """every graph on 2 entries (a, B) x {field note, role author} per entry (entry a may also have a FIELD author) x a visited
    set over the lower-cased keys, the dangling target and spellings that can never match (upper case)"""
    keys, graphs = _graphs(2)
    cases = []
    for g in graphs:
        for a in itertools.product(itertools.product([False, True], [False, True]), repeat=2):
            for fa in (False, True):
                file = []
                for k, x, (fn, ra) in zip(keys, g, a):
                    fields = ([['Author', 'Fa' + k]] if fa and k == 'a' else []) + ([['crossref', x]] if x is not None else []) + ([['note', 'Nn' + k]] if fn else [])
                    file.append({'key': k, 'type': 'misc', 'fields': fields, 'persons': [['author', AUTH[k]]] if ra else []})
                if fa and not a[0][1]:
                    continue      # the field author of a is only interesting next to the role
                for vis in VISITED_SETS:
                    cases.append({'op': 'findvisited', 'file': file, 'names': API_NAMES, 'visited': vis})
    return cases


def _random_visited_case(rng):
    c = _random_case(rng)
    for e in c['file']:
        e['fields'] = [[n if n.lower() != 'howpublished' else 'Zz', v] for n, v in e['fields']]
    keys = [e['key'].lower() for e in c['file']]
    pool = keys + ['nowhere'] + [k.upper() for k in keys[:2]]
    vis = sorted({rng.choice(pool) for _ in range(rng.randint(0, 4))}) if rng.random() < 0.8 else []
    return {'op': 'findvisited', 'file': c['file'], 'names': API_NAMES, 'visited': vis}


ORBITS = [['\u00c9', '\u00e9', 'E', 'e\u0301'],                      # É é E e+combining acute
          ['\u039f\u0394\u039f\u03a3', '\u03bf\u03b4\u03bf\u03c2', '\u03bf\u03b4\u03bf\u03c3', '\u039f\u0394\u039f\u03c3'],   # ΟΔΟΣ οδος οδοσ ΟΔΟσ (final sigma)
          ['\u0130', 'i\u0307', 'i', 'I', '\u0131'],                      # İ i+dot i I ı
          ['\u1e9e', '\u00df', 'ss', 'SS'],                               # ẞ ß ss SS
          ['\u212a', 'k', 'K'],                                            # KELVIN SIGN
          ['\u01c5', '\u01c6', '\u01c4'],                                 # ǅ ǆ Ǆ
          ['Stra\u00dfe', 'STRASSE', 'stra\u00dfe', 'STRA\u1e9eE'],
          ['\u03a3', '\u03c3', '\u03c2'],                                 # Σ σ ς (single letters: no final-sigma context)
          ['A\u03a3', 'a\u03c2', 'a\u03c3', 'A\u03a3.'],                   # AΣ -> aς
          ['', ' ', '*']]
U_NAMES = ['n\u00f6te', 'N\u00d6TE', 'author', '\u00c9diteur', 'zz']
U_FIELD_SPELLINGS = {'note': ['n\u00f6te', 'N\u00d6TE', 'No\u0308te', 'N\u00f6te'], 'crossref': ['crossref', 'CROSSREF', 'Crossref', 'cro\u017fsref', 'CROSSREF\u0307'],
                     'role': ['\u00c9diteur', '\u00e9diteur', '\u00c9DITEUR', 'author', 'AUTHOR']}


def _u_entry(key, xref, xname='crossref', note=None, note_name='n\u00f6te', role=None):
    fields = ([[xname, xref]] if xref is not None else []) + ([[note_name, note]] if note is not None else [])
    return {'key': key, 'type': 'misc', 'fields': fields, 'persons': [[role, ['Ee, One', 'Ee, Two']]] if role else []}


def _unicode_cases():
    """child -> (spelling s of a key) with the parent stored under spelling t, for every pair (s, t) of every orbit of spellings
    that str.lower() does or does not identify; then the same pair as a two-cycle; the field names crossref / nöte and the role in
    every spelling; visited empty, the lower-cased target, the target as written"""
    cases = []
    for orbit in ORBITS:
        for sp in orbit:
            for t in orbit:
                for vis in ([], [t.lower()], [t], [sp.lower()]):
                    file = [_u_entry('child', sp), _u_entry(t, None, note='Nnp', role='\u00c9diteur')]
                    cases.append({'op': 'findvisited_u', 'file': file, 'names': U_NAMES, 'visited': vis})
                file = [_u_entry(sp, t, note=None), _u_entry(t, sp, note='Nnq')]      # two-cycle (or a repeated key)
                cases.append({'op': 'findvisited_u', 'file': file, 'names': U_NAMES, 'visited': []})
    for xn in U_FIELD_SPELLINGS['crossref']:
        for nn in U_FIELD_SPELLINGS['note']:
            for rn in U_FIELD_SPELLINGS['role']:
                file = [_u_entry('child', 'P\u00c4R', xname=xn), _u_entry('p\u00e4r', None, note='Nnp', note_name=nn, role=rn)]
                cases.append({'op': 'findvisited_u', 'file': file, 'names': U_NAMES, 'visited': []})
    return cases


def _random_unicode_case(rng):
    n = rng.randint(1, 5)
    orbits = [rng.choice(ORBITS[:-1]) for _ in range(n)]
    keys = [rng.choice(o) for o in orbits]
    file = []
    for i in range(n):
        r = rng.random()
        j = rng.randrange(n)
        x = None if r < 0.2 else rng.choice(orbits[j]) if r < 0.9 else 'nowhere'
        file.append(_u_entry(keys[i], x, xname=rng.choice(U_FIELD_SPELLINGS['crossref'][:3] * 3 + U_FIELD_SPELLINGS['crossref'][3:]),
                             note=('Nn' + LETTERS[i] * 2) if rng.random() < 0.4 else None, note_name=rng.choice(U_FIELD_SPELLINGS['note']),
                             role=rng.choice(U_FIELD_SPELLINGS['role']) if rng.random() < 0.3 else None))
    pool = [k.lower() for k in keys] + keys
    vis = sorted({rng.choice(pool) for _ in range(rng.randint(0, 3))}) if rng.random() < 0.5 else []
    return {'op': 'findvisited_u', 'file': file, 'names': U_NAMES, 'visited': vis}


def _chain(n, field_at, closed, other_case=False):
    """k0 -> k1 -> ... -> k(n-1): one chain of n entries; `note` defined at position field_at (None: nowhere);
    closed: the last entry refers back to the first"""
    file = []
    for i in range(n):
        x = 'k%d' % (i + 1) if i + 1 < n else ('k0' if closed else None)
        if x is not None and other_case and i % 2:
            x = x.upper()
        file.append(_entry('k%d' % i, x, field_at == i, False, False, tag='x%dx' % i))
    return {'op': 'findchain', 'file': file, 'names': NAMES}


def _chain_cases(tier):
    cases = []
    for n in ((300, 600, 1000) if tier == 'quick' else (300, 400, 450, 480, 500, 520, 600, 800, 1000)):
        cases.append(_chain(n, n - 1, False))            # the value sits at the far end
        cases.append(_chain(n, None, True, True))        # a cycle of n entries without the field: missing
        cases.append(_chain(n, n // 2, True))            # a cycle, value half way round
        if tier != 'quick':
            cases.append(_chain(n, None, False))
    return cases


def _sentry(key, typ, xref, fields, persons):
    f = [[n, v] for n, v in fields]
    if xref is not None:
        f.append(['crossref', xref])
    return {'key': key, 'type': typ, 'fields': f, 'persons': [[r, list(ns)] for r, ns in persons]}


def _style_cases(tier):
    """a child (book / inproceedings / misc / article) above its parent, the values needed by the templates spread over the two:
    every subset of {author, editor, year, title} defined by the child itself, the parent defining all of them; children only /
    everything cited; min_crossrefs 1 and 2; plus pairs of children whose order and labels depend on inherited values"""
    cases = []
    people = {'author': ['Yb, Bb', 'Zc, Cc'], 'editor': ['Ee, Ff']}
    parent_fields = [('title', 'Tpar'), ('year', '2001'), ('booktitle', 'Bpar'), ('publisher', 'Ppar'), ('journal', 'Jpar')]
    for typ, ptyp in (('book', 'book'), ('inproceedings', 'proceedings'), ('misc', 'misc'), ('article', 'article')):
        ptyp = ptyp if ptyp != 'proceedings' else 'book'
        for own in itertools.product([False, True], repeat=4):
            o_auth, o_ed, o_year, o_title = own
            cf = ([('title', 'Tkid')] if o_title else []) + ([('year', '1999')] if o_year else [])
            cp = ([('author', ['Aa, Xa'])] if o_auth else []) + ([('editor', ['Dd, Xd'])] if o_ed else [])
            for pauth, ped in ((True, True), (True, False), (False, True)):
                pp = ([('author', people['author'])] if pauth else []) + ([('editor', people['editor'])] if ped else [])
                file = [_sentry('kid', typ, 'par', cf, cp), _sentry('par', ptyp, None, parent_fields, pp)]
                for cits, m in ((['kid'], 2), (['kid'], 1), (['par', 'kid'], 2)):
                    if tier == 'quick' and cits == ['par', 'kid'] and not (pauth and ped):
                        continue
                    cases.append({'op': 'pystyles', 'file': file, 'citations': cits, 'min_crossrefs': m})
    # order and labels: two children and an entry of its own; the inherited author / year decides where the children sort
    for a1, a2 in itertools.permutations(['Bb, Xb', 'Mm, Xm', 'Yy, Xy'], 2):
        for y1, y2 in (('1990', '2005'), ('2005', '1990')):
            for own_year in (False, True):
                file = [_sentry('k1', 'misc', 'p1', [('title', 'T1')] + ([('year', '2000')] if own_year else []), []),
                        _sentry('k2', 'misc', 'p2', [('title', 'T2')], [('author', ['Mm, Xm'])]),
                        _sentry('solo', 'misc', None, [('title', 'T0'), ('year', '2000')], [('author', ['Mm, Xm'])]),
                        _sentry('p1', 'misc', None, [('title', 'Tp1'), ('year', y1)], [('author', [a1])]),
                        _sentry('p2', 'misc', None, [('title', 'Tp2'), ('year', y2)], [('author', [a2])])]
                for cits in (['k1', 'k2', 'solo'], ['solo', 'k2', 'k1']):
                    cases.append({'op': 'pystyles', 'file': file, 'citations': cits, 'min_crossrefs': 2})
    return cases


POOL = ['k1', 'K2', 'knuth84', 'Lam:86', 'x', 'Y', 'book-1', 'Proc.A', 'zeta', 'Eta']
LETTERS = 'abcdefghij'


def _cased(rng, s):
    return rng.choice([s, s, s.upper(), s.capitalize(), s.swapcase()])


def _random_case(rng):
    n = rng.randint(1, 9)
    keys = rng.sample(POOL, n)
    file = []
    shape = rng.random()
    for i, k in enumerate(keys):
        r = rng.random()
        if shape < 0.4:      # one long chain, possibly closed into a cycle
            x = keys[i + 1] if i + 1 < n else (rng.choice(keys) if rng.random() < 0.5 else None)
        elif shape < 0.55:   # references point down the file (the engines are then also observed with only the first entry cited)
            x = rng.choice(keys[i + 1:]) if i + 1 < n and (i == 0 or rng.random() < 0.7) else None
        elif r < 0.25:
            x = None
        elif r < 0.9:
            x = rng.choice(keys)
        else:
            x = 'nowhere'
        if x is not None and rng.random() < 0.3:
            x = x.swapcase()
        names = (_cased(rng, 'note'), _cased(rng, 'howpublished'), _cased(rng, 'crossref'), _cased(rng, 'author'))
        p = 0.25 if shape < 0.55 else 0.5

        def flag():
            return 0 if rng.random() >= p else 2 if rng.random() < 0.25 else 1
        e = _entry(k, x, flag(), flag(), rng.random() < p, names, tag=LETTERS[i] * 2)
        if e['persons']:
            e['persons'][0][1] = ['P%s, Q%s' % (LETTERS[i], LETTERS[j]) for j in range(rng.randint(1, 3))]
        file.append(e)
    return {'op': 'findfield', 'file': file, 'names': NAMES}


def _random_style_case(rng):
    """a random forest whose references point down the file; types and values drawn so that the templates have what they need
    somewhere along the chain (or not)"""
    n = rng.randint(2, 6)
    keys = ['e%d' % i for i in range(n)]
    lasts = ['Bb', 'Mm', 'Yy', 'Cc', 'Nn', 'Zz']
    file = []
    for i, k in enumerate(keys):
        typ = rng.choice(['book', 'inproceedings', 'misc', 'article'])
        x = rng.choice(keys[i + 1:]) if i + 1 < n and rng.random() < 0.7 else None
        root = x is None
        fields, persons = [], []
        for name, val in (('title', 'T%d' % i), ('year', str(1990 + 3 * i)), ('booktitle', 'B%d' % i), ('publisher', 'P%d' % i),
                          ('journal', 'J%d' % i), ('key', 'K%dx' % i)):
            if rng.random() < (0.85 if root and name != 'key' else 0.3 if name != 'key' else 0.1):
                fields.append((name, val))
        for role in ('author', 'editor'):
            if rng.random() < (0.8 if root else 0.3):
                persons.append((role, ['%s, X%s' % (rng.choice(lasts), LETTERS[i]) for _ in range(rng.randint(1, 2))]))
        file.append(_sentry(k, typ, x, fields, persons))
    cited = [k for k in keys if rng.random() < 0.6] or [keys[0]]
    rng.shuffle(cited)
    return {'op': 'pystyles', 'file': file, 'citations': cited, 'min_crossrefs': rng.choice([1, 2, 2, 3])}


def gen_cases(tier, rng, info):
    cases = []
    for n in (0, 1, 2):
        cases += _exhaustive(n)
    n_small = len(cases)
    if tier == 'quick':
        import random
        fixed = random.Random(20260926)   # the slice of the 3-entry space does not depend on the seed
        cases += _exhaustive(3, fixed, 8000)
        info['scope'] = ('every graph on <=2 entries (crossref in {none, each key, each key in the other case, zz}) x every assignment of '
                         'note (absent, value, empty), howpublished and author x all queries: %d cases; plus a fixed slice of 8000 of the '
                         '2985984 three-entry cases (howpublished empty too)' % n_small)
    else:
        import random
        fixed = random.Random(20260926)
        cases += _exhaustive(3, fixed, 150000)
        info['scope'] = ('every graph on <=2 entries (crossref in {none, each key, each key in the other case, zz}) x every assignment of '
                         'note (absent, value, empty), howpublished and author x all queries: %d cases; plus a fixed slice of 150000 of the '
                         '2985984 three-entry cases (howpublished empty too)' % n_small)
    api = _api_cases(1) + _api_cases(2) + (_api_cases(3)[::7] if tier == 'thorough' else [])
    cases += api
    info['scope'] += '; entry API on databases built from Entry objects (field and role of one name possible, empty field values): %d cases' % len(api)
    vis = _visited_cases()
    cases += vis
    info['scope'] += ('; the methods _find_crossref_entry / _find_field / _find_crossref_field / _find_person_field called with an explicit '
                      'visited set (every graph on 2 entries x note / author role per entry (+ a field author) x %d visited sets): %d cases' % (len(VISITED_SETS), len(vis)))
    uni = _unicode_cases()
    cases += uni
    info['scope'] += ('; the same methods on databases whose keys, cross-reference targets, field and role names are non-ASCII (every '
                      'pair of spellings of %d orbits that str.lower() does / does not identify: final sigma, dotted I, sharp s, Kelvin '
                      'sign, title-case digraphs, combining marks, long s in the field name): %d cases' % (len(ORBITS), len(uni)))
    small = [c for n in (0, 1, 2) for c in _exhaustive(n)]
    nodes = [dict(c, op='fieldnode') for c in (small[::3] if tier == 'quick' else small)]
    cases += nodes
    info['scope'] += ('; the template node field evaluated directly (raw and through Text.from_latex; context with the database, without '
                      'the key bib_data, with bib_data None) and BaseStyle.format_entries with / without bib_data, on %s graphs '
                      'on <=2 entries: %d cases' % ('every third of the' if tier == 'quick' else 'all', len(nodes)))
    chains = _chain_cases(tier)
    cases += chains
    info['scope'] += '; chains and cycles of %s entries looked up from the first entry: %d cases' % (
        sorted({len(c['file']) for c in chains}), len(chains))
    styles = _style_cases(tier)
    cases += styles
    info['scope'] += ('; Python-engine nodes and styles unsrt/plain/alpha on child/parent pairs (every subset of author, editor, year, title own '
                      'vs inherited x entry types book, inproceedings, misc, article x children only / all cited x min_crossrefs 1, 2) and on '
                      'sets of entries whose order and labels depend on inherited values: %d cases' % len(styles))
    info['exhaustive'] = True
    for _ in range(3000 if tier == 'quick' else 40000):
        cases.append(_random_case(rng))
    for _ in range(300 if tier == 'quick' else 6000):
        cases.append(_random_style_case(rng))
    for _ in range(1500 if tier == 'quick' else 15000):
        cases.append(_random_visited_case(rng))
    for _ in range(500 if tier == 'quick' else 5000):
        cases.append(dict(_random_case(rng), op='fieldnode'))
    for _ in range(1500 if tier == 'quick' else 15000):
        cases.append(_random_unicode_case(rng))
    # spread the slow cases (styles, long chains) evenly over the list: the work is handed to the workers in contiguous chunks
    slow = [c for c in cases if c['op'] in ('pystyles', 'findchain')]
    fast = [c for c in cases if c['op'] not in ('pystyles', 'findchain')]
    step = max(1, len(fast) // max(1, len(slow)))
    out = []
    for i, c in enumerate(fast):
        if i % step == 0 and slow:
            out.append(slow.pop())
        out.append(c)
    return out + slow


LEVEL_TEXT = ('Machine-checked proofs (Lean 4) over an executable model of Entry._find_field / _find_person_field / '
              '_find_crossref_field (with the cycle guard of proposed_fixes/C14-1), the interpreter\'s Field.value / MissingField, '
              'the template nodes field and names with the bib_data of the formatting context (proposed_fixes/C14-2): the lookup is a total '
              'function (well-founded on the number of database keys not yet followed; it follows at most as many cross-references as '
              'there are entries) and equals the reference lookup "value of the first entry along the cross-reference chain that defines '
              'the field or role", for every graph.  Tied to the code by a correspondence check exhaustive over all graphs on <=2 entries '
              '(and a slice of 3) x all field assignments incl. empty values x all queries, observed through the entry API, a generated '
              '.bst and the unsrt style, with every entry or only the first one cited, on chains of up to 1000 entries, and through the '
              'names / field nodes and the unsrt, plain, alpha styles.  The code as written now (a loop around the step function '
              '_find_crossref_entry) has its own model, proved equal to the recursive one for every visited set, tied method by method '
              '(explicit visited sets); a twin over the Unicode containers (key normaliser a parameter, run with str.lower() of the '
              'interpreter) is proved equal to a reference walk with no hypothesis at all and tied on non-ASCII keys / names; the '
              'constants of the model are regenerated from the source (Gen/C14Consts.lean, C14_constants_match).')
LEVEL_NOTE = ('Trusted: Lean kernel; axioms propext/Classical.choice/Quot.sound only; the hand-written model corresponds to the code only '
              'as far as the differential check explores; persons are modelled as already formatted strings (str(Person) is C04/C02); '
              'Text.from_latex and the templates are exercised, not modelled (values are plain tokens).  The Python engine shows person '
              'roles through the names node and computes labels and sort keys from the entry itself: an INHERITED role / year / title is '
              'not seen there (C14_python_names_partial + C14_python_names_neg; finding C14-python-engine-reads-own-persons).  '
              'DEFINITIONAL THEOREMS: in the model the BST field variable and the template field node are the same call of the one '
              'lookup function in two wrappers, so C14_engines_agree only records that wiring plus "= reference lookup"; that the two '
              'REAL engines agree (Field.value and the template field node both call Entry._find_field, and the formatting context '
              'carries bib_data) is a modelling decision carried ONLY by the correspondence check (oracle clause engines_agree: entry '
              'API, generated .bst and the unsrt style on the same databases).  C14_own_field_wins, C14_person_roles_joined and '
              'conjunct 1 of C14_python_names_partial are one-step unfoldings of the model; their independent content is '
              'C14_inherits_nearest against Spec.lookup.  Termination is Lean totality of a model of the repaired code (visited guard); '
              'C14_terminates proves walk-length independence, missing on field-free cycles and the hop bound.')
