"""C14 -- cross-referenced fields are inherited, own fields win, lookup always terminates."""
import itertools

import compat  # noqa: F401
from props.base import to_request, corpus_for  # noqa: F401
from props import dbcommon

ID = 'C14'
HANG_CLAUSE = 'terminates'
CASE_TIMEOUT = 60
LEAN_MODULES = ['PybtexModel.Props.C14']
THEOREMS = {
    'C14_own_field_wins': 'a field the entry defines itself always wins',
    'C14_inherits_nearest': 'a field the entry lacks is seen with the value of the first entry along the cross-reference chain that defines the field or role (model = reference lookup)',
    'C14_person_roles_joined': "person roles are visible as ' and '-joined fields",
    'C14_missing_iff': 'a field counts as missing iff no entry along the whole chain defines it',
    'C14_terminates': 'lookup terminates for every cross-reference graph incl. self and mutual references; a cycle without the field gives missing; walking further never changes the answer',
    'C14_dangling': 'lookup through a dangling reference gives missing, and resolution reports a bad cross-reference',
    'C14_engines_agree': 'the BST field variables (Field.value, missing$) and the template field node of the Python engine return the same lookup',
}
NAMES = ['note', 'howpublished', 'author', 'zz']
RULE = ('exhaustive: every cross-reference graph on <=N entries (keys a, B, c; each crossref in {none, each key, each key in the other '
        'case, dangling}; N=2 quick + a slice of N=3, N=3 thorough) x every assignment of the fields note, howpublished and the role '
        'author to the entries x every (entry, name) query over %r, observed through Entry._find_field (with and without bib_data), a '
        'generated .bst writing every field or <MISSING>, and the unsrt Python style; plus seeded random longer chains/cycles with '
        'mixed-case field names.  non-trivial = some entry has a crossref; distinct by case JSON' % (NAMES,))
TRUSTED = ['str.lower is ASCII in the model', "person names are of the form 'Last, First' so that str(Person(name)) == name (name splitting is C04)",
           'the Python engine is observed through the plain-text rendering of the unsrt misc template: the value of note / howpublished '
           'is recognised by a token unique to (entry, field)']
ASSUMPTIONS = ['field values are ASCII tokens; every entry is cited explicitly when observed through an engine (so that the filtered '
               'reading keeps every entry: C05 finding #16 is about the other case)']

BST = r'''ENTRY { note howpublished author zz } {} {}
FUNCTION {show} { "\bibitem{" cite$ * "}" * write$ newline$
  "note=" note missing$ { "<MISSING>" } { note } if$ * write$ newline$
  "howpublished=" howpublished missing$ { "<MISSING>" } { howpublished } if$ * write$ newline$
  "author=" author missing$ { "<MISSING>" } { author } if$ * write$ newline$
  "zz=" zz missing$ { "<MISSING>" } { zz } if$ * write$ newline$
  "crossref=" crossref missing$ { "<MISSING>" } { crossref } if$ * write$ newline$
}
READ
ITERATE {show}
'''
BST_NAMES = ['note', 'howpublished', 'author', 'zz', 'crossref']
PY_NAMES = ['note', 'howpublished']


def _plugins():
    from pybtex.database.input.bibtex import Parser
    from pybtex.style.formatting.unsrt import Style
    from pybtex.style.labels.number import LabelStyle
    from pybtex.style.names.plain import NameStyle
    from pybtex.style.sorting.none import SortingStyle
    return Parser, Style, {'bib_format': Parser, 'label_style': LabelStyle, 'name_style': NameStyle, 'sorting_style': SortingStyle}


def _lookup(entry, name, bib):
    try:
        return entry._find_field(name, bib) if bib is not None else entry._find_field(name)
    except KeyError:
        return None
    except Exception as e:  # noqa
        return compat.pybtex_error_kind(e)


def _api(text, names):
    from pybtex import errors
    from pybtex.database import parse_string
    try:
        with errors.capture():
            bib = parse_string(text, _plugins()[0])
        with_db = [[e.key, [_lookup(e, n, bib) for n in names]] for e in bib.entries.values()]
        without = [[e.key, [_lookup(e, n, None) for n in names]] for e in bib.entries.values()]
        return with_db, without
    except Exception as e:  # noqa
        k = compat.pybtex_error_kind(e)
        return k, k


def _bst(text, cits):
    from pybtex import errors
    import pybtex.bibtex
    try:
        with errors.capture() as errs:
            out = pybtex.bibtex.format_from_string(text, dbcommon.bst_path('c14', BST), citations=list(cits), min_crossrefs=2)
        rows = []
        for key, lines in dbcommon.split_bibitems(out):
            vals = {}
            for line in lines:
                n, _, v = line.partition('=')
                if n in BST_NAMES and n not in vals:
                    vals[n] = None if v == '<MISSING>' else v
            rows.append([key, [vals.get(n, 'UNPARSED') for n in BST_NAMES]])
        return rows, [dbcommon.report(e) for e in errs]
    except Exception as e:  # noqa
        k = compat.pybtex_error_kind(e)
        return k, k


def tokens(file):
    """field -> {token: value}: every value of note / howpublished in the case (values are unique tokens)"""
    t = {n: set() for n in PY_NAMES}
    for e in file:
        for n, v in e['fields']:
            if n.lower() in t:
                t[n.lower()].add(v)
    return t


def _py(text, cits, file):
    from pybtex import errors
    import pybtex
    try:
        _p, style, kw = _plugins()
        with errors.capture() as errs:
            out = pybtex.format_from_string(text, style, citations=list(cits), min_crossrefs=2,
                                            output_backend=dbcommon.key_backend(), **kw)
        toks = tokens(file)
        rows = []
        for key, lines in dbcommon.split_bibitems(out):
            body = '\n'.join(lines)
            vals = []
            for n in PY_NAMES:
                found = sorted(v for v in toks[n] if v in body)
                vals.append(None if not found else found[0] if len(found) == 1 else 'AMBIGUOUS:%r' % (found,))
            rows.append([key, vals])
        return rows, [dbcommon.report(e) for e in errs]
    except Exception as e:  # noqa
        k = compat.pybtex_error_kind(e)
        return k, k


def _api_direct(file, names):
    """The database built from Entry objects with add_entry: no .bib text, so a field and a role may share a name."""
    from pybtex import errors
    from pybtex.database import BibliographyData, Entry, Person
    try:
        bib = BibliographyData()
        with errors.capture():
            for e in file:
                entry = Entry(e['type'], fields=[(n, v) for n, v in e['fields']],
                              persons=[(r, [Person(nm) for nm in names_]) for r, names_ in e['persons']])
                bib.add_entry(e['key'], entry)
        with_db = [[e.key, [_lookup(e, n, bib) for n in names]] for e in bib.entries.values()]
        without = [[e.key, [_lookup(e, n, None) for n in names]] for e in bib.entries.values()]
        return with_db, without
    except Exception as e:  # noqa
        k = compat.pybtex_error_kind(e)
        return k, k


def impl(case):
    if case['op'] == 'findfield_api':
        api, nodb = _api_direct(case['file'], case['names'])
        return {'api': api, 'api_nodb': nodb}
    text = dbcommon.bib_text(case['file'])
    cits = [e['key'] for e in case['file']]
    api, nodb = _api(text, case['names'])
    bst, bst_reports = _bst(text, cits)
    py, py_reports = _py(text, cits, case['file'])
    out = {'api': api, 'api_nodb': nodb, 'bst': bst, 'bst_reports': bst_reports, 'py': py, 'py_reports': py_reports}
    if _leaf_eligible(case['file']):
        # the engines read the file restricted to the citations: cite ONLY the first entry; its parents are pulled in by the
        # cross-references (children come before their parents in these files, so finding C05-filtered-parent-before-child does not apply)
        leaf = [case['file'][0]['key']]
        rows, _r = _bst(text, leaf)
        out['bst_leaf'] = [vals[:4] for k, vals in rows if k.lower() == leaf[0].lower()] if isinstance(rows, list) else rows
        rows, _r = _py(text, leaf, case['file'])
        out['py_leaf'] = [vals for k, vals in rows if k.lower() == leaf[0].lower()] if isinstance(rows, list) else rows
    return out


def _leaf_eligible(file):
    """every cross-reference points to an entry further down in the file (so: no cycle, no dangling reference) and the first entry has one"""
    pos = {e['key'].lower(): i for i, e in enumerate(file)}
    if not file or len(pos) != len(file) or _xref(file[0]) is None:
        return False
    for i, e in enumerate(file):
        x = _xref(e)
        if x is not None and pos.get(x.lower(), -1) <= i:
            return False
    return True


def model_out(case, reply):
    out = dict(reply['out'])
    if case['op'] == 'findfield_api':
        return out
    idx = [case['names'].index(n) for n in PY_NAMES]
    if isinstance(out['py'], list):
        out['py'] = [[k, [vals[i] for i in idx]] for k, vals in out['py']]
    if _leaf_eligible(case['file']):
        # what the property demands for the first entry when it alone is cited: the same values (the specification's lookup)
        vals = reply['spec']['lookup'][0][1]
        out['bst_leaf'] = [[vals[case['names'].index(n)] for n in BST_NAMES[:4]]]
        out['py_leaf'] = [[vals[i] for i in idx]]
    return out


def valid_case(case):
    if set(case) != {'op', 'file', 'names'} or case['op'] not in ('findfield', 'findfield_api'):
        return False
    if case['op'] == 'findfield_api':
        return case['names'] == API_NAMES and dbcommon.valid_file(case['file'], allow_overlap=True)
    if case['names'] != NAMES:
        return False
    if not dbcommon.valid_file(case['file']):
        return False
    seen = set()
    for e in case['file']:
        for n, v in e['fields']:
            if n.lower() in PY_NAMES:
                if v in seen or len(v) < 3:
                    return False
                seen.add(v)
        if e['type'] != 'misc':
            return False
    vals = sorted(seen)
    return not any(a in b for a in vals for b in vals if a != b)


def oracle(case, impl_out, reply):
    spec = reply['spec']
    names = case['names']
    fails = []
    want = {k.lower(): vals for k, vals in spec['lookup']}
    own = {k.lower(): vals for k, vals in spec['own']}
    par = {k.lower(): vals[0] for k, vals in spec.get('parent', [])}

    def clause(key, i, got):
        k = key.lower()
        if isinstance(got, str) and got.startswith('INTERNAL:'):
            return 'terminates'
        if own[k][i] is not None:
            e = [e for e in case['file'] if e['key'].lower() == k][0]
            is_field = any(n.lower() == names[i].lower() for n, _ in e['fields'])
            return 'own_field_wins' if is_field else 'person_roles_joined'
        if want[k][i] is None:
            return 'missing_iff'
        return 'inherits_nearest'

    sides = (('api', names),) if case['op'] == 'findfield_api' else (('api', names), ('bst', names), ('py', PY_NAMES))
    for side, cols in sides:
        rows = impl_out[side]
        if isinstance(rows, str):
            fails.append('%s: the %s observation raised %s' % ('terminates' if 'Recursion' in rows else 'never_crash', side, rows))
            continue
        seen_keys = [k.lower() for k, _ in rows]
        if seen_keys != [k.lower() for k, _ in spec['lookup']]:
            fails.append('engines_agree: %s shows entries %r, the database has %r' % (side, [k for k, _ in rows], [k for k, _ in spec['lookup']]))
            continue
        for key, vals in rows:
            for n, got in zip(cols, vals):
                i = names.index(n)
                if got != want[key.lower()][i]:
                    tag = clause(key, i, got)
                    if side != 'api' and tag in ('inherits_nearest', 'missing_iff', 'own_field_wins'):
                        tag = 'engines_agree'
                    fails.append('%s: %s lookup of %r in entry %r gives %r, the property demands %r' % (tag, side, n, key, got, want[key.lower()][i]))
    if 'bst_leaf' in impl_out:
        vals = spec['lookup'][0][1]
        for side, cols in (('bst_leaf', BST_NAMES[:4]), ('py_leaf', PY_NAMES)):
            exp = [[vals[names.index(n)] for n in cols]]
            if impl_out[side] != exp:
                fails.append('engines_agree: with only %r cited (its parents are read because it refers to them) the %s observation of %r is %r, '
                             'the property demands %r' % (case['file'][0]['key'], side, cols, impl_out[side], exp))
    rows = impl_out['api_nodb']
    if isinstance(rows, list):
        for key, vals in rows:
            for i, got in enumerate(vals):
                if got != own[key.lower()][i]:
                    fails.append('own_field_wins: _find_field(%r) without bib_data in entry %r gives %r, the entry itself defines %r' % (names[i], key, got, own[key.lower()][i]))
    if case['op'] == 'findfield_api':
        return fails
    # a dangling reference is reported as a bad cross-reference by resolution (both engines cite every entry)
    dang = [[c.lower(), x.lower()] for c, x in spec['dangling']]
    for side in ('bst_reports', 'py_reports'):
        r = impl_out[side]
        if isinstance(r, list):
            got = [[x.lower() for x in rep[1:]] for rep in r if rep[0] == 'bad_crossref']
            if got != dang:
                fails.append('dangling: %s has bad cross-references %r, dangling references are %r' % (side, got, spec['dangling']))
            other = [rep for rep in r if rep[0] not in ('bad_crossref', 'repeated')]
            if other:
                fails.append('never_crash: %s contains %r' % (side, other[:2]))
    # the BST variable crossref: the stored key of the parent, or missing
    if isinstance(impl_out['bst'], list):
        for key, vals in impl_out['bst']:
            p = par.get(key.lower())
            got = vals[-1]
            if (got is None) != (p is None) or (got is not None and got.lower() != p.lower()):
                fails.append('dangling: BST crossref of %r is %r, parent is %r' % (key, got, p))
    return fails


def _xref(e):
    for n, v in e['fields']:
        if n.lower() == 'crossref':
            return v
    return None


def buckets(case, impl_out):
    file = case['file']
    b = ['n=%d' % len(file), case['op']]
    if case['op'] == 'findfield_api' and any({n.lower() for n, _ in e['fields']} & {r.lower() for r, _ in e['persons']} for e in file):
        b.append('field_and_role_same_name')
    low = {e['key'].lower(): e for e in file}
    shapes = set()
    for e in file:
        seen, cur, steps = {e['key'].lower()}, e, 0
        while True:
            x = _xref(cur)
            if x is None:
                shapes.add('chain%d' % min(steps, 3))
                break
            if x.lower() not in low:
                shapes.add('dangling')
                break
            if x.lower() in seen:
                shapes.add('self_loop' if x.lower() == cur['key'].lower() else 'cycle')
                break
            seen.add(x.lower())
            cur = low[x.lower()]
            steps += 1
    b += sorted(shapes)
    api = impl_out.get('api')
    if isinstance(api, list):
        flat = [v for _k, vals in api for v in vals]
        if any(isinstance(v, str) and v.startswith('INTERNAL:') for v in flat):
            b.append('api_internal_error')
        if any(v is None for v in flat):
            b.append('some_missing')
    for side in ('bst', 'py'):
        if isinstance(impl_out.get(side), str):
            b.append(side + '_' + impl_out[side])
    return b


def nontrivial(case, impl_out):
    return any(_xref(e) is not None for e in case['file'])


def corpus():
    return corpus_for(ID)


KEYS = ['a', 'B', 'c']
OTHER = {'a': 'A', 'B': 'b', 'c': 'C'}
AUTH = {'a': ['Aa, Xa', 'Ab, Ya'], 'B': ['Ba, Xb'], 'c': ['Ca, Xc', 'Cb, Yc']}


def _entry(key, xref, has_note, has_how, has_auth, names=('note', 'howpublished', 'crossref', 'author'), tag=None):
    tag = tag or key
    fields = []
    if has_note:
        fields.append([names[0], 'Nn' + tag])
    if xref is not None:
        fields.append([names[2], xref])
    if has_how:
        fields.append([names[1], 'Hh' + tag])
    persons = [[names[3], AUTH.get(key, ['Zz, Q' + 'x'])]] if has_auth else []
    return {'key': key, 'type': 'misc', 'fields': fields, 'persons': persons}


def _graphs(n):
    keys = KEYS[:n]
    targets = [None] + keys + [OTHER[k] for k in keys] + ['zz']
    return keys, list(itertools.product(targets, repeat=n))


def _exhaustive(n, rng=None, sample=None):
    keys, graphs = _graphs(n)
    assigns = list(itertools.product(itertools.product([False, True], repeat=3), repeat=n))
    combos = [(g, a) for g in graphs for a in assigns]
    if sample is not None and sample < len(combos):
        combos = rng.sample(combos, sample)
    cases = []
    for g, a in combos:
        file = [_entry(k, x, *flags) for k, x, flags in zip(keys, g, a)]
        cases.append({'op': 'findfield', 'file': file, 'names': NAMES})
    return cases


API_NAMES = ['author', 'note', 'zz']


def _api_cases(n):
    """every graph on n entries x every assignment of {field author, role author, field note}: a field and a role
    of the same name are possible here (the field must win)"""
    keys, graphs = _graphs(n)
    assigns = list(itertools.product(itertools.product([False, True], repeat=3), repeat=n))
    cases = []
    for g in graphs:
        for a in assigns:
            file = []
            for k, x, (fa, ra, fn) in zip(keys, g, a):
                fields = ([['author', 'Fa' + k]] if fa else []) + ([['crossref', x]] if x is not None else []) + ([['Note', 'Nn' + k]] if fn else [])
                file.append({'key': k, 'type': 'misc', 'fields': fields, 'persons': [['Author', AUTH[k]]] if ra else []})
            cases.append({'op': 'findfield_api', 'file': file, 'names': API_NAMES})
    return cases


POOL = ['k1', 'K2', 'knuth84', 'Lam:86', 'x', 'Y', 'book-1', 'Proc.A', 'zeta', 'Eta']
LETTERS = 'abcdefghij'


def _cased(rng, s):
    return rng.choice([s, s, s.upper(), s.capitalize(), s.swapcase()])


def _random_case(rng):
    n = rng.randint(1, 9)
    keys = rng.sample(POOL, n)
    file = []
    shape = rng.random()
    for i, k in enumerate(keys):
        r = rng.random()
        if shape < 0.4:      # one long chain, possibly closed into a cycle
            x = keys[i + 1] if i + 1 < n else (rng.choice(keys) if rng.random() < 0.5 else None)
        elif r < 0.25:
            x = None
        elif r < 0.9:
            x = rng.choice(keys)
        else:
            x = 'nowhere'
        if x is not None and rng.random() < 0.3:
            x = x.swapcase()
        names = (_cased(rng, 'note'), _cased(rng, 'howpublished'), _cased(rng, 'crossref'), _cased(rng, 'author'))
        p = 0.25 if shape < 0.4 else 0.5
        e = _entry(k, x, rng.random() < p, rng.random() < p, rng.random() < p, names, tag=LETTERS[i] * 2)
        if e['persons']:
            e['persons'][0][1] = ['P%s, Q%s' % (LETTERS[i], LETTERS[j]) for j in range(rng.randint(1, 3))]
        file.append(e)
    return {'op': 'findfield', 'file': file, 'names': NAMES}


def gen_cases(tier, rng, info):
    cases = []
    for n in (0, 1, 2):
        cases += _exhaustive(n)
    n_small = len(cases)
    if tier == 'quick':
        import random
        fixed = random.Random(20260926)   # the slice of the 3-entry space does not depend on the seed
        cases += _exhaustive(3, fixed, 12000)
        info['scope'] = ('every graph on <=2 entries (crossref in {none, each key, each key in the other case, zz}) x every assignment of '
                         'note/howpublished/author x all queries: %d cases; plus a fixed slice of 12000 of the 262144 three-entry cases' % n_small)
    else:
        cases += _exhaustive(3)
        info['scope'] = ('every graph on <=3 entries (crossref in {none, each key, each key in the other case, zz}: 512 graphs on 3 entries) '
                         'x every assignment of note/howpublished/author (512) x all queries: %d cases' % len(cases))
    api = _api_cases(1) + _api_cases(2) + (_api_cases(3) if tier == 'thorough' else [])
    cases += api
    info['scope'] += '; entry API on databases built from Entry objects (field and role of one name possible): %d cases' % len(api)
    info['exhaustive'] = True
    for _ in range(3000 if tier == 'quick' else 40000):
        cases.append(_random_case(rng))
    return cases


LEVEL_TEXT = ('Machine-checked proofs (Lean 4) over an executable model of Entry._find_field / _find_person_field / '
              '_find_crossref_field (with the cycle guard of proposed_fixes/C14-1), the interpreter\'s Field.value / MissingField and '
              'the template field node with the bib_data of the formatting context (proposed_fixes/C14-2): the lookup is a total '
              'function (well-founded on the number of database keys not yet followed) and equals the reference lookup "value of the '
              'first entry along the cross-reference chain that defines the field or role", for every graph.  Tied to the code by a '
              'correspondence check exhaustive over all graphs on <=3 entries x all field assignments x all queries, observed through '
              'the entry API, a generated .bst and the unsrt style.')
LEVEL_NOTE = ('Trusted: Lean kernel; axioms propext/Classical.choice/Quot.sound only; the hand-written model corresponds to the code only '
              'as far as the differential check explores; persons are modelled as already formatted strings (str(Person) is C04/C02); '
              'Text.from_latex and the unsrt template are exercised, not modelled (values are plain tokens); the unsrt style shows roles '
              'through the names node, which does not inherit, so role inheritance is observed through the API and the BST engine only.')
