"""C11, function-level correspondence: the classes and helpers of pybtex/bibtex/names.py one by one.

ops (driver: lean/PybtexModel/Drv/C11.lean, model: Model/NameFormatFns.lean + Model/NameFormat.lean)
  c11parts     NameFormat(fmt).parts            -- every Text / NamePart object attribute by attribute (+ __repr__)
  c11namepart  NamePart([pre, fc, delim, post]) -- the object, .format(person) on a person given by token lists, == with the
                                                   part rebuilt from its own __repr__ list
  c11person    NameFormat(fmt) on a person given by its five token lists (tokens no name string yields: empty, with blanks ...)
  c11join      join(words, tie, space), tie_or_space(word, tie, space)
  c11abbr      bibtex_abbreviate(s, delim), bibtex_first_letter(s)
  c11consts    the constants of names.py the model hard-codes (enough_chars, NamePart.types and what get_part returns for
               them, the legal letters, the default delimiter of bibtex_abbreviate, the default tie / space of join)
"""
import ast
import itertools
import string

import compat

FN_OPS = ('c11parts', 'c11namepart', 'c11person', 'c11join', 'c11abbr', 'c11consts')
SLOTS = ('first', 'middle', 'prelast', 'last', 'lineage')


def _err(e):
    return {'error': compat.pybtex_error_kind(e)}


def _person(case):
    from pybtex.database import Person
    p = Person()
    for s in SLOTS:
        setattr(p, s + '_names', list(case.get(s, [])))
    return p


def _repr_list(part):
    r = repr(part)
    if not (r.startswith('NamePart(') and r.endswith(')')):
        raise AssertionError('unexpected repr %r' % r)
    return ast.literal_eval(r[len('NamePart('):-1])


def _np(part):
    return {'pre_text': part.pre_text, 'format_char': part.format_char, 'abbreviate': part.abbreviate, 'delimiter': part.delimiter,
            'post_text': part.post_text, 'tie': part.tie, 'repr': _repr_list(part)}


def _obj(part):
    from pybtex.bibtex.names import Text
    if isinstance(part, Text):
        # Text.__eq__: equal to a Text with the same text, different from any NamePart
        return {'text': part.text, 'eq': bool(part == Text(part.text)) and not (part == Text(part.text + 'x'))}
    return _np(part)


def _raw_parts(names, fmt):
    """what parse_name_part RETURNS for every part ([pre, letters, separator, post] before NamePart.__init__ touches it): the parser is
    run with the module's NamePart replaced by a recorder for the duration of the call (one process, one thread per worker)"""
    real = names.NamePart
    names.NamePart = lambda format_list: ('raw', list(format_list))
    try:
        out = []
        for p in names.NameFormatParser(fmt).parse():
            if isinstance(p, tuple):
                pre, fc, delim, post = p[1]
                out.append({'pre': pre, 'fc': fc, 'delim': delim, 'post': post})
            else:
                out.append({'text': p.text})
        return out
    except Exception as e:  # noqa
        return _err(e)
    finally:
        names.NamePart = real


def _res(f):
    try:
        return {'str': f()}
    except Exception as e:  # noqa
        return _err(e)


def impl(case):
    from pybtex import errors
    from pybtex.bibtex import names
    op = case['op']
    with errors.capture() as captured:
        if op == 'c11parts':
            try:
                out = {'parts': [_obj(p) for p in names.NameFormat(case['fmt']).parts]}
            except Exception as e:  # noqa
                out = _err(e)
            out['raw'] = _raw_parts(names, case['fmt'])
        elif op == 'c11namepart':
            try:
                part = names.NamePart([case['pre'], case['fc'], case['delim'], case['post']])
                person = _person(case)
                again = names.NamePart(_repr_list(part))
                out = {'part': _np(part), 'formatted': _res(lambda: part.format(person)), 'eq_repr': bool(again == part)}
            except Exception as e:  # noqa
                out = _err(e)
        elif op == 'c11person':
            def run():
                nf = names.NameFormat(case['fmt'])
                person = _person(case)
                return ''.join(part.format(person) for part in nf.parts)      # the body of NameFormat.format after Person(name)
            out = _res(run)
        elif op == 'c11join':
            out = {'join': _res(lambda: names.join(case['words'], case['tie'], case['space'])),
                   'tie_or_space': [_res(lambda w=w: names.tie_or_space(w, case['tie'], case['space'])) for w in case['words']]}
        elif op == 'c11abbr':
            from pybtex.bibtex.utils import bibtex_abbreviate, bibtex_first_letter
            out = {'abbreviate': _res(lambda: bibtex_abbreviate(case['s'], case['delim'])),
                   'first_letter': _res(lambda: bibtex_first_letter(case['s']))}
        elif op == 'c11consts':
            out = _consts(names)
        else:
            raise AssertionError(op)
    if captured:
        return {'error': 'UNEXPECTED-REPORT:' + ','.join(type(e).__name__ for e in captured)}
    return out


def _consts(names):
    from pybtex.bibtex.utils import bibtex_abbreviate
    probe = _person({'first': ['1'], 'middle': ['2'], 'prelast': ['3'], 'last': ['4'], 'lineage': ['5']})
    types = dict(names.NamePart.types)

    def accepted(c):
        try:
            names.NameFormat('{' + c + '}')
            return True
        except Exception:  # noqa
            return False
    return {'enough_chars': names.enough_chars,
            'types': types,
            'get_part': {c: _try(lambda c=c: list(probe.get_part(types[c]))) for c in sorted(types)},
            'legal_letters': ''.join(c for c in string.ascii_lowercase if accepted(c)),
            'abbreviate_default_delimiter': _res(lambda: bibtex_abbreviate('a-b')),
            'join_defaults': [_res(lambda: names.join(['ab', 'ab'])), _res(lambda: names.join(['ab', 'ab', 'ab'])),
                              _res(lambda: names.join(['abc', 'ab', 'ab']))]}


def _try(f):
    try:
        return f()
    except Exception:  # noqa
        return None


def oracle(case, io, reply, wellformed):
    """Clauses of the property on the function-level ops: a malformed format is rejected by the constructor, a well-formed one accepted;
    formatting a person object follows the BibTeX rule (reference value from Spec/NameFormat.lean); nothing ends in a non-pybtex error."""
    fails = []
    op = case['op']
    if op in ('c11parts', 'c11person'):
        fmt = case['fmt']
        call = 'NameFormat(%r)' % fmt if op == 'c11parts' else 'NameFormat(%r) on the person %r' % (fmt, {s: case.get(s, []) for s in SLOTS})
        wf = wellformed(fmt)
        if 'error' in io:
            k = io['error']
            if k.startswith('INTERNAL') or k.startswith('UNEXPECTED'):
                fails.append('%s: %s raised %s (not a pybtex error)' % ('wellformed_accepted' if wf else 'malformed_rejected', call, k))
            elif wf and k != 'BibTeXError':
                fails.append('wellformed_accepted: %s raised %s on a well-formed format' % (call, k))
        else:
            if not wf:
                fails.append('malformed_rejected: %s is accepted although the format is malformed' % call)
            spec = (reply or {}).get('spec')
            if op == 'c11person' and spec is not None and 'str' in spec and spec['str'] != io.get('str'):
                fails.append('matches_bibtex: %s = %r, BibTeX rule gives %r' % (call, io.get('str'), spec['str']))
    elif 'error' in io and (io['error'].startswith('INTERNAL') or io['error'].startswith('UNEXPECTED')):
        fails.append('total: %s %r raised %s (not a pybtex error)' % (op, {k: v for k, v in case.items() if k != 'op'}, io['error']))
    return fails


def valid_case(case):
    op = case.get('op')
    lists = all(isinstance(case.get(s, []), list) and all(isinstance(t, str) for t in case.get(s, [])) for s in SLOTS)
    if op == 'c11parts':
        return isinstance(case.get('fmt'), str)
    if op == 'c11person':
        return isinstance(case.get('fmt'), str) and lists and all(s in case for s in SLOTS)
    if op == 'c11namepart':
        return (isinstance(case.get('pre'), str) and isinstance(case.get('post'), str) and lists and all(s in case for s in SLOTS)
                and (case.get('delim') is None or isinstance(case['delim'], str)) and 'delim' in case and 'fc' in case
                and (case['fc'] is None or (isinstance(case['fc'], str) and case['fc'].lower() in FCS_LOWER)))
    if op == 'c11join':
        return isinstance(case.get('words'), list) and all(isinstance(w, str) for w in case['words']) and isinstance(case.get('tie'), str) \
            and isinstance(case.get('space'), str)
    if op == 'c11abbr':
        return isinstance(case.get('s'), str) and 'delim' in case and (case['delim'] is None or isinstance(case['delim'], str))
    return op == 'c11consts'


FCS = [None, '', 'f', 'ff', 'l', 'll', 'v', 'vv', 'j', 'jj', 'F', 'LL', 'Vv', 'jJ']
FCS_LOWER = ('', 'f', 'ff', 'l', 'll', 'v', 'vv', 'j', 'jj')
DEEP = '{' * 101 + 'x' + '}' * 101
PERSONS = [
    {'first': ['Jean', 'Paul'], 'middle': [], 'prelast': ['de', 'la'], 'last': ['Fontaine'], 'lineage': ['Jr']},
    {'first': [''], 'middle': ['Al Bob'], 'prelast': [], 'last': ['X-Y'], 'lineage': ['a, b']},
    {'first': [], 'middle': ['E.'], 'prelast': [''], 'last': [''], 'lineage': []},
    {'first': ['', ''], 'middle': [''], 'prelast': ['', 'x'], 'last': ['', '', ''], 'lineage': ['']},
    {'first': ['A', 'B', 'C', 'D'], 'middle': ['E'], 'prelast': ['v', 'w', 'x'], 'last': ['L1', 'L2', 'L3'], 'lineage': ['j1', 'j2', 'j3']},
    {'first': ['{'], 'middle': ['}'], 'prelast': ['}{'], 'last': ['a{b', 'c}d'], 'lineage': ['\\']},
    {'first': ['Ab'], 'middle': [], 'prelast': [], 'last': [DEEP, 'b', 'c'], 'lineage': []},
    {'first': [DEEP], 'middle': [], 'prelast': ['a', 'b', DEEP], 'last': ['x'], 'lineage': []},
    {'first': [], 'middle': [], 'prelast': [], 'last': [], 'lineage': []},
    {'first': ['Édouard', '毛'], 'middle': ['ǅon'], 'prelast': ['von', 'ⓥ'], 'last': ['É-é', '²x'], 'lineage': ['٣']},
    {'first': ['a~b', ' ', '\t'], 'middle': ['x y z'], 'prelast': ['~'], 'last': ['a b', '-', '--'], 'lineage': ['-a-', '']},
    {'first': ["{\\'E}mile", "\\'Emile"], 'middle': ['{\\relax Ab}-{C}d'], 'prelast': ['{\\von}'], 'last': ['Zo{l}a', 'ab'], 'lineage': ['{Jr}']},
    {'first': ['ab'], 'middle': ['abc'], 'prelast': ['a', 'abc', 'd'], 'last': ['abc', 'a', 'd'], 'lineage': ['{\\a}b', 'c', 'd']},
    {'first': ['Jean-Paul', 'Marie--Claire', '-X'], 'middle': ['Y-'], 'prelast': [], 'last': ['Phony-Baloney'], 'lineage': []},
]
WORDS = ['', 'a', 'ab', 'abc', 'abcd', '{\\a}b', '{\\abc}', '{ab}c', 'a b', '~', '{', '}', 'é', '毛泽', DEEP, '{' * 100 + '}' * 100, '\\ab', 'a{', 'J.', 'A.-B']
TIES = [('~', ' '), ('.~', '. '), ('', ''), ('-', '+'), (' ', '~'), ('{}', 'xyz')]
ABBR = ['', 'Andrew Blake', 'Jean-Pierre', 'Jean--Pierre', '{Andrew} Blake', '1Andrew', '{\\TeX} markup', '123 123 123 {}', '\\LaTeX Project Team',
        '-', '--', 'a-', '-a', 'J-1-K', "Jean-\\'Emile", "Jean-{\\'E}mile", '{Jean-Paul}', 'Jean-{P}aul', '{-}Jean', 'É-é', '毛-泽', '²Al', 'ⓐl', 'ǅon',
        '{\\', '{\\}', '\\', '{', '}', '}{', DEEP, 'a' + DEEP, '{' * 100 + 'x', 'x-' + DEEP, '{\\a-b}-c', 'a{-}b-c', 'a -b', '٣Al', 'ªº', 'İstanbul', 'ß', '\U0001d400b',
        '{}', '{}-{}', '{\\relax}-x', 'A.-B.', '~-~']
DELIMS = [None, '', '.', '-', '{ }', '.-', 'xyz']


def gen(tier, rng, info, pools):
    """pools: the format / name pools of props/c11.py (one-part formats, standard formats ...)"""
    quick = tier == 'quick'
    cases = [{'op': 'c11consts'}]
    # NameFormat(fmt).parts on every format family of the end-to-end check
    fmts = list(dict.fromkeys(pools['parts'] + pools['STD'] + pools['KEYFMTS'] + pools['UNI_FMTS'] + pools['UNBALANCED']
                              + ['{' + a + j + b + '}' for a in pools['RUNS2'] for j in pools['JOINERS'] for b in pools['RUNS2'][:4]]
                              + [''.join(t) for n in range(0, 4 if quick else 5) for t in itertools.product(pools['MAL'], repeat=n)]))
    for _ in range(1500 if quick else 30000):
        fmts.append(''.join(rng.choice(pools['ufpool']) for _ in range(rng.randint(1, 9))))
    for d in (1, 99, 100, 101, 600, 1200):
        g = '{' * d + 'x' + '}' * d
        fmts += ['{' + g + 'ff}', '{ff{' + g + '}}', '{ff' + g + '~}', 'a' + g, '{ff{' + g + '}']
    nparts = len(fmts)
    cases += [{'op': 'c11parts', 'fmt': f} for f in fmts]
    # NamePart(format_list): every letter form x pre x separator x post, a person in rotation
    pres = pools['PRE'] + ['~', 'x~~', '{a}~', '1']
    posts = pools['POST'] + ['~~~', 'x~y', '{~}']
    nnp = 0
    for i, (fc, pre, d, post) in enumerate(itertools.product(FCS, pres, pools['DELIM'], posts)):
        for k in range(1 if quick else 3):
            c = {'op': 'c11namepart', 'pre': pre, 'fc': fc, 'delim': d, 'post': post}
            c.update(PERSONS[(i + 5 * k) % len(PERSONS)])
            cases.append(c)
            nnp += 1
    # NameFormat(fmt) on person objects no name string yields
    pf = pools['KEYFMTS'] + pools['STD'] + (pools['parts'][::11] if quick else pools['parts']) + ['{ll', '{fl}', '{f}{_}', '}', 'x{ff{-}', '{ff}}']
    nper = 0
    for p in PERSONS:
        for f in pf:
            c = {'op': 'c11person', 'fmt': f}
            c.update(p)
            cases.append(c)
            nper += 1
    toks = WORDS + [t for p in PERSONS for s in SLOTS for t in p[s]] + pools['tokens']
    for _ in range(1500 if quick else 30000):
        c = {'op': 'c11person', 'fmt': rng.choice(pools['KEYFMTS'] + pools['STD']) if rng.random() < 0.7 else
             ''.join(rng.choice(pools['fpool']) for _ in range(rng.randint(1, 8)))}
        for s in SLOTS:
            c[s] = [rng.choice(toks) for _ in range(rng.choice([0, 0, 1, 1, 2, 3, 4]))]
        cases.append(c)
        nper += 1
    # join / tie_or_space
    njoin = 0
    short = WORDS[:8] + [DEEP]
    for n in range(0, 4):
        for ws in itertools.product(short if n < 3 else short[1:6], repeat=n):
            for tie, space in (TIES[:2] if n == 3 else TIES):
                cases.append({'op': 'c11join', 'words': list(ws), 'tie': tie, 'space': space})
                njoin += 1
    for _ in range(800 if quick else 20000):
        tie, space = rng.choice(TIES)
        cases.append({'op': 'c11join', 'words': [rng.choice(WORDS + toks) for _ in range(rng.randint(0, 7))], 'tie': tie, 'space': space})
        njoin += 1
    # bibtex_abbreviate / bibtex_first_letter
    nabbr = 0
    strs = list(dict.fromkeys(ABBR + toks + pools['names']))
    for s in strs:
        for d in (DELIMS if len(s) < 40 else DELIMS[:2]):
            cases.append({'op': 'c11abbr', 's': s, 'delim': d})
            nabbr += 1
    info['scope'] = info.get('scope', '') + ('; function level: NameFormat(fmt).parts on %d formats; %d NamePart(format_list) objects (%d letter forms x %d pre x '
                                             '%d separators x %d post) each formatting one of %d person objects; NameFormat on person objects (%d systematic + '
                                             'random token lists: %d cases); join / tie_or_space on every word list of length <= 2 over %d words x %d tie/space '
                                             'pairs + length 3 + random (%d cases); bibtex_abbreviate / bibtex_first_letter on %d strings x separators '
                                             '(%d cases); constants of names.py (1 case)' % (
                                                 nparts, nnp, len(FCS), len(pres), len(pools['DELIM']), len(posts), len(PERSONS), len(PERSONS), nper,
                                                 len(short), len(TIES), njoin, len(strs), nabbr))
    return cases
