"""C02 -- write/read round trip and cross-format conversion preserve the database."""
import io
import itertools
import os
import pickle
import re
import shutil
import tempfile

import compat  # noqa: F401
import bibgen
from props.base import to_request, corpus_for  # noqa: F401

ID = 'C02'
# ops that observe a private intermediate of the code (the value tree Writer._to_dict builds, the private Writer._encode): a disagreement there alone -- every public op of the run agreeing,
# no oracle clause failing -- is not counted (harness/check.py, PRIVATE_OPS)
PRIVATE_OPS = ('yamltree', 'encode', 'encodeenc')

LEAN_MODULES = ['PybtexModel.Props.C02', 'PybtexModel.Props.C02x', 'PybtexModel.Props.C02y']
THEOREMS = {
    'C02_person_roundtrip': 'persons: for every person satisfying the explicit predicate WFPerson, Person(_format_name(p)) = Person(str(p)) = p (same five token lists, nothing reported) and both texts coincide',
    'C02_person_roundtrip_comma_needed': 'persons: kernel-evaluated witnesses for repair C02-1 - "Last, Jr" is read with Jr as first name and "World Bank" with World as first name, "Last, Jr," and "World Bank," are read back correctly',
    'C02_person_roundtrip_backslash_neg': 'persons: the proviso "no token ends in a backslash" cannot be dropped (Person("A\\\\ B C") is written "C, A\\ B" and read back without the backslash)',
    'C02_person_parts_roundtrip': 'persons, YAML / BibTeXML path: Person(first=, middle=, prelast=, last=, lineage=) from the five get_part_as_text strings gives the person back whenever its tokens are clean (no structural condition)',
    'C02_wfperson_of_parse': 'domain: every person Person(name) produces for a balanced name with a von/Last token satisfies WFPersonCore (= WFPerson minus "no token ends in a backslash"), so the claimed domain is what the reader itself produces',
    'C02_bibtex_field': 'bibtex, stage 1: a balanced value the encoder leaves alone is written ,\\n    name = "value" ({value} when it contains a double quote) and that spelling is a well-formed literal for the .bib reader',
    'C02_bibtex_entry': 'bibtex, stage 2: the text of an entry of the domain is the C01 rendering of the command (roles as " and "-joined name lists, then fields) under the writer layout, the command is well-formed for C01 and denotes exactly the entry; every name list is read back as the same persons',
    'C02_bibtex_roundtrip': 'bibtex, stage 3: WFDb d and encode = id on strings free of # % & _ ~  =>  the writer succeeds and parse_string(text) raises nothing, reports nothing and returns the same keys in order, entry types as written, fields with values in order, persons per role in order, and the preamble (as one string)',
    'C02_bibtex_roundtrip_example': 'bibtex: the exact writer text of a two-entry example using every construct (kernel evaluation)',
    'C02_yaml_logic': 'yaml: IF PyYAML is lossless on the ONE tree t = _to_dict(d) (load(dump(t)) = t, asked per tree - PyYAML loses some trees) THEN process_entry(_to_dict(d)) = d on WFDbTree true (field order, roles on lower-cased keys, the type key, five name parts, preamble as one string), nothing reported',
    'C02_xml_logic': 'bibtexml: IF the XML libraries are lossless on the ONE tree t = _write(d) (asked per tree) THEN process_entry(_write(d)) = d on WFDbTree false (field order, roles in any letter case, person elements with five name parts), nothing reported; the format carries no preamble',
    'C02_chain': 'chains, FINAL database only: any list of formats, d in the domain of each, serialisers lossless on the trees written along THIS chain (stages; nothing asked of other trees), encode = id off # % & _ ~  =>  write / convert / ... / read ends with the same entries; preamble as one string, lost exactly when BibTeXML is on the way',
    'C02_chain_steps': 'chains, every step, both preserve_case modes: under the hypotheses of C02_chain each step is written without error and read back with NOTHING reported (no bad name, repeated key or other problem; lower() reports nothing) as canonFor of what was written; chainLog = chain + the per-step reports (same database, no hypotheses)',
    'C02_lower': 'lower-casing, FINAL database only: preserve_case=False, at least one conversion, d in the domain of each format, serialisers lossless on the trees written along this chain  =>  the chain ends with the entries of lowerSpec d (keys, types, field names, role names lower-cased, all else and every order untouched)',
    'C02_lower_only_case': 'lower-casing: BibliographyData.lower() = lowerSpec, nothing reported, on identifiers distinct up to case, and the domains are closed under lowerSpec (these two conjuncts concern the model); the other seven conjuncts are readability facts about the spec function lowerSpec ALONE: only keys / types / field / role names change, by str.lower()',
    'C02_name_tests_unicode': 'identifiers beyond ASCII: name.lower() in Person.valid_roles and name.lower() == "type" give the same answer with str.lower() and with the ASCII lower-casing of the models for EVERY string (only U+212A has an ASCII lower-case form, k); lower-casing is idempotent, never yields an ASCII capital and stays in its domain',
    'C02_quantifier_partial': 'relative to WFDbQ (our formalisation of the quantifier, see C02_quantifier_exact): a WFDbQ database with only non-empty author / editor roles, no field called type (YAML), none of # % & _ ~ (BibTeX) is in the claimed domain and - serialiser lossless on its one tree - reads back with nothing reported; the preamble LIST comes back joined (dropped by BibTeXML)',
    'C02_quantifier_exact': 'claimed domain = WFDbQ minus the four recorded restrictions (iff) - relative to WFDbQ, our formalisation of the quantifier, which additionally excludes: a field named author / editor, a role named type, field = role name up to case, U+0130 / U+03A3, persons outside WFPerson; BibTeX: non-NAME / reserved identifiers, odd keys, nesting > 100 (full list: LEVEL_NOTE)',
    'C02_other_role_neg': 'finding C02-role-not-author-editor (kernel-evaluated counterexample inside the quantifier): a person under the role translator comes back as a text field translator in all three formats (BibTeX: the name; YAML: str() of the list of dictionaries; BibTeXML: the indentation), persons lost',
    'C02_empty_role_neg': 'finding C02-empty-role (counterexample): persons["author"] = [] is gone after a round trip through any format',
    'C02_yaml_type_neg': 'finding C02-yaml-type-field (counterexample): through YAML the value of a field "type" becomes the entry type and the field is gone, a field "Type" is dropped; BibTeX and BibTeXML carry it',
    'C02_five_neg': 'finding C02-five-characters (counterexample): with the encoder that re-escapes # % & _ ~ the value R&D 100% a_b #1 x~y is written and read back escaped; with the identity encoder it comes back unchanged',
    'C02_repr_logic': 'repr / eval: evaluating the constructor calls Entry.__repr__ (type as written, field pairs, Person(str(p)) per role) and BibliographyData.__repr__ (key / entry pairs, preamble list) print gives the database back - any role names, empty roles, the preamble list unjoined - when identifiers are distinct up to case and persons are WFPerson; nothing reported',
    'C02_serial_witness': 'non-vacuity of the serialiser hypotheses: a Serial lossless on EVERY tree (identity encoder, prefix-code printers) exists - a Lean artefact, not PyYAML / xml.*, which lose some trees; C02_chain and C02_lower instantiated with it hold without hypotheses on the example database',
    'C02_encode_exact': 'encoder (model encodeLatex of Writer._encode with the default encoding, tied by the op encode and by the regenerated latexcodec table): for EVERY string, encodeLatex s = s if and only if s contains none of # % & _ ~, and the result is never shorter; no hypotheses',
    'C02_bibtex_roundtrip_latex': 'bibtex with the MODELLED encoder in place of the encoder hypothesis: WFDb d  =>  write_stream with _encode = encodeLatex succeeds and the text is read back with nothing raised or reported as the same entries and preamble (one string); no hypothesis about latexcodec left in the statement (the tie of encodeLatex to latexcodec is the differential check)',
    'C02_chain_latex': 'chains with the modelled encoder: for every Serial whose encode field is encodeLatex the encoder hypothesis shared by C02_chain / C02_lower / C02_chain_steps holds (conjunct 1), and the conclusions of C02_chain and C02_lower are restated under the remaining hypotheses (d in the domain of each format, serialisers lossless on the trees written along the chain); C02_chain_steps follows by applying conjunct 1, not restated',
    'C02_encode_any_encoding': 'any output encoding (Writer(encoding=...), to_bytes / to_file with encoding=): for EVERY string all of whose characters the encoding can represent, codecs.encode(s, "ulatex+<encoding>") - C09 model of the codec, the function both the LaTeX backend and this writer call - equals encodeLatex s, so a string free of # % & _ ~ is written unchanged under every such encoding (composition with C09; function-level op encodeenc)',
    'C02_encode_any_encoding_neg': 'the hypothesis "the encoding can hold the string" cannot be dropped (kernel-evaluated): with ascii an e-acute is written as a LaTeX macro the .bib reader does not translate back, en dash / dagger likewise, a CJK character raises UnicodeEncodeError - the reason ASSUMPTIONS keeps to encodings that can hold every string',
    'C02_encode_comments': '_encode_with_comments (preamble): for EVERY text free of # & _ ~ (percent signs allowed) the result is the text itself; split("%") / "%".join is the identity on every text. Writer level only: the claimed round-trip domain still excludes % in preambles',
    'C02_bibtex_roundtrip_percent': 'bibtex, a hypothesis removed for the preamble: on WFDbP (= WFDb with the preamble only required to be balanced, white-space-normalised and free of # & _ ~ - percent signs allowed; contains WFDb, proved for every database) the writer with the modelled encoder succeeds and the text is read back with nothing raised or reported as the same entries and the same preamble (one string); exercised by the stream preamble-percent with the oracle on',
    'C02_xml_text_lexical': 'BibTeXML text, lexical level, EVERY string, no hypotheses: escape(s) is read back as s by the reference reading of character data (Spec xmlUnescape: five predefined entities + three character references, compared with expat by the op xmlesc), quoteattr(s) is a quoted value free of its own quote character that denotes s and contains no literal tab / newline / return. Tags are written raw and stay under the per-tree hypothesis',
    'C02_xml_text_example': 'BibTeXML text: the exact characters of to_string("bibtexml") (indentation, xmlns declaration on the first element only, attribute quoting, empty element, empty role skipped, preamble not written) and of the declaration written by write_stream, on an example (kernel evaluation of the model compared with the real writer by the op xmltext)',
    'C02_tables_agree': '[model wiring] the constants the models hard-code equal the tables regenerated on every run from latexcodec (all BMP code points, every 16th above), xml.sax.saxutils, XMLGenerator and _PrettyXMLWriter (Gen/C02Tables.lean): the five characters and their images, space-eating after ~ only, UTF-8, escape / quoteattr images, namespace, XML declaration, indentation width 4, the five part names',
    'C02_domain_percent_wider': 'wider chain domain inDomainP (= inDomain with WFDbP in place of WFDb for BibTeX): contains inDomain for every format and database, coincides with it for YAML / BibTeXML, and is strictly wider for BibTeX (kernel-evaluated database with % in the preamble: in inDomainP, not in inDomain)',
    'C02_bibtex_roundtrip_percent_any': 'bibtex on WFDbP, encoder a parameter: C02_bibtex_roundtrip_percent for ANY encoder that leaves strings free of # % & _ ~ unchanged (hypothesis henc, the one of C02_bibtex_roundtrip) - writer succeeds, text read back with nothing raised or reported, same entries, same preamble as one string; hypotheses: henc, WFDbP d. Not proved: anything about # & _ ~, or % outside the preamble',
    'C02_chain_percent': 'chains on the wider domain (C02_chain with inDomainP): hypotheses - encoder leaves # % & _ ~-free strings alone (henc), d in inDomainP f for every format of the list (BibTeX: WFDbP, preamble may contain %), serialiser LosslessOn every (format, database) of stages true fs d (nothing asked for BibTeX hops); conclusion - chain S true fs d = ok (chainDb fs d): entries unchanged, preamble one string with its percent signs, [] iff BibTeXML on the way. Final database only (steps: C02_chain_steps_percent)',
    'C02_lower_percent': 'lower-casing on the wider domain (C02_lower with inDomainP, preserve_case=False, at least two formats): hypotheses henc, d in inDomainP of every format, LosslessOn along stages false; conclusion - the chain succeeds, entries = entries of lowerSpec d, preamble = that of chainDb (percent signs kept)',
    'C02_chain_steps_percent': 'nothing reported on the way, wider domain (C02_chain_steps with inDomainP, both preserve_case modes): hypotheses henc, d in inDomainP of every format, LosslessOn along stages; conclusion - chainLog computes chain (no hypotheses), every step is written without error and read back as cleanRead (canonFor f written-db) with no bad name / repeated key / other report, lower() reports nothing',
    'C02_chain_percent_latex': 'the three percent-domain chain theorems with the modelled encoder: for every Serial with encode = encodeLatex (hypothesis hS) the conclusions of C02_chain_percent, C02_lower_percent and of the second conjunct of C02_chain_steps_percent hold with NO encoder hypothesis; remaining hypotheses: inDomainP for every format, per-tree LosslessOn for the YAML / XML library. That encodeLatex is latexcodec stays differential testing + C02_tables_agree',
    'C02_chain_steps_nonvacuous': 'the per-tree hypothesis is strictly weaker than losslessness on every tree: a serialiser refusing every text with U+0085 (as PyYAML does) is NOT lossless everywhere, yet lossless on all trees of a four-format chain of the example in both preserve_case modes, so C02_chain / C02_lower / C02_chain_steps apply to it',
}
RULE = ('databases as JSON (entries with key, type as written, ordered fields, ordered roles with persons as five token lists, preamble list) '
        'built through the public constructors; ES: every person Person(name) yields for the token shapes of C04 (<=3 tokens x comma placements) '
        'plus small databases (1 entry x field names x the value alphabet with braces, quotes, backslash, @ , = digits; all ordered value pairs; '
        'person pairs per role spelling; ordered key pairs x preambles) x {bibtex, yaml, bibtexml} x chains <=3 x preserve_case; R: databases read '
        'by the real reader from bibgen documents; databases built directly from Entry/Person objects, the transport rotating over to_string/parse_string, '
        'convert() on real files, to_bytes/parse_bytes (UTF-8, latin-1, UTF-16, cp1252, ascii when every string fits), to_file/parse_file on named '
        'file objects (format guessed from the name) and on StringIO/BytesIO; the four recorded findings with the ORACLE ON (roles translator / bookauthor / ..., '
        'empty roles, a field type/Type/TYPE, values / names / preambles with # % & _ ~); values only YAML / BibTeXML carry (leading / trailing / double / '
        'line-breaking white space, YAML-significant spellings) through chains of these two; databases of 5-10 entries with values of 100-400 characters and up to '
        '8 persons per role; non-ASCII identifiers (keys, types, field names: Ä ß ǅ Ж ẞ ...) through YAML / BibTeXML chains and lower(); an outside-domain stream '
        '(non-normalised white space, unbalanced braces, fields named like roles: correspondence only); reader-only YAML/XML trees (non-string scalars, every '
        'person element form); pickle and eval(repr()) executed for real, the entry type as written included (oracle only); '
        'round 2, function level: Writer._encode / _encode_with_comments on every word <=3 over {~ blank a % # \\ { _} + the value pools + random non-ASCII words; '
        'Writer(encoding=ascii / latin-1 / UTF-8)._encode incl. characters the encoding cannot hold; Writer.quote on the value pools + brace words (nesting 99 / 100 / 101, unmatched); '
        'escape / quoteattr on every word <=3 over {& < > " \' newline tab return a ; #} + keys (read back by expat: oracle); _to_dict (the tree) and the exact BibTeXML text '
        '(to_string and to_bytes) on ~500 databases of all streams + keys / values with quotes, < & newline; preambles with percent signs only (oracle on); '
        'non-trivial = a database with a field or person / a person with >1 token; distinct by case JSON')
TRUSTED = ['PyYAML (yaml.dump / yaml.load with the ordered dumper/loader), xml.sax XMLGenerator + ElementTree, latexcodec, pickle: parameters of the '
           'model with the hypotheses load(dump t) = t - asked only for the trees pybtex writes for the database at hand (LosslessOn; false of the real libraries on some trees, e.g. U+0085 in YAML, non-XML names / characters) - resp. encode = id on strings free of # % & _ ~; exercised for real on every case, not proved',
           'latexcodec (round 2): the theorems with suffix _latex / C02_encode_* are about the modelled encoder encodeLatex and about C09\'s model of codecs.encode(…, "ulatex+<encoding>"); that these ARE latexcodec is differential testing (ops encode, encodeenc) plus the table regenerated from every BMP code point on every run (C02_tables_agree); xml.sax.saxutils.escape / quoteattr and XMLGenerator are modelled for UTF-8 (ops xmlesc, xmltext, tables regenerated); expat is represented by the Spec reading xmlUnescape / xmlAttrValue',
           'the harness keeps databases PyYAML / XML cannot represent out of the claimed domain (U+0085; XML names for identifiers, XML characters): the quantifier\'s "XML-representable" is not a Lean predicate, in the theorems it is the per-tree hypothesis LosslessOn']
ASSUMPTIONS = ['identifiers contain neither U+0130 (its lower-case form is two characters) nor U+03A3 (final-sigma rule): elsewhere the model lower-cases them as str.lower() does (table regenerated from the interpreter; explicit predicate lowerDomain in WFDbTree)',
               'BibTeXML identifiers are XML names expat accepts (ASCII and Latin-1 letters are generated); after a YAML step has put the value of a field called type in the place of the entry type (finding C02-yaml-type-field) later formats are only checked when that value is alphanumeric',
               'to_bytes / parse_bytes: an encoding every string of the database can be encoded in (the BibTeX writer LaTeX-escapes what the encoding cannot hold)',
               'the check is meant for a tree with proposed_fixes/C02-1 ... C02-4 applied; on a tree without C02-4 it reports eval(repr(db)) losing the entry type as written']

FORMATS = ('bibtex', 'yaml', 'bibtexml')
PARTS = ('first', 'middle', 'prelast', 'last', 'lineage')

# ----------------------------------------------------------------------------------------------
# databases <-> JSON


def person_parts(p):
    return [list(p.first_names), list(p.middle_names), list(p.prelast_names), list(p.last_names), list(p.lineage_names)]


def canon_db(db):
    """Ordered canonical form (the implementation's own == is order-insensitive)."""
    entries = []
    for key, e in db.entries.items():
        persons = [[role, [person_parts(p) for p in ps]] for role, ps in e.persons.items()]
        entries.append({'key': key, 'type': e.type, 'orig_type': e.original_type,
                        'fields': [[k, v] for k, v in e.fields.items()], 'persons': persons})
    return {'entries': entries, 'preamble': list(db.preamble_list)}


def mk_person(parts):
    from pybtex.database import Person
    p = Person()
    p.first_names, p.middle_names, p.prelast_names, p.last_names, p.lineage_names = [list(x) for x in parts]
    return p


def build_db(j):
    """The BibliographyData object a JSON database stands for (built through the public constructors)."""
    from pybtex.database import BibliographyData, Entry
    db = BibliographyData()
    for e in j['entries']:
        ent = Entry(e['orig_type'], fields=[(k, v) for k, v in e['fields']])
        for role, persons in e['persons']:
            if not persons:
                ent.persons[role] = []
            for parts in persons:
                ent.add_person(mk_person(parts), role)
        db.add_entry(e['key'], ent)
    db.add_to_preamble(*j['preamble'])
    return db


def canon_reports(captured):
    import ast
    bad, rep, others = [], [], 0
    for e in captured:
        cls = type(e).__name__
        msg = e.args[0] if e.args else ''
        if cls == 'InvalidNameString':
            try:
                msg = ast.literal_eval(msg[len('Too many commas in '):])
            except Exception:
                pass
            bad.append(msg)
        elif cls == 'BibliographyDataError' and msg.startswith('repeated bibliography entry: '):
            rep.append(msg[len('repeated bibliography entry: '):])
        else:
            others += 1
    return {'bad_names': bad, 'repeated': rep, 'others': others}


# ----------------------------------------------------------------------------------------------
# the implementation side


def _chain_strings(db, chain, preserve):
    from pybtex import errors
    from pybtex.database import parse_string
    reports = []
    for i, f in enumerate(chain):
        if i > 0 and not preserve:
            db = db.lower()
        text = db.to_string(f)
        with errors.capture() as captured:
            db = parse_string(text, f)
        reports.append(canon_reports(captured))
    return db, reports


_SUFFIX = {'bibtex': '.bib', 'yaml': '.yaml', 'bibtexml': '.bibtexml'}


def _chain_files(db, chain, preserve):
    """The same chain through pybtex.database.convert.convert() on real files."""
    from pybtex import errors
    from pybtex.database import parse_file
    from pybtex.database.convert import convert
    tmp = tempfile.mkdtemp(prefix='verif-c02-')
    try:
        reports = []
        path = os.path.join(tmp, 'f0' + _SUFFIX[chain[0]])
        db.to_file(path, chain[0])
        for i in range(1, len(chain)):
            nxt = os.path.join(tmp, 'f%d%s' % (i, _SUFFIX[chain[i]]))
            with errors.capture() as captured:
                convert(path, nxt, from_format=chain[i - 1], to_format=chain[i], preserve_case=preserve)
            reports.append(canon_reports(captured))
            path = nxt
        with errors.capture() as captured:
            out = parse_file(path, chain[-1])
        reports.append(canon_reports(captured))
        return out, reports
    finally:
        shutil.rmtree(tmp, True)


def _chain_bytes(db, chain, preserve, encoding):
    """The chain through to_bytes() / parse_bytes() with an explicit encoding."""
    from pybtex import errors
    from pybtex.database import parse_bytes
    reports = []
    for i, f in enumerate(chain):
        if i > 0 and not preserve:
            db = db.lower()
        data = db.to_bytes(f, encoding=encoding)
        if not isinstance(data, bytes):
            raise TypeError('to_bytes returned %s' % type(data).__name__)
        with errors.capture() as captured:
            db = parse_bytes(data, f, encoding=encoding)
        reports.append(canon_reports(captured))
    return db, reports


_BINARY = {'bibtex': False, 'yaml': False, 'bibtexml': True}


def _chain_fileobj(db, chain, preserve):
    """The chain through to_file(file object) / parse_file(file object): real named files opened by the caller, the format
    guessed from the name of the file object."""
    from pybtex import errors
    from pybtex.database import parse_file
    tmp = tempfile.mkdtemp(prefix='verif-c02-')
    try:
        reports = []
        for i, f in enumerate(chain):
            if i > 0 and not preserve:
                db = db.lower()
            path = os.path.join(tmp, 'g%d%s' % (i, _SUFFIX[f]))
            fo = open(path, 'wb') if _BINARY[f] else open(path, 'w', encoding='UTF-8')
            try:
                db.to_file(fo)
            finally:
                fo.close()
            fo = open(path, 'rb') if _BINARY[f] else open(path, 'r', encoding='UTF-8')
            try:
                with errors.capture() as captured:
                    db = parse_file(fo)
            finally:
                fo.close()
            reports.append(canon_reports(captured))
        return db, reports
    finally:
        shutil.rmtree(tmp, True)


def _chain_memfile(db, chain, preserve):
    """to_file(StringIO / BytesIO, format) returns the text; parse_file(StringIO / BytesIO, format) reads it."""
    from pybtex import errors
    from pybtex.database import parse_file
    reports = []
    for i, f in enumerate(chain):
        if i > 0 and not preserve:
            db = db.lower()
        data = db.to_file(io.BytesIO() if _BINARY[f] else io.StringIO(), f)
        with errors.capture() as captured:
            db = parse_file(io.BytesIO(data) if _BINARY[f] else io.StringIO(data), f)
        reports.append(canon_reports(captured))
    return db, reports


def _transport(case):
    if case.get('via_files'):
        return 'files'
    return case.get('transport', 'string')


def _eval_repr(db):
    from pybtex.database import BibliographyData, Entry, Person
    from pybtex.utils import OrderedCaseInsensitiveDict
    return eval(repr(db), {'BibliographyData': BibliographyData, 'Entry': Entry, 'Person': Person,
                           'OrderedCaseInsensitiveDict': OrderedCaseInsensitiveDict})


def impl(case):
    from pybtex import errors
    from pybtex.database import Person
    op = case['op']
    try:
        if op == 'convert':
            db = build_db(case['db'])
            if not case['chain']:
                return {'db': canon_db(db), 'reports': []}
            tr = _transport(case)
            if tr == 'bytes':
                out, reports = _chain_bytes(db, case['chain'], case['preserve_case'], case.get('encoding', 'UTF-8'))
            else:
                run = {'string': _chain_strings, 'files': _chain_files, 'fileobj': _chain_fileobj, 'memfile': _chain_memfile}[tr]
                out, reports = run(db, case['chain'], case['preserve_case'])
            return {'db': canon_db(out), 'reports': reports}
        if op == 'bibwrite':
            return {'text': build_db(case['db']).to_string('bibtex')}
        if op == 'lowerdb':
            db = build_db(case['db'])
            with errors.capture() as captured:
                low = db.lower()
            r = {'db': canon_db(low), 'repeated': canon_reports(captured)['repeated']}
            extra = {}
            try:
                extra['pickle'] = canon_db(pickle.loads(pickle.dumps(db)))
            except Exception as e:  # noqa
                extra['pickle'] = {'error': compat.pybtex_error_kind(e)}
            try:
                with errors.capture() as cap2:
                    back = _eval_repr(db)
                extra['repr'] = canon_db(back)
                extra['repr_reports'] = canon_reports(cap2)
                extra['repr_eq'] = bool(back == db)
            except Exception as e:  # noqa
                extra['repr'] = {'error': compat.pybtex_error_kind(e), 'msg': str(e)[:120]}
            r['extra'] = extra
            # compared with the model of the two __repr__ / eval (constructor calls)
            r['repr'] = {'error': extra['repr']['error']} if 'error' in extra['repr'] else extra['repr']
            return r
        if op == 'personfmt':
            from pybtex.database.output.bibtex import Writer
            p = mk_person(case['person'])
            fmt = Writer()._format_name(None, p)
            st = str(p)

            def back(*args, **kw):
                try:
                    with errors.capture() as captured:
                        q = Person(*args, **kw)
                    return {'person': person_parts(q), 'too_many_commas': any(type(e).__name__ == 'InvalidNameString' for e in captured)}
                except Exception as e:  # noqa
                    return {'error': compat.pybtex_error_kind(e)}
            texts = {k: p.get_part_as_text(k) for k in PARTS}
            r = {'format_name': fmt, 'str': st, 'reparsed': back(fmt), 'reparsed_str': back(st), 'from_parts': back(**texts)}
            try:
                q = eval(repr(p), {'Person': Person})
                r['extra'] = {'repr': person_parts(q)}
            except Exception as e:  # noqa
                r['extra'] = {'repr': {'error': compat.pybtex_error_kind(e)}}
            return r
        if op == 'yamlread':
            import yaml
            from pybtex.database import parse_string
            from pybtex.database.output.bibyaml import OrderedDictSafeDumper
            text = yaml.dump(_py_of_tree(case['tree']), None, encoding=None, allow_unicode=True, default_flow_style=False,
                             indent=4, Dumper=OrderedDictSafeDumper)
            with errors.capture() as captured:
                db = parse_string(text, 'yaml')
            r = canon_reports(captured)
            r['db'] = canon_db(db)
            # what was read must be a database like any other: writable in every format
            extra = {}
            for f in FORMATS:
                try:
                    with errors.capture():
                        extra[f] = canon_db(parse_string(db.to_string(f), f))['entries'] is not None
                except Exception as e:  # noqa
                    extra[f] = compat.pybtex_error_kind(e)
            r['extra'] = extra
            return r
        if op == 'xmlread':
            from pybtex.database import parse_string
            with errors.capture() as captured:
                db = parse_string(_xml_of_tree(case['tree']), 'bibtexml')
            r = canon_reports(captured)
            r['db'] = canon_db(db)
            return r
        if op == 'encode':
            from pybtex.database.output.bibtex import Writer
            w = Writer()
            return {'text': w._encode(case['s']), 'comments': w._encode_with_comments(case['s'])}
        if op == 'encodeenc':
            from pybtex.database.output.bibtex import Writer
            try:
                return {'text': Writer(encoding=case['encoding'])._encode(case['s'])}
            except UnicodeEncodeError:
                # the error point of the codec the model names too (encodeWith = none)
                return {'error': 'UnicodeEncodeError'}
        if op == 'quote':
            from pybtex.database.output.bibtex import Writer
            return {'text': Writer().quote(case['s'])}
        if op == 'yamltree':
            from pybtex.database.output.bibyaml import Writer
            return {'tree': _tree_of_py(Writer()._to_dict(build_db(case['db'])))}
        if op == 'xmltext':
            db = build_db(case['db'])
            return {'string': db.to_string('bibtexml'), 'stream': db.to_bytes('bibtexml', encoding='UTF-8').decode('UTF-8')}
        if op == 'xmlesc':
            from xml.sax.saxutils import escape, quoteattr
            s = case['s']
            r = {'escape': escape(s), 'quoteattr': quoteattr(s)}
            extra = {}
            try:
                import xml.etree.ElementTree as ET
                el = ET.fromstring('<a b=%s>%s</a>' % (r['quoteattr'], r['escape']))
                extra['text'] = el.text or ''
                extra['attr'] = el.get('b')
            except Exception as e:  # noqa
                extra['parse_error'] = type(e).__name__
            try:
                import xml.etree.ElementTree as ET
                extra['raw'] = ET.fromstring('<a>%s</a>' % s).text or ''
                if len(ET.fromstring('<a>%s</a>' % s)):
                    extra['raw'] = None
            except Exception:  # noqa
                extra['raw'] = None
            r['extra'] = extra
            return r
        raise ValueError(op)
    except Exception as e:  # noqa
        return {'error': compat.pybtex_error_kind(e)}


def _tree_of_py(v):
    """what Writer._to_dict returns -> the JSON tree of the driver (str | list | {"map": [[k, v]...]} | {"other": text})"""
    if isinstance(v, str):
        return v
    if isinstance(v, list):
        return [_tree_of_py(x) for x in v]
    if isinstance(v, dict):
        return {'map': [[k, _tree_of_py(x)] for k, x in v.items()]}
    return {'other': str(v)}


def _py_of_tree(t):
    """JSON tree -> the Python value yaml.dump gets: str | {"other": text, "py": value} | list | {"map": [[k, v]...]}"""
    from collections import OrderedDict
    if isinstance(t, str):
        return t
    if isinstance(t, list):
        return [_py_of_tree(x) for x in t]
    if 'other' in t:
        return t['py']
    return OrderedDict((k, _py_of_tree(v)) for k, v in t['map'])


def _xml_of_tree(t):
    from xml.sax.saxutils import escape, quoteattr

    def go(n):
        s = '<bibtex:%s' % n['tag']
        if n.get('id') is not None:
            s += ' id=%s' % quoteattr(n['id'])
        s += '>'
        if n.get('text') is not None:
            s += escape(n['text'])
        s += ''.join(go(c) for c in n['children'])
        return s + '</bibtex:%s>' % n['tag']
    body = go(t)
    return body.replace('<bibtex:%s' % t['tag'], '<bibtex:%s xmlns:bibtex="http://bibtexml.sf.net/"' % t['tag'], 1)


def compare_view(io):
    if isinstance(io, dict) and 'extra' in io:
        io = {k: v for k, v in io.items() if k != 'extra'}
    return io


def model_out(case, reply):
    out = reply['out']
    if case['op'] in ('yamlread', 'xmlread') and 'db' in out:
        return {'db': out['db'], 'bad_names': out['bad_names'], 'repeated': out['repeated'], 'others': out['others']}
    return out


# ----------------------------------------------------------------------------------------------
# the assumed serialisers: what the harness keeps out of the claimed domain

# XML names as expat accepts them (XML 1.0 4th edition): ASCII plus the Latin-1 letters (what the generators use); other
# non-ASCII identifiers are kept away from BibTeXML
XML_NAME = re.compile('^[A-Za-z_\xc0-\xd6\xd8-\xf6\xf8-\xff][A-Za-z0-9._\xc0-\xd6\xd8-\xf6\xf8-\xff-]*$')


def _xml_chars(s, attr=False):
    for c in s:
        o = ord(c)
        if c in '\t\n':
            if attr:
                return False
        elif not (0x20 <= o <= 0xD7FF or 0xE000 <= o <= 0xFFFD or o >= 0x10000):
            return False
    return True


def xml_representable(j):
    for e in j['entries']:
        if not XML_NAME.match(e['orig_type']) or not _xml_chars(e['key'], True):
            return False
        for k, v in e['fields']:
            if not XML_NAME.match(k) or not _xml_chars(v):
                return False
        for role, ps in e['persons']:
            if not XML_NAME.match(role):
                return False
            for parts in ps:
                if not all(_xml_chars(t) for part in parts for t in part):
                    return False
    return True


def _strings(j):
    for e in j['entries']:
        yield e['key']
        yield e['orig_type']
        for k, v in e['fields']:
            yield k
            yield v
        for role, ps in e['persons']:
            yield role
            for parts in ps:
                for part in parts:
                    for t in part:
                        yield t
    for p in j['preamble']:
        yield p


def yaml_lossless(j):
    return not any('\x85' in s for s in _strings(j))


# ----------------------------------------------------------------------------------------------
# oracle


def _want_after(case, spec):
    j = case['db']
    chain = case['chain']
    src = spec['lowered'] if (not case['preserve_case'] and len(chain) >= 2) else j
    entries = [{'key': e['key'], 'type': _lower_py(e['orig_type']), 'orig_type': e['orig_type'],
                'fields': e['fields'], 'persons': e['persons']} for e in src['entries']]
    pre = ''.join(j['preamble'])
    preamble = [] if ('bibtexml' in chain or not pre or not chain) else [pre]
    if not chain:
        preamble = list(j['preamble'])
    return {'entries': entries, 'preamble': preamble}


def _lower_py(s):
    """str.lower() character by character (= lowerU of the model on its domain: no U+0130, no U+03A3)"""
    return ''.join(c.lower() for c in s)


def _lowered_py(j):
    """lowerSpec in Python (used by the finding matchers only, which do not see the driver's reply)"""
    return {'entries': [{'key': _lower_py(e['key']), 'orig_type': _lower_py(e['orig_type']),
                         'fields': [[_lower_py(k), v] for k, v in e['fields']],
                         'persons': [[_lower_py(r), ps] for r, ps in e['persons']]} for e in j['entries']],
            'preamble': j['preamble']}


def in_domain(case, spec):
    """The stated quantifier (WFDbQ of Spec/BibWrite.lean, evaluated by the driver) for every format of the chain, minus what
    the assumed serialisers cannot carry.  This is wider than the claimed domain inDomain (keys wf_*): the difference is the
    four recorded findings, whose failures the matchers below recognise."""
    j = case['db']
    for f in case['chain']:
        if f == 'bibtex' and not spec['q_bibtex']:
            return False
        if f == 'yaml' and not (spec['q_yaml'] and yaml_lossless(j)):
            return False
        if f == 'bibtexml' and not (spec['q_xml'] and xml_representable(j)):
            return False
    tr = _transport(case)
    if tr == 'bytes' and not _encodable(j, case.get('encoding', 'UTF-8')):
        return False
    # finding C02-yaml-type-field puts the value of a field called type in the place of the entry type: formats that follow
    # the YAML step are only checked when that value can be an entry type at all (see ASSUMPTIONS)
    if 'yaml' in case['chain'] and case['chain'].index('yaml') < len(case['chain']) - 1:
        for e in j['entries']:
            for k, v in e['fields']:
                if _lower_py(k) == 'type' and not PLAIN_IDENT.match(v):
                    return False
    return True


PLAIN_IDENT = re.compile(r'^[A-Za-z][A-Za-z0-9]*$')


def _encodable(j, encoding):
    try:
        for s in _strings(j):
            s.encode(encoding)
        return True
    except UnicodeError:
        return False


def _convert_tag(case):
    label = 'chain' if len(case['chain']) > 1 else 'roundtrip'
    if not case['preserve_case'] and len(case['chain']) > 1:
        label = 'lower'
    return '%s[%s]' % (label, '>'.join(case['chain']))


def oracle(case, io, reply):
    op = case['op']
    spec = reply.get('spec') or {}
    fails = []
    if op == 'convert':
        if not in_domain(case, spec):
            return fails
        tag = _convert_tag(case)
        if 'error' in io:
            return ['%s: raised %s on an in-domain database' % (tag, io['error'])]
        want = _want_after(case, spec)
        got = io['db']
        if [e['key'] for e in got['entries']] != [e['key'] for e in want['entries']]:
            fails.append('%s: keys %r, expected %r' % (tag, [e['key'] for e in got['entries']], [e['key'] for e in want['entries']]))
        else:
            for i, (g, w) in enumerate(zip(got['entries'], want['entries'])):
                for part in ('orig_type', 'type', 'fields', 'persons'):
                    if g[part] != w[part]:
                        fails.append('%s: entry #%d %r %s = %r, expected %r' % (tag, i, g['key'], part, g[part], w[part]))
                        break
        if got['preamble'] != want['preamble']:
            fails.append('%s: preamble %r, expected %r' % (tag, got['preamble'], want['preamble']))
        for r in io['reports']:
            if r['bad_names'] or r['repeated'] or r['others']:
                fails.append('%s: reading back reported %r' % (tag, r))
                break
        return fails
    if op == 'bibwrite':
        if spec.get('q_bibtex') and 'error' in io:
            fails.append('roundtrip[bibtex]: the writer raised %s on an in-domain database' % io['error'])
        return fails
    if op == 'personfmt':
        if 'error' in io:
            return fails
        person = case['person']
        if spec.get('wf_person'):
            for k, what in (('reparsed', 'Person(_format_name(p))'), ('reparsed_str', 'Person(str(p))'), ('from_parts', 'Person(**parts)')):
                r = io[k]
                if r.get('person') != person or r.get('too_many_commas'):
                    fails.append('person_roundtrip: %s = %r for p = %r (text %r)' % (what, r, person, io['format_name'] if k == 'reparsed' else io['str']))
            if io['extra']['repr'] != person:
                fails.append('repr: eval(repr(p)) = %r for p = %r' % (io['extra']['repr'], person))
        return fails
    if op == 'lowerdb':
        if 'error' in io:
            return ['lower: lower() raised %s' % io['error']]
        j = case['db']
        want = spec['lowered']
        if spec.get('ci_distinct') and spec.get('lower_domain'):
            if io['db'] != want or io['repeated']:
                fails.append('lower: lower() = %r (reported %r), expected identifiers lower-cased only: %r' % (io['db'], io['repeated'], want))
        ex = io['extra']
        me = canon_db(build_db(j))
        if ex['pickle'] != me:
            fails.append('pickle: loads(dumps(db)) = %r, expected %r' % (ex['pickle'], me))
        if spec.get('persons_wf'):
            r = ex['repr']
            if 'error' in r:
                fails.append('repr: eval(repr(db)) raised %s (%s)' % (r['error'], r.get('msg')))
            elif r != me or not ex.get('repr_eq'):
                # "the same entry types": the type as written counts (repair C02-4: Entry.__repr__ shows original_type)
                fails.append('repr: eval(repr(db)) = %r, expected %r' % (r, me))
        return fails
    if op == 'xmlesc':
        # "XML-representable": what the writer emits for character data / the id attribute is read back by the real parser
        # as the string (expat normalises a literal carriage return in character data: kept out, as in xml_representable)
        s = case['s']
        if 'error' in io or not _xml_chars(s) or '\r' in s:
            return fails
        ex = io['extra']
        if ex.get('parse_error') or ex.get('text') != s or ex.get('attr') != s:
            fails.append('xml_text: %r written as text %r / attribute %r is read back as %r' % (s, io['escape'], io['quoteattr'], ex))
        # the reference reading of Spec/BibWriteText.lean is sound for expat: where both read s as character data they agree
        if spec.get('raw_reading') is not None and ex.get('raw') is not None and spec['raw_reading'] != ex['raw']:
            fails.append('xml_text: the reference reading of %r is %r, expat reads %r' % (s, spec['raw_reading'], ex['raw']))
        return fails
    if op == 'encodeenc':
        # spec: encodeLatex s (the default-encoding result); C02_encode_any_encoding: equal whenever the encoding holds s.
        # Advisory for the code (model-derived), so a difference is a correspondence matter; nothing to add here.
        return fails
    if op == 'yamlread':
        if 'error' in io:
            return fails
        for e in io['db']['entries']:
            for k, v in e['fields']:
                if not isinstance(v, str):
                    fails.append('yaml_values: field %r of entry %r was read as %r (%s), not as a string' % (k, e['key'], v, type(v).__name__))
        for f, res in io.get('extra', {}).items():
            if isinstance(res, str) and res.startswith('INTERNAL'):
                fails.append('yaml_values: the database read from YAML cannot be written as %s: %s' % (f, res))
        return fails
    return fails


# ----------------------------------------------------------------------------------------------
# recorded findings: failures of the round trip inside the stated quantifier that have no small safe repair

VALID_ROLES = ('author', 'editor')
FIVE = '#%&_~'
_ENTRY_FAIL = re.compile(r'^(roundtrip|chain|lower)\[([a-z>]+)\]: entry #(\d+) ')


def _want_py(case):
    """What the round trip should give, computed from the case alone."""
    j = case['db']
    chain = case['chain']
    src = _lowered_py(j) if (not case['preserve_case'] and len(chain) >= 2) else j
    return [{'key': e['key'], 'type': _lower_py(e['orig_type']), 'orig_type': e['orig_type'],
             'fields': [list(f) for f in e['fields']], 'persons': e['persons']} for e in src['entries']]


def _failing_entry(case, io, text):
    """(got entry, wanted entry) of the entry a failure text speaks about, None when it is no entry failure of this case"""
    m = _ENTRY_FAIL.match(text)
    if not m or case.get('op') != 'convert' or not isinstance(io, dict) or 'db' not in io:
        return None
    if m.group(2) != '>'.join(case['chain']):
        return None
    i = int(m.group(3))
    want = _want_py(case)
    got = io['db']['entries']
    if i >= len(want) or i >= len(got) or got[i]['key'] != want[i]['key']:
        return None
    return got[i], want[i]


def _features(case, w):
    """which recorded findings apply to the wanted entry w under the chain of the case"""
    chain = case['chain']
    return {
        'other': [_lower_py(r) for r, _ps in w['persons'] if _lower_py(r) not in VALID_ROLES],
        'empty': [_lower_py(r) for r, ps in w['persons'] if _lower_py(r) in VALID_ROLES and not ps],
        'ytype': [v for k, v in w['fields'] if _lower_py(k) == 'type'] if 'yaml' in chain else [],
        'five': 'bibtex' in chain and (any(_has_five(v) for _k, v in w['fields']) or
                                       any(_has_five(t) for _r, ps in w['persons'] for p in ps for part in p for t in part)),
    }


def _has_five(s):
    return any(c in FIVE for c in s)


def _explained(case, g, w):
    """Every difference between the entry read back (g) and the entry wanted (w) is one the recorded findings that APPLY to w
    predict -- and nothing else differs:
      other role   -> the role is missing from the persons; a text field of its name has appeared (when it had persons)
      empty role   -> the role is missing from the persons
      YAML type    -> the fields called type are missing; the entry type may be the value of one of them
      five chars   -> a value / a person containing one of # % & _ ~ differs (BibTeX on the way)"""
    ft = _features(case, w)
    if ft['ytype']:
        types = {w['orig_type']} | set(ft['ytype']) | {_lower_py(v) for v in ft['ytype']}
        # (a value with one of the five characters has been re-escaped by a BibTeX step before it became the type)
        escaped = 'bibtex' in case['chain'] and any(_has_five(v) for v in ft['ytype'])
        if (g['orig_type'] not in types and not escaped) or g['type'] != _lower_py(g['orig_type']):
            return False
    elif g['orig_type'] != w['orig_type'] or g['type'] != w['type']:
        return False
    gone = set(ft['other']) | set(ft['empty'])
    wp = [r for r in w['persons'] if _lower_py(r[0]) not in gone]
    if [(r, len(ps)) for r, ps in g['persons']] != [(r, len(ps)) for r, ps in wp]:
        return False
    for (_r, gps), (_r2, wps) in zip(g['persons'], wp):
        for gp, wpers in zip(gps, wps):
            if gp != wpers and not (ft['five'] and any(_has_five(t) for part in wpers for t in part)):
                return False
    # every format writes the persons of such a role under its name, and every reader takes that for a field
    gnames = {_lower_py(k) for k, _v in g['fields']}
    if any(_lower_py(r) not in gnames for r, ps in w['persons'] if ps and _lower_py(r) in ft['other']):
        return False
    gf = [f for f in g['fields'] if _lower_py(f[0]) not in ft['other']]
    wf = [f for f in w['fields'] if not (ft['ytype'] and _lower_py(f[0]) == 'type')]
    if [k for k, _ in gf] != [k for k, _ in wf]:
        return False
    for (_k, gv), (_k2, wv) in zip(gf, wf):
        if gv != wv and not (ft['five'] and _has_five(wv)):
            return False
    return True


def _entry_matcher(feature):
    def match(case, io, text):
        gw = _failing_entry(case, io, text)
        if not gw:
            return False
        g, w = gw
        return bool(_features(case, w)[feature]) and _explained(case, g, w)
    return match


match_other_role = _entry_matcher('other')
match_empty_role = _entry_matcher('empty')
match_yaml_type = _entry_matcher('ytype')
_match_five_entry = _entry_matcher('five')


def match_five(case, io, text):
    """BibTeX: a value / name / preamble containing one of # % & _ ~ comes back re-escaped"""
    if case.get('op') != 'convert' or 'bibtex' not in case['chain'] or not isinstance(io, dict) or 'db' not in io:
        return False
    if text.startswith(_convert_tag(case) + ': preamble '):
        # the other text of a preamble failure, and a preamble lost to BibTeXML, never start like this with a five-free preamble
        # (round 2) the preamble goes through _encode_with_comments, which keeps percent signs: a preamble whose only
        # character of the five is % DOES survive (C02_encode_comments; verified on the unchanged code), so a failure on it
        # is not this finding
        return any(c in '#&_~' for c in ''.join(case['db']['preamble'])) and 'bibtexml' not in case['chain']
    return _match_five_entry(case, io, text)


KNOWN_MATCHERS = {
    'C02-role-not-author-editor': match_other_role,
    'C02-empty-role': match_empty_role,
    'C02-yaml-type-field': match_yaml_type,
    'C02-five-characters': match_five,
}


def buckets(case, io):
    b = [case['op']]
    if case['op'] == 'convert':
        b.append('chain=' + '>'.join(case['chain']))
        b.append('preserve' if case['preserve_case'] else 'lower')
        tr = _transport(case)
        if tr != 'string':
            b.append('transport=' + tr + ('/' + case['encoding'] if tr == 'bytes' else ''))
        b.append(case.get('stream', 'generated'))
    if isinstance(io, dict) and 'error' in io:
        b.append('error:' + io['error'])
    return b


def nontrivial(case, io):
    if case['op'] in ('convert', 'bibwrite', 'lowerdb', 'yamltree', 'xmltext'):
        return any(e['fields'] or e['persons'] for e in case['db']['entries'])
    if case['op'] == 'personfmt':
        return sum(len(x) for x in case['person']) > 1
    if case['op'] in ('encode', 'quote', 'xmlesc', 'encodeenc'):
        return len(case['s']) > 1
    return True


def corpus():
    return corpus_for(ID)


def _ci_distinct(names):
    low = [n.lower() for n in names]
    return len(set(low)) == len(low)


def valid_case(case):
    """Used by the shrinker: a database must be one a BibliographyData object can hold."""
    try:
        if 'db' in case:
            j = case['db']
            if not _ci_distinct([e['key'] for e in j['entries']]):
                return False
            for e in j['entries']:
                if not _ci_distinct([k for k, _ in e['fields']]) or not _ci_distinct([r for r, _ in e['persons']]):
                    return False
                for _r, ps in e['persons']:
                    if any(len(p) != 5 for p in ps):
                        return False
            if case['op'] == 'convert':
                if not all(f in FORMATS for f in case['chain']):
                    return False
                if case.get('transport', 'string') not in ('string', 'bytes', 'fileobj', 'memfile'):
                    return False
                if case.get('transport') == 'bytes' and case.get('encoding') not in ENCODINGS:
                    return False
                if case.get('via_files') not in (None, True) or not isinstance(case['preserve_case'], bool):
                    return False
        if case['op'] == 'personfmt' and len(case['person']) != 5:
            return False
        if case['op'] in ('yamlread', 'xmlread'):
            return False
        return True
    except Exception:
        return False


# ----------------------------------------------------------------------------------------------
# generators

TOKENS = {'Cap': 'Smith', 'low': 'von', 'braced': '{Mc B}', 'spU': "{\\'E}cole", 'spL': "{\\'e}cole", 'caseless': '1{2}',
          'hyph': 'Jean-Paul', 'lowbr': '{\\v s}x', 'sp0': '{\\ae}b', 'quote': 'O"Q', 'bs': 'a\\b', 'at': 'x@y=1', 'comma': '{a, b}',
          'andbr': '{x and y}'}
CLASSES = list(TOKENS)
# values of the claimed domain: braces, quotes, backslash, @ , = digits (no # % & _ ~, white-space-normalised)
VALUES = ['', 'word', 'two words', '{Braced} text', 'a {"} b', 'q "x" q', '1993', '{\\"o}', 'a, b = c @ d', 'back\\slash',
          '(paren) [x]', 'x < y > z', "it's", '– €', '{{nested} {deep}}', '"', '\\', 'a=b,c', '@k{x}', '{a "b" c}',
          '{a{b{c{d}e}f}g} {{{{{{deep}}}}}}',
          # the brace-less accent spelling: a backslash in front of a brace-level-0 double quote is still a double quote for the reader
          'G\\"odel', '\\"Uber S\\"atze', 'x\\" {"} y', '\\"',
          # digit strings that are not the canonical spelling of their number (a writer that emits numbers loses them)
          '03', '007', '00', '0', '\uff11\uff19\uff19\uff17', '\u0661\u0669', '0010', '+7', '-0', '1.50', '0o17', '1e3', '.5', '12:30']
# outside the claimed domain (correspondence only)
VALUES_OUT = ['100% x', 'a_b', 'R&D', 'x~y', '#1', ' lead', 'trail ', 'two  spaces', 'a\nb', 'tab\there', '{open', 'close}', '}{',
              '{}}{}', 'a\x0bb', 'a\xa0b', '%', 'a%b%c', '~', 'x~ y', '~~', '{' * 101 + 'x' + '}' * 101, '{' * 100 + 'x' + '}' * 100]
# the five characters the BibTeX writer re-escapes (white-space-normalised, balanced: inside the stated quantifier but for them)
VALUES_FIVE = ['100% x', 'a_b', 'R&D', 'x~y', '#1', '%', 'a%b%c', '~', 'x~ y', '~~', 'snake_case {and} #2', '50% & more']
# in the domain of YAML / BibTeXML only (not white-space-normalised)
VALUES_TREE = [' lead', 'trail ', 'two  spaces', 'a\nb', 'tab\there', '\n', ' ', 'line one\nline two\n', ': colon', '- dash', '# hash',
               "'single'", '"double"', 'key: value', '{unbalanced', '}', '[list]', '&anchor', '*alias', '!tag', '|', '>', '%TAG', '@at',
               '`tick`', 'null', 'true', '1993', '1e3', '0x1F', '~', 'yes', '2001-01-02', 'a\xa0b', '\u2028', 'é \u4e2d \U0001F600']
TYPES = ['article', 'Book', 'MISC', 'inProceedings']
OTHER_ROLES = ['translator', 'Translator', 'bookauthor', 'authors', 'EDITORA']
TYPE_FIELD_VALUES = ['Research', 'PhD', 'techreport', 'Master']
# non-ASCII identifiers (YAML / BibTeXML / lower()); BibTeXML tags take the Latin-1 letters only
# keys only YAML / BibTeXML can spell
KEYS_TREE = ['sp ace', 'com,ma', ' lead', 'a: b', '#k', '', 'close}', 'Tab\there']
KEYS_U = ['\xc4B', '\xe4b2', 'Stra\xdfe', '\u01c5x', '\xc9cole:1', '\xd1', 'K\xdcRZEL', '\u0394elta', '\u0416uk', '\u1e9e', '\u01c4', 'ma\xf1ana']
IDENTS_U = ['\xc4rt', 'Stra\xdfe', '\xc9tude', 'NI\xd1O', '\xfcber', 'Na\xefve']
FIELD_NAMES = ['title', 'Year', 'JOURNAL', 'note', 'month', 'x-field', 'a.b', 'url', 'crossref']
KEYS = ['key1', 'Knuth:1984', 'a-b', 'K', 'x/y', 'weird{key', 'k)', 'KEY2', 'k"q', 'k=v', 'k#h', 'k@x', 'k_u']
ROLES = ['author', 'Editor', 'AUTHOR', 'editor']
PREAMBLES = [[], ['\\newcommand{\\x}{y}'], ['pre {a}', 'second'], ['q "x" q'], ['']]


def _names_of_shapes(maxtok, classes):
    """Name strings: every token shape x comma placements (as in the C04 scope)."""
    for n in range(1, maxtok + 1):
        for cls in itertools.product(classes, repeat=n):
            toks = [TOKENS[c] for c in cls]
            for k in range(0, min(3, n) + 1):
                for commas in itertools.combinations(range(n), k):
                    s = ''
                    for i, t in enumerate(toks):
                        s += t + (',' if i in commas else '') + (' ' if i < n - 1 else '')
                    yield s


def _parsed_person(name):
    from pybtex import errors
    from pybtex.database import Person
    with errors.capture():
        return person_parts(Person(name))


def _entry(key, ty, fields, persons):
    return {'key': key, 'orig_type': ty, 'fields': [list(f) for f in fields], 'persons': persons}


def _db(entries, preamble=()):
    return {'entries': entries, 'preamble': list(preamble)}


def _db_from_doc(doc):
    """A database read by the real reader from a generated .bib document."""
    from pybtex import errors
    from pybtex.database import parse_string
    text = bibgen.render(doc, bibgen.Layout([0]), {'paren': any(c['k'] == 'entry' and '}' in c['key'] for c in doc), 'spelling': 0, 'case': 0, 'ws': 0,
                                                    'trailing': False, 'keepcase': True})
    with errors.capture():
        db = parse_string(text, 'bibtex')
    j = canon_db(db)
    for e in j['entries']:
        del e['type']
    return j


def _convert_cases(j, chains, stream, preserve=(True, False), via_files=False):
    for chain in chains:
        for p in preserve:
            if not p and len(chain) < 2:
                continue
            c = {'op': 'convert', 'db': j, 'chain': list(chain), 'preserve_case': p, 'stream': stream}
            if via_files:
                c['via_files'] = True
            yield c


CHAINS1 = [(f,) for f in FORMATS]
CHAINS2 = list(itertools.product(FORMATS, repeat=2))
CHAINS3 = list(itertools.product(FORMATS, repeat=3))


def gen_cases(tier, rng, info):
    cases = []
    thorough = tier == 'thorough'
    # --- persons: every person Person(name) produces for the token shapes, plus person lists not produced by the reader
    maxtok = 3
    classes = CLASSES if thorough else CLASSES[:9]
    seen = set()
    persons = []
    for name in _names_of_shapes(maxtok, classes):
        parts = _parsed_person(name)
        k = repr(parts)
        if k not in seen:
            seen.add(k)
            persons.append(parts)
    for parts in persons:
        cases.append({'op': 'personfmt', 'person': parts})
    n_es_persons = len(persons)
    pool = list(TOKENS.values()) + ['de', 'la', 'Jr.', 'III', 'and', 'AND', '\\~n', 'a\\', 'x~y', 'a,b', '{', 'B.']
    for _ in range(600 if not thorough else 6000):
        parts = [[rng.choice(pool) for _ in range(rng.choice([0, 0, 1, 1, 2]))] for _ in range(5)]
        cases.append({'op': 'personfmt', 'person': parts})
    # --- exhaustive small databases (claimed domain)
    good_persons = [p for p in persons if all(t not in ('{a, b}',) or True for part in p for t in part)]
    psample = good_persons[::max(1, len(good_persons) // (40 if not thorough else 160))]
    es = 0
    vals = VALUES if thorough else VALUES[:12]
    for ty in TYPES[:2]:
        for key in KEYS[:2]:
            # one field: every name x every value
            for fn in FIELD_NAMES[:3]:
                for v in vals:
                    j = _db([_entry(key, ty, [(fn, v)], [])])
                    cases.extend(_convert_cases(j, CHAINS1 + CHAINS2, 'es-db'))
                    es += 1
    # two fields: every ordered pair of values
    for v1 in vals:
        for v2 in vals:
            j = _db([_entry('Key1', 'Article', [('Title', v1), ('note', v2)], [])], ['pre {a}'])
            cases.extend(_convert_cases(j, CHAINS1, 'es-db'))
            es += 1
    # persons: every sampled person alone and paired, under each role spelling
    for i, p in enumerate(psample):
        role = ROLES[i % len(ROLES)]
        j = _db([_entry('k%d' % i, 'book', [('title', 'T')], [[role, [p, psample[(i * 7 + 3) % len(psample)]]]])])
        cases.extend(_convert_cases(j, CHAINS1 + CHAINS2, 'es-db'))
        cases.append({'op': 'bibwrite', 'db': j})
        cases.append({'op': 'lowerdb', 'db': j})
        es += 1
    # two entries, keys differing in case only are NOT allowed (a dictionary cannot hold them); order and preamble kept
    for k1, k2 in itertools.permutations(KEYS[:6], 2):
        for pre in PREAMBLES:
            j = _db([_entry(k1, 'article', [('title', 'A {B}')], []), _entry(k2, 'Book', [('Year', '1993'), ('title', 'q "x" q')], [['Editor', [psample[0]]]])], pre)
            cases.extend(_convert_cases(j, CHAINS1 + (CHAINS3[::4] if thorough else CHAINS3[::9]), 'es-db'))
            cases.append({'op': 'lowerdb', 'db': j})
            es += 1
    info['exhaustive'] = True
    info['scope'] = ('%d persons = every Person(name) for the token shapes (<=%d tokens over %d token classes x comma placements); %d small databases '
                     '(1 entry x 3 field names x %d values; all ordered value pairs; every sampled person pair per role spelling; all ordered key pairs of 6 x 5 preambles) '
                     'x formats / chains / preserve_case' % (n_es_persons, maxtok, len(classes), es, len(vals)))
    # --- random: databases read by the real reader from generated documents
    nrand = 700 if not thorough else 12000
    for i in range(nrand):
        j = _db_from_doc(bibgen.gen_doc(rng))
        chain = [rng.choice(FORMATS) for _ in range(rng.choice([1, 2, 2, 3]))]
        preserve = rng.random() < 0.6 or len(chain) < 2
        cases.append({'op': 'convert', 'db': j, 'chain': chain, 'preserve_case': preserve, 'stream': 'from-reader'})
        if i % 3 == 0:
            cases.append({'op': 'bibwrite', 'db': j})
        if i % 5 == 0:
            cases.append({'op': 'lowerdb', 'db': j})
    # --- random: databases built directly from Entry / Person objects
    for i in range(nrand):
        j = _random_db(rng, psample, VALUES, out=False)
        chain = [rng.choice(FORMATS) for _ in range(rng.choice([1, 2, 3, 3]))]
        preserve = rng.random() < 0.5 or len(chain) < 2
        c = {'op': 'convert', 'db': j, 'chain': chain, 'preserve_case': preserve, 'stream': 'direct'}
        _pick_transport(c, i, rng)
        cases.append(c)
        if i % 3 == 0:
            cases.append({'op': 'bibwrite', 'db': j})
        if i % 4 == 0:
            cases.append({'op': 'lowerdb', 'db': j})
    # --- inside the stated quantifier, outside the claimed domain: the four recorded findings (oracle ON, matchers)
    nfind = 60 if not thorough else 800
    for i in range(nfind):
        # (1) persons under a role other than author / editor
        j = _random_db(rng, psample, VALUES, out=False, min_entries=1)
        for e in rng.sample(j['entries'], rng.randint(1, len(j['entries']))):
            used = {r.lower() for r, _ in e['persons']} | {k.lower() for k, _ in e['fields']}
            for role in rng.sample(OTHER_ROLES, rng.randint(1, 2)):
                if role.lower() not in used:
                    used.add(role.lower())
                    e['persons'].insert(rng.randint(0, len(e['persons'])), [role, [rng.choice(psample) for _ in range(rng.randint(1, 2))]])
        chain = [rng.choice(FORMATS) for _ in range(rng.choice([1, 1, 2, 3]))]
        cases.append({'op': 'convert', 'db': j, 'chain': chain, 'preserve_case': rng.random() < 0.6 or len(chain) < 2, 'stream': 'finding:other-role'})
        if i % 4 == 0:
            cases.append({'op': 'bibwrite', 'db': j})
        if i % 2 == 0:
            cases.append({'op': 'lowerdb', 'db': j})      # lower(), pickle and repr / eval keep any role
        # (2) a role with an empty person list
        j = _random_db(rng, psample, VALUES, out=False, min_entries=1)
        for e in rng.sample(j['entries'], rng.randint(1, len(j['entries']))):
            used = {r.lower() for r, _ in e['persons']}
            role = rng.choice(ROLES)
            if role.lower() not in used:
                e['persons'].insert(rng.randint(0, len(e['persons'])), [role, []])
        chain = [rng.choice(FORMATS) for _ in range(rng.choice([1, 1, 2, 3]))]
        cases.append({'op': 'convert', 'db': j, 'chain': chain, 'preserve_case': rng.random() < 0.6 or len(chain) < 2, 'stream': 'finding:empty-role'})
        if i % 2 == 0:
            cases.append({'op': 'lowerdb', 'db': j})      # lower(), pickle and repr / eval keep an empty role
        # (3) YAML: a field called type.  Its value becomes the entry type: a NAME, so that later formats can carry it
        j = _random_db(rng, psample, VALUES, out=False, min_entries=1)
        for e in rng.sample(j['entries'], rng.randint(1, len(j['entries']))):
            e['fields'].insert(rng.randint(0, len(e['fields'])), [rng.choice(['type', 'type', 'Type', 'TYPE']), rng.choice(TYPE_FIELD_VALUES)])
        chain = [rng.choice(FORMATS) for _ in range(rng.choice([1, 2, 2, 3]))]
        if 'yaml' not in chain:
            chain[rng.randrange(len(chain))] = 'yaml'
        cases.append({'op': 'convert', 'db': j, 'chain': chain, 'preserve_case': rng.random() < 0.6 or len(chain) < 2, 'stream': 'finding:yaml-type'})
        # (4) BibTeX: the five re-escaped characters in values, names, the preamble
        j = _random_db(rng, psample, VALUES + VALUES_FIVE * 3, out=False, min_entries=1)
        if not any(_has_five(s) for s in _strings(j)):
            j['entries'][0]['fields'].append(['abstract', rng.choice(VALUES_FIVE)])
        if rng.random() < 0.2:
            j['preamble'] = [rng.choice(['50% off', 'a_b', '\\def\\x#1{y}', 'R&D ~'])]
        if rng.random() < 0.2 and j['entries'][0]['persons']:
            j['entries'][0]['persons'][0][1].append([[], [], [], [rng.choice(['O_Neil', 'R&D', 'No#1'])], []])
        chain = [rng.choice(FORMATS) for _ in range(rng.choice([1, 1, 2, 3]))]
        cases.append({'op': 'convert', 'db': j, 'chain': chain, 'preserve_case': rng.random() < 0.6 or len(chain) < 2, 'stream': 'finding:five-characters'})
        if i % 4 == 0:
            cases.append({'op': 'bibwrite', 'db': j})
    # --- (round 2) preambles whose only special character is the percent sign: _encode_with_comments keeps them, they are
    # inside the stated quantifier and DO survive (oracle on; match_five no longer explains a failure here)
    for pre in (['50% off'], ['a % b %% c'], ['%'], ['x%', 'y'], ['% \\newcommand{\\x}{y} % z'], ['100%', '%', '{%}']):
        for chain in CHAINS1[:2] + [('bibtex', 'bibtex'), ('bibtex', 'yaml'), ('yaml', 'bibtex'), ('bibtex', 'yaml', 'bibtex')]:
            j = _db([_entry('k', 'misc', [('title', 'T')], [])], pre)
            cases.extend(_convert_cases(j, [chain], 'preamble-percent'))
            j = _db([], pre)
            cases.extend(_convert_cases(j, [chain], 'preamble-percent', preserve=(True,)))
    # --- values only YAML / BibTeXML can carry (not white-space-normalised, YAML-significant spellings): chains of these two
    for i in range(250 if not thorough else 3000):
        j = _random_db(rng, psample, VALUES + VALUES_TREE * 3, out=False, min_entries=1, tree_keys=True)
        chain = [rng.choice(('yaml', 'bibtexml')) for _ in range(rng.choice([1, 1, 2, 3]))]
        c = {'op': 'convert', 'db': j, 'chain': chain, 'preserve_case': rng.random() < 0.6 or len(chain) < 2, 'stream': 'tree-values'}
        _pick_transport(c, i, rng)
        cases.append(c)
    # --- sizes beyond toys: 5-10 entries, values of 100-400 characters (PyYAML folds lines, the XML writer indents)
    for i in range(60 if not thorough else 400):
        j = _big_db(rng, psample)
        chain = [rng.choice(FORMATS) for _ in range(rng.choice([1, 2, 3]))]
        c = {'op': 'convert', 'db': j, 'chain': chain, 'preserve_case': rng.random() < 0.6 or len(chain) < 2, 'stream': 'big'}
        _pick_transport(c, i, rng)
        cases.append(c)
        if i % 4 == 0:
            cases.append({'op': 'lowerdb', 'db': j})
            cases.append({'op': 'bibwrite', 'db': j})
    # --- non-ASCII identifiers (str.lower, not an ASCII table): YAML / BibTeXML chains and lower()
    for i in range(200 if not thorough else 2000):
        j = _random_db(rng, psample, VALUES, out=False, min_entries=1, unicode_idents=True)
        chain = [rng.choice(('yaml', 'bibtexml', 'yaml')) for _ in range(rng.choice([1, 2, 2, 3]))]
        c = {'op': 'convert', 'db': j, 'chain': chain, 'preserve_case': rng.random() < 0.4 or len(chain) < 2, 'stream': 'unicode-identifiers'}
        _pick_transport(c, i, rng)
        cases.append(c)
        cases.append({'op': 'lowerdb', 'db': j})
    # --- outside the claimed domain: only the correspondence applies
    for i in range(400 if not thorough else 5000):
        j = _random_db(rng, persons, VALUES + VALUES_OUT * 2, out=True)
        chain = [rng.choice(FORMATS) for _ in range(rng.choice([1, 1, 2]))]
        # the model's serialisers are the identity: keep what PyYAML / XML cannot represent away from them (a YAML field
        # called "type" replaces the entry type by an arbitrary value, which is no XML name any more)
        has_type = any(k.lower() == 'type' for e in j['entries'] for k, _ in e['fields'])
        if not xml_representable(j) or not yaml_lossless(j) or has_type:
            chain = ['bibtex' if (f == 'bibtexml' and (has_type or not xml_representable(j))) or (f == 'yaml' and not yaml_lossless(j)) else f for f in chain]
        cases.append({'op': 'convert', 'db': j, 'chain': chain, 'preserve_case': rng.random() < 0.7 or len(chain) < 2, 'stream': 'outside-domain'})
        cases.append({'op': 'bibwrite', 'db': j})
    # --- reader-only trees (YAML values that are not strings, person elements in every form)
    cases.extend(_tree_cases(rng, thorough))
    # --- function level (round 2): the encoder, quote / check_braces, escape / quoteattr, _to_dict, the BibTeXML text
    cases.extend(_function_cases(rng, thorough, cases))
    return cases


ENCODINGS = ['UTF-8', 'latin-1', 'UTF-16', 'cp1252', 'ascii']

ENC_ALPHABET = ['~', ' ', 'a', '%', '#', '\\', '{', '_']
XML_ALPHABET = ['&', '<', '>', '"', "'", '\n', '\t', '\r', 'a', ';', '#']
QUOTE_EXTRA = ['{', '}', '{}', '}{', '{{}', '{}}', '{"}', '"{', 'a}b{c', '{' * 99 + '}' * 99, '{' * 100 + '}' * 100, '{' * 101 + '}' * 101,
               '{' * 101, '{' * 150 + '}' * 150 + '"', '\\{', '\\}', '{\\}', 'a{b}c{d', '{a}}{', '}']


def _words(alphabet, maxlen):
    for n in range(0, maxlen + 1):
        for w in itertools.product(alphabet, repeat=n):
            yield ''.join(w)


def _function_cases(rng, thorough, sofar):
    out = []
    # _encode / _encode_with_comments: every word over the alphabet (the five characters in every context of the two-state
    # space rule), the value pools, random longer words with non-ASCII characters
    for w in _words(ENC_ALPHABET, 3 if not thorough else 4):
        out.append({'op': 'encode', 's': w})
    for v in VALUES + VALUES_FIVE + VALUES_OUT + VALUES_TREE + ['&', '_', '#', 'é~é', '~\u2014', '\u2013 \u2020', '~\n~\t~']:
        out.append({'op': 'encode', 's': v})
    pool = ENC_ALPHABET + ['&', '}', '"', '\n', 'é', '\u2013', '\U0001F600', 'x y', '\\textasciitilde']
    for _ in range(300 if not thorough else 5000):
        out.append({'op': 'encode', 's': ''.join(rng.choice(pool) for _ in range(rng.randint(2, 12)))})
    # Writer(encoding=...)._encode: the option the transports vary (ascii / latin-1 / UTF-8), characters the encoding cannot
    # hold included (translated by latexcodec, or UnicodeEncodeError)
    epool = ENC_ALPHABET + ['&', '\xe9', '\xfc', '\xdf', '\xa0', '\u2013', '\u2014', '\u2020', '\u0142', '\u0159', '\u03b1', '\u4e2d', '\u20ac', 'x']
    for enc in ('ascii', 'latin-1', 'UTF-8'):
        for c in epool:
            out.append({'op': 'encodeenc', 's': c, 'encoding': enc})
            out.append({'op': 'encodeenc', 's': c + 'a ' + c + ' ' + c, 'encoding': enc})
        for _ in range(120 if not thorough else 2000):
            out.append({'op': 'encodeenc', 's': ''.join(rng.choice(epool) for _ in range(rng.randint(2, 8))), 'encoding': enc})
    # quote / check_braces: both error points (unmatched at the end, nesting > 100), the choice of delimiters
    for v in VALUES + VALUES_OUT + QUOTE_EXTRA:
        out.append({'op': 'quote', 's': v})
    for _ in range(300 if not thorough else 4000):
        out.append({'op': 'quote', 's': ''.join(rng.choice(['{', '}', '"', 'a', ' ', '\\', '{x}']) for _ in range(rng.randint(1, 9)))})
    # escape / quoteattr: every word over what they treat specially
    for w in _words(XML_ALPHABET, 3 if not thorough else 4):
        out.append({'op': 'xmlesc', 's': w})
    for v in VALUES + VALUES_TREE + KEYS + KEYS_TREE + KEYS_U + ['&amp;', '&lt', '&#10;', '&quot;x', 'a&b;c', ']]>', '<![CDATA[x]]>']:
        out.append({'op': 'xmlesc', 's': v})
    # _to_dict and the BibTeXML text on databases of the streams above (every stream, findings and outside-domain included)
    dbs = [c['db'] for c in sofar if c['op'] == 'convert']
    step = max(1, len(dbs) // (500 if not thorough else 4000))
    for j in dbs[::step]:
        out.append({'op': 'yamltree', 'db': j})
        out.append({'op': 'xmltext', 'db': j})
    for key in ['k"1', "k'2", 'k"\'3', 'a<b', 'x&y', 'tab\there', 'nl\nkey', 'cr\rkey', '', ' sp ']:
        for v in ['', 'a<b>&c', ']]>', ' lead', 'x\ny', '"q"']:
            j = _db([_entry(key, 'Book', [('title', v), ('Year', '')], [['author', [[['F'], [], ['von'], ['L'], []]]], ['editor', []]])], ['pre'])
            out.append({'op': 'xmltext', 'db': j})
            out.append({'op': 'yamltree', 'db': j})
    out.append({'op': 'xmltext', 'db': _db([])})
    out.append({'op': 'yamltree', 'db': _db([], ['p1', 'p2'])})
    return out


def _pick_transport(c, i, rng):
    """every 10th case through convert() on real files, then to_bytes / parse_bytes (an encoding every string of the database
    can be encoded in), file objects with the format guessed from their name, in-memory file objects"""
    k = i % 20
    if k in (0, 10):
        c['via_files'] = True
    elif k in (3, 13):
        c['transport'] = 'bytes'
        ok = [e for e in ENCODINGS if _encodable(c['db'], e)]
        c['encoding'] = rng.choice(ok)
    elif k == 6:
        c['transport'] = 'fileobj'
    elif k in (8, 18):
        c['transport'] = 'memfile'


def _long_value(rng, values):
    parts = []
    n = rng.randint(100, 400)
    while sum(len(p) + 1 for p in parts) < n:
        v = rng.choice(values)
        if v:
            parts.append(v)
    return ' '.join(parts)


def _big_db(rng, persons):
    entries = []
    used = set()
    vals = [v for v in VALUES if v == ' '.join(v.split(' ')) and v.strip(' ') == v]
    for n in range(rng.randint(5, 10)):
        key = rng.choice(KEYS) + (str(n) if rng.random() < 0.7 else '')
        if key.lower() in used:
            key = 'entry%d' % n
        used.add(key.lower())
        names = rng.sample(FIELD_NAMES, rng.randint(2, 6))
        fields = [(nm, _long_value(rng, vals) if rng.random() < 0.6 else rng.choice(VALUES)) for nm in names]
        roles = []
        for role in rng.sample(['author', 'Editor'], rng.randint(0, 2)):
            roles.append([role, [rng.choice(persons) for _ in range(rng.randint(1, 8))]])
        entries.append(_entry(key, rng.choice(TYPES), fields, roles))
    return _db(entries, rng.choice(PREAMBLES + [[_long_value(rng, vals)]]))


def _random_db(rng, persons, values, out, min_entries=0, unicode_idents=False, tree_keys=False):
    entries = []
    used = set()
    for _ in range(rng.randint(min_entries, 3)):
        key = rng.choice(KEYS_U if unicode_idents and rng.random() < 0.7 else KEYS_TREE if tree_keys and rng.random() < 0.4 else KEYS)
        if key.lower() in used:
            continue
        used.add(key.lower())
        fnames = FIELD_NAMES + ([rng.choice(['type', 'Type']), 'author2'] if out else []) + (IDENTS_U if unicode_idents else [])
        names = rng.sample(fnames, rng.randint(0, 3))
        fields = [(n, rng.choice(values)) for n in names]
        roles = []
        if rng.random() < 0.6:
            for role in rng.sample(['author', 'Editor'] if rng.random() < 0.5 else ['AUTHOR', 'editor'], rng.randint(1, 2)):
                ps = [rng.choice(persons) for _ in range(rng.randint(1, 3))]
                if out and rng.random() < 0.1:
                    ps = []
                roles.append([role, ps])
        entries.append(_entry(key, rng.choice(TYPES + IDENTS_U if unicode_idents else TYPES), fields, roles))
    if not entries and min_entries:
        entries.append(_entry('only', 'misc', [('title', rng.choice(values))], []))
    pre = rng.choice(PREAMBLES) if not out else rng.choice(PREAMBLES + [['100% x'], [' a  b ']])
    return _db(entries, pre)


def _tree_cases(rng, thorough):
    cases = []
    others = [('1993', 1993), ('12.5', 12.5), ('True', True), ('None', None), ('-3', -3), ('2001-01-02', '__date__')]
    import datetime
    for text, py in others:
        if py == '__date__':
            continue
        for name in ('year', 'Title', 'TYPE'):
            tree = {'map': [['entries', {'map': [['k1', {'map': [['type', 'Book'], [name, {'other': text, 'py': py}], ['note', 'n']]}]]}]]}
            cases.append({'op': 'yamlread', 'tree': tree})
    person_maps = [{'map': [['first', 'Donald E.'], ['last', 'Knuth']]}, {'map': [['last', 'de la Vall{\\\'e}e Poussin']]},
                   {'map': [['string', 'von Beethoven, Jr, Ludwig']]}, {'map': [['string', 'a, b, c, d'], ['lineage', 'III']]}, {'map': []}]
    for pm in person_maps:
        for role in ('author', 'Editor', 'AUTHOR'):
            tree = {'map': [['entries', {'map': [['k1', {'map': [['type', 'misc'], ['title', 'T'], [role, [pm, person_maps[0]]], ['title2', 'U']]}],
                                                 ['K1', {'map': [['type', 'misc']]}], ['k2', {'map': [['type', 'x'], ['Title', 'a'], ['title', 'b']]}]]}],
                            ['preamble', 'pre']]}
            cases.append({'op': 'yamlread', 'tree': tree})
    cases.append({'op': 'yamlread', 'tree': {'map': [['entries', {'map': []}]]}})

    def el(tag, children=(), text=None, id=None):
        return {'tag': tag, 'id': id, 'text': text, 'children': list(children)}
    pforms = [el('person', [el('first', text='Donald E.'), el('last', text='Knuth')], text='\n  '),
              el('person', text=' Knuth, Donald E. '),
              el('person', [el('last', text='A'), el('last', text='B C')], text=' '),
              el('person', [el('person', [el('last', text='Nested')], text=' ')], text=' '),
              el('person', [], text=' a, b, c, d ')]
    for pf in pforms:
        for role in ('author', 'Editor', 'AUTHOR'):
            entry = el('entry', [el('Book', [el('title', text='T'), el(role, [pf, pforms[0]], text='\n'), el('Year'), el('TITLE', text='U')], text='\n')], text='\n', id='k1')
            other = el('entry', [el('misc', [el('author', text='Leslie Lamport'), el(role, [el('last', text='Direct')], text=' ')], text=' ')], text=' ', id='K2')
            skip = el('other', [], text='x')
            cases.append({'op': 'xmlread', 'tree': el('file', [entry, skip, other, el('entry', [el('misc')], id='k1')], text='\n')})
    return cases


LEVEL_TEXT = ('Machine-checked proofs (Lean 4) about function-by-function models of the BibTeX writer (quote, check_braces, _format_name, '
              '_write_persons, _write_preamble, write_stream), Person.__str__ / get_part_as_text, the YAML writer/reader (_to_dict, process_entry) and '
              'the BibTeXML writer/reader (_write, process_entry, process_person) over abstract value / element trees, Entry.lower / '
              'BibliographyData.lower and convert(): (1) for EVERY person in the explicit decidable domain WFPerson - proved to be what Person(name) '
              'itself produces (C02_wfperson_of_parse) - the written name and str() are read back as the same person, and so are the five part '
              'texts; (2) for EVERY database in the explicit decidable domain WFDb the BibTeX writer\'s text is read back by the .bib reader model of '
              'C01/C10 without error as the same ordered database (staged: field, entry = a C01 rendering + its denotation, database); (3) for YAML '
              'and BibTeXML, pybtex\'s own conversion logic is the identity given a serialiser that is lossless on the trees pybtex hands it for the database at '
              'hand (per-tree hypothesis LosslessOn; a serialiser lossless everywhere is constructed: C02_serial_witness, one that is not: C02_chain_steps_nonvacuous); (4) hence any '
              'chain of formats preserves the entries with nothing reported at any step (C02_chain_steps), and lower-casing (str.lower(), Unicode table) changes only the letter case of keys, types, field names '
              'and roles; (5) our formalisation WFDbQ of the stated quantifier (it excludes more than the published text: see the note) minus four explicitly named classes lies in these domains (C02_quantifier_partial); on '
              'each of the four classes the round trip FAILS, with a kernel-evaluated counterexample and a recorded finding. The models are tied to the code '
              'by the differential check, which also runs pickle and eval(repr()) for real. Round 2: (6) the encoder of the BibTeX writer is inside the theorems - encodeLatex (op encode, table regenerated from latexcodec on every run) is the identity exactly off # % & _ ~ '
              '(C02_encode_exact), the BibTeX round trip and the chain theorems hold with it and no encoder hypothesis (C02_bibtex_roundtrip_latex, C02_chain_latex), for every output encoding that can hold the strings '
              '(C02_encode_any_encoding, through the codec model of C09); (7) the characters of the BibTeXML text are modelled (_PrettyXMLWriter, escape, quoteattr: op xmltext, exact text) and character data / the id attribute are proved to '
              'be read back as written under a reference reading of XML references (C02_xml_text_lexical), for every string.')
LEVEL_NOTE = ('Modelled and proved: pybtex\'s writer / reader / lower / convert logic. ASSUMED (hypotheses of the theorems, exercised by the correspondence '
              'on every case, never proved): PyYAML and xml.* are lossless on the trees pybtex hands them FOR THE DATABASE AT HAND (load(dump t) = t for each tree written along the chain - LosslessOn / stages; not for every tree, which is false of the real libraries), latexcodec changes only '
              '# % & _ ~ (verified on every single code point by a probe), pickle, and repr / eval of Python strings / lists / dictionaries (the two __repr__ and the '
              'constructors are modelled as constructor calls: C02_repr_logic, compared with eval(repr(db)) of the real code on every lowerdb case). Not modelled: pickle (oracle only); the '
              'transports (to_string / to_bytes / to_file / convert() on files: exercised, the model is transport-independent); the white space '
              '_PrettyXMLWriter writes in front of file / entry / entry-type children (one newline in the model, never read; role and person elements carry the '
              'exact indentation); str() of non-string YAML scalars is supplied by the harness, str() of lists / mappings (what the reader makes of a role it does '
              'not know) is modelled (CPython >= 3.12 OrderedDict repr). Domain (explicit decidable predicates in Spec/BibWrite.lean): values balanced with nesting '
              '<= 100, white-space-normalised (for person fields also inside braces) and free of # % & _ ~; NAME identifiers, ASCII keys scannable in braces, no '
              'duplicates up to case; roles author / editor (any case), non-empty; persons WFPerson (what Person(name) yields, no token ending in a backslash, a '
              'last name present) whose written name contains no brace-level-0 " and "; YAML / BibTeXML: any identifiers free of U+0130 / U+03A3, YAML: no field '
              'called "type"; BibTeXML: the preamble is not carried. NOT in the claimed domain although inside the stated quantifier: the four recorded findings '
              '(known_findings.json: C02-role-not-author-editor, C02-empty-role, C02-yaml-type-field, C02-five-characters). C02_quantifier_exact is an iff between two '
              'in-house predicates (inDomain and WFDbQ + noFinding): WFDbQ is OUR formalisation of the quantifier and excludes, beyond the published text, ALL of: '
              '(every format) a text FIELD called author / editor (read back as persons); a ROLE called type (any case); a field name equal up to case to a role name '
              'of the same entry (fields and roles share one namespace in all three formats); keys / types / field names / role names containing U+0130 or U+03A3; '
              'persons outside WFPerson - at most one first name, no middle name without a first, no lower-case (von) token in Last before its final token, prelast ending in a von '
              'token, a last name present, tokens non-empty / balanced / free of level-0 white space, tie, comma, no token ending in a backslash - also for YAML / '
              'BibTeXML, where C02_person_parts_roundtrip shows the shape conditions are not needed (the domain is narrower than necessary there); (BibTeX only) entry '
              'types, field names, role names that are not NAMEs of the .bib grammar (ASCII); the reserved entry types comment / preamble / string; keys that are empty, '
              'non-ASCII or contain white space, a comma or }; brace nesting > 100 in a value, name list or preamble; a written name list that is not white-space-normalised '
              '(also inside braces); a name with a brace-level-0 " and " inside; a preamble whose JOINED text is not balanced (nesting <= 100) and white-space-normalised. WFDbQ asks NOTHING of YAML / BibTeXML values (not even balance): "XML-representable" is '
              'the per-tree hypothesis. The chain theorems C02_chain / C02_lower describe the final database only; that every step reads back with nothing reported '
              'is C02_chain_steps; "read back as written" means canonFor: the preamble LIST comes back joined into one string (dropped by BibTeXML). The model follows the code AFTER the proposed repairs C02-1 (empty First part kept: "Last, Jr," / "World Bank,"), C02-2 '
              '(BibTeXML role detection case-insensitive), C02-3 (BibliographyData.__repr__ no longer corrupted by keys occurring earlier in the text), C02-4 '
              '(Entry.__repr__ shows the type as written; harness only, repr is not modelled); Model/Names.lean Person.toStr is the pre-repair __str__ (C04 owns '
              'it) - the theorems use BibWrite.personStr. Trusted: Lean kernel; axioms propext/Classical.choice/Quot.sound; the tie between models and code is '
              'differential testing. Round 2: latexcodec is no longer a bare hypothesis for the BibTeX theorems with suffix _latex (the modelled encoder encodeLatex stands in the statement; its tie to latexcodec is the op encode / encodeenc and the regenerated table, 131072 code points probed per run); inDomain / WFDbQ-noFinding still exclude a percent sign in the preamble although it survives: C02_bibtex_roundtrip_percent proves the round trip on the wider WFDbP (single BibTeX step; the chain theorems are restated on it in Props/C02y.lean: C02_chain_percent, C02_lower_percent, C02_chain_steps_percent, C02_chain_percent_latex, with inDomainP = inDomain with WFDbP for BibTeX), the oracle checks such preambles and the matcher of C02-five-characters no longer covers them; the BibTeXML TEXT model covers UTF-8 only; tags are written raw (no theorem: per-tree hypothesis); the reference reading xmlUnescape / xmlAttrValue is a Spec (8 references), compared with expat where both accept.')
