"""C02 -- write/read round trip and cross-format conversion preserve the database."""
import itertools
import os
import pickle
import re
import shutil
import tempfile

import compat  # noqa: F401
import bibgen
from props.base import to_request, corpus_for  # noqa: F401

ID = 'C02'
LEAN_MODULES = ['PybtexModel.Props.C02']
THEOREMS = {
    'C02_person_roundtrip': 'persons: for every person satisfying the explicit predicate WFPerson, Person(_format_name(p)) = Person(str(p)) = p (same five token lists, nothing reported) and both texts coincide',
    'C02_person_roundtrip_comma_needed': 'persons: kernel-evaluated witnesses for repair C02-1 - "Last, Jr" is read with Jr as first name and "World Bank" with World as first name, "Last, Jr," and "World Bank," are read back correctly',
    'C02_person_roundtrip_backslash_neg': 'persons: the proviso "no token ends in a backslash" cannot be dropped (Person("A\\\\ B C") is written "C, A\\ B" and read back without the backslash)',
    'C02_person_parts_roundtrip': 'persons, YAML / BibTeXML path: Person(first=, middle=, prelast=, last=, lineage=) from the five get_part_as_text strings gives the person back whenever its tokens are clean (no structural condition)',
    'C02_wfperson_of_parse': 'domain: every person Person(name) produces for a balanced name with a von/Last token satisfies WFPersonCore (= WFPerson minus "no token ends in a backslash"), so the claimed domain is what the reader itself produces',
    'C02_bibtex_field': 'bibtex, stage 1: a balanced value the encoder leaves alone is written ,\\n    name = "value" ({value} when it contains a double quote) and that spelling is a well-formed literal for the .bib reader',
    'C02_bibtex_entry': 'bibtex, stage 2: the text of an entry of the domain is the C01 rendering of the command (roles as " and "-joined name lists, then fields) under the writer layout, the command is well-formed for C01 and denotes exactly the entry; every name list is read back as the same persons',
    'C02_bibtex_roundtrip': 'bibtex, stage 3: WFDb d and encode = id on strings free of # % & _ ~  =>  the writer succeeds and parse_string(text) raises nothing, reports nothing and returns the same keys in order, entry types as written, fields with values in order, persons per role in order, and the preamble (as one string)',
    'C02_bibtex_roundtrip_example': 'bibtex: the exact writer text of a two-entry example using every construct (kernel evaluation)',
    'C02_yaml_logic': 'yaml: load(dump(t)) = t  =>  process_entry(_to_dict(d)) = d on WFDbTree true (field order, roles on lower-cased keys, the type key, five name parts, preamble as one string), nothing reported',
    'C02_xml_logic': 'bibtexml: load(dump(t)) = t  =>  process_entry(_write(d)) = d on WFDbTree false (field order, roles in any letter case, person elements with five name parts); the format carries no preamble',
    'C02_chain': 'chains: for ANY list of formats with the database in the domain of each, write / convert / ... / read ends with the same entries; the preamble comes back as one string and is lost exactly when BibTeXML is on the way',
    'C02_lower': 'lower-casing: with preserve_case=False and at least one conversion the chain ends with lowerSpec d (keys, entry types, field names, role names lower-cased, everything else and every order untouched)',
    'C02_lower_only_case': 'lower-casing: BibliographyData.lower() = lowerSpec (nothing reported) on identifiers distinct up to case; lowerSpec keeps values, persons, orders and preamble and only lower-cases keys / types / field names / role names; the domains are closed under it',
}
RULE = ('databases as JSON (entries with key, type as written, ordered fields, ordered roles with persons as five token lists, preamble list) '
        'built through the public constructors; ES: every person Person(name) yields for the token shapes of C04 (<=3 tokens x comma placements) '
        'plus small databases (1 entry x field names x the value alphabet with braces, quotes, backslash, @ , = digits; all ordered value pairs; '
        'person pairs per role spelling; ordered key pairs x preambles) x {bibtex, yaml, bibtexml} x chains <=3 x preserve_case; R: databases read '
        'by the real reader from bibgen documents, databases built directly from Entry/Person objects (every 10th through convert() on real files), '
        'an outside-domain stream (# % & _ ~, non-normalised white space, unbalanced braces, field "type", empty roles: correspondence only), '
        'reader-only YAML/XML trees (non-string scalars, every person element form); pickle and eval(repr()) executed for real (oracle only); '
        'non-trivial = a database with a field or person / a person with >1 token; distinct by case JSON')
TRUSTED = ['PyYAML (yaml.dump / yaml.load with the ordered dumper/loader), xml.sax XMLGenerator + ElementTree, latexcodec, pickle: parameters of the '
           'model with the hypotheses load(dump t) = t resp. encode = id on strings free of # % & _ ~; exercised for real on every case, not proved',
           'the harness keeps databases PyYAML / XML cannot represent out of the claimed domain (U+0085; XML names for identifiers, XML characters)']
ASSUMPTIONS = ['no non-ASCII letters in identifiers (str.lower is ASCII in the model)',
               'the check is meant for a tree with proposed_fixes/C02-1, C02-2, C02-3 applied; on the unpatched tree it reports those three defects']

FORMATS = ('bibtex', 'yaml', 'bibtexml')
PARTS = ('first', 'middle', 'prelast', 'last', 'lineage')

# ----------------------------------------------------------------------------------------------
# databases <-> JSON


def person_parts(p):
    return [list(p.first_names), list(p.middle_names), list(p.prelast_names), list(p.last_names), list(p.lineage_names)]


def canon_db(db):
    """Ordered canonical form (the implementation's own == is order-insensitive)."""
    entries = []
    for key, e in db.entries.items():
        persons = [[role, [person_parts(p) for p in ps]] for role, ps in e.persons.items()]
        entries.append({'key': key, 'type': e.type, 'orig_type': e.original_type,
                        'fields': [[k, v] for k, v in e.fields.items()], 'persons': persons})
    return {'entries': entries, 'preamble': list(db.preamble_list)}


def mk_person(parts):
    from pybtex.database import Person
    p = Person()
    p.first_names, p.middle_names, p.prelast_names, p.last_names, p.lineage_names = [list(x) for x in parts]
    return p


def build_db(j):
    """The BibliographyData object a JSON database stands for (built through the public constructors)."""
    from pybtex.database import BibliographyData, Entry
    db = BibliographyData()
    for e in j['entries']:
        ent = Entry(e['orig_type'], fields=[(k, v) for k, v in e['fields']])
        for role, persons in e['persons']:
            if not persons:
                ent.persons[role] = []
            for parts in persons:
                ent.add_person(mk_person(parts), role)
        db.add_entry(e['key'], ent)
    db.add_to_preamble(*j['preamble'])
    return db


def canon_reports(captured):
    import ast
    bad, rep, others = [], [], 0
    for e in captured:
        cls = type(e).__name__
        msg = e.args[0] if e.args else ''
        if cls == 'InvalidNameString':
            try:
                msg = ast.literal_eval(msg[len('Too many commas in '):])
            except Exception:
                pass
            bad.append(msg)
        elif cls == 'BibliographyDataError' and msg.startswith('repeated bibliography entry: '):
            rep.append(msg[len('repeated bibliography entry: '):])
        else:
            others += 1
    return {'bad_names': bad, 'repeated': rep, 'others': others}


# ----------------------------------------------------------------------------------------------
# the implementation side


def _chain_strings(db, chain, preserve):
    from pybtex import errors
    from pybtex.database import parse_string
    reports = []
    for i, f in enumerate(chain):
        if i > 0 and not preserve:
            db = db.lower()
        text = db.to_string(f)
        with errors.capture() as captured:
            db = parse_string(text, f)
        reports.append(canon_reports(captured))
    return db, reports


_SUFFIX = {'bibtex': '.bib', 'yaml': '.yaml', 'bibtexml': '.bibtexml'}


def _chain_files(db, chain, preserve):
    """The same chain through pybtex.database.convert.convert() on real files."""
    from pybtex import errors
    from pybtex.database import parse_file
    from pybtex.database.convert import convert
    tmp = tempfile.mkdtemp(prefix='verif-c02-')
    try:
        reports = []
        path = os.path.join(tmp, 'f0' + _SUFFIX[chain[0]])
        db.to_file(path, chain[0])
        for i in range(1, len(chain)):
            nxt = os.path.join(tmp, 'f%d%s' % (i, _SUFFIX[chain[i]]))
            with errors.capture() as captured:
                convert(path, nxt, from_format=chain[i - 1], to_format=chain[i], preserve_case=preserve)
            reports.append(canon_reports(captured))
            path = nxt
        with errors.capture() as captured:
            out = parse_file(path, chain[-1])
        reports.append(canon_reports(captured))
        return out, reports
    finally:
        shutil.rmtree(tmp, True)


def _eval_repr(db):
    from pybtex.database import BibliographyData, Entry, Person
    from pybtex.utils import OrderedCaseInsensitiveDict
    return eval(repr(db), {'BibliographyData': BibliographyData, 'Entry': Entry, 'Person': Person,
                           'OrderedCaseInsensitiveDict': OrderedCaseInsensitiveDict})


def impl(case):
    from pybtex import errors
    from pybtex.database import Person
    op = case['op']
    try:
        if op == 'convert':
            db = build_db(case['db'])
            if not case['chain']:
                return {'db': canon_db(db), 'reports': []}
            run = _chain_files if case.get('via_files') else _chain_strings
            out, reports = run(db, case['chain'], case['preserve_case'])
            return {'db': canon_db(out), 'reports': reports}
        if op == 'bibwrite':
            return {'text': build_db(case['db']).to_string('bibtex')}
        if op == 'lowerdb':
            db = build_db(case['db'])
            with errors.capture() as captured:
                low = db.lower()
            r = {'db': canon_db(low), 'repeated': canon_reports(captured)['repeated']}
            extra = {}
            try:
                extra['pickle'] = canon_db(pickle.loads(pickle.dumps(db)))
            except Exception as e:  # noqa
                extra['pickle'] = {'error': compat.pybtex_error_kind(e)}
            try:
                with errors.capture() as cap2:
                    back = _eval_repr(db)
                extra['repr'] = canon_db(back)
                extra['repr_reports'] = canon_reports(cap2)
                extra['repr_eq'] = bool(back == db)
            except Exception as e:  # noqa
                extra['repr'] = {'error': compat.pybtex_error_kind(e), 'msg': str(e)[:120]}
            r['extra'] = extra
            return r
        if op == 'personfmt':
            from pybtex.database.output.bibtex import Writer
            p = mk_person(case['person'])
            fmt = Writer()._format_name(None, p)
            st = str(p)

            def back(*args, **kw):
                try:
                    with errors.capture() as captured:
                        q = Person(*args, **kw)
                    return {'person': person_parts(q), 'too_many_commas': any(type(e).__name__ == 'InvalidNameString' for e in captured)}
                except Exception as e:  # noqa
                    return {'error': compat.pybtex_error_kind(e)}
            texts = {k: p.get_part_as_text(k) for k in PARTS}
            r = {'format_name': fmt, 'str': st, 'reparsed': back(fmt), 'reparsed_str': back(st), 'from_parts': back(**texts)}
            try:
                q = eval(repr(p), {'Person': Person})
                r['extra'] = {'repr': person_parts(q)}
            except Exception as e:  # noqa
                r['extra'] = {'repr': {'error': compat.pybtex_error_kind(e)}}
            return r
        if op == 'yamlread':
            import yaml
            from pybtex.database import parse_string
            from pybtex.database.output.bibyaml import OrderedDictSafeDumper
            text = yaml.dump(_py_of_tree(case['tree']), None, encoding=None, allow_unicode=True, default_flow_style=False,
                             indent=4, Dumper=OrderedDictSafeDumper)
            with errors.capture() as captured:
                db = parse_string(text, 'yaml')
            r = canon_reports(captured)
            r['db'] = canon_db(db)
            # what was read must be a database like any other: writable in every format
            extra = {}
            for f in FORMATS:
                try:
                    with errors.capture():
                        extra[f] = canon_db(parse_string(db.to_string(f), f))['entries'] is not None
                except Exception as e:  # noqa
                    extra[f] = compat.pybtex_error_kind(e)
            r['extra'] = extra
            return r
        if op == 'xmlread':
            from pybtex.database import parse_string
            with errors.capture() as captured:
                db = parse_string(_xml_of_tree(case['tree']), 'bibtexml')
            r = canon_reports(captured)
            r['db'] = canon_db(db)
            return r
        raise ValueError(op)
    except Exception as e:  # noqa
        return {'error': compat.pybtex_error_kind(e)}


def _py_of_tree(t):
    """JSON tree -> the Python value yaml.dump gets: str | {"other": text, "py": value} | list | {"map": [[k, v]...]}"""
    from collections import OrderedDict
    if isinstance(t, str):
        return t
    if isinstance(t, list):
        return [_py_of_tree(x) for x in t]
    if 'other' in t:
        return t['py']
    return OrderedDict((k, _py_of_tree(v)) for k, v in t['map'])


def _xml_of_tree(t):
    from xml.sax.saxutils import escape, quoteattr

    def go(n):
        s = '<bibtex:%s' % n['tag']
        if n.get('id') is not None:
            s += ' id=%s' % quoteattr(n['id'])
        s += '>'
        if n.get('text') is not None:
            s += escape(n['text'])
        s += ''.join(go(c) for c in n['children'])
        return s + '</bibtex:%s>' % n['tag']
    body = go(t)
    return body.replace('<bibtex:%s' % t['tag'], '<bibtex:%s xmlns:bibtex="http://bibtexml.sf.net/"' % t['tag'], 1)


def compare_view(io):
    if isinstance(io, dict) and 'extra' in io:
        io = {k: v for k, v in io.items() if k != 'extra'}
    return io


def model_out(case, reply):
    out = reply['out']
    if case['op'] in ('yamlread', 'xmlread') and 'db' in out:
        return {'db': out['db'], 'bad_names': out['bad_names'], 'repeated': out['repeated'], 'others': out['others']}
    return out


# ----------------------------------------------------------------------------------------------
# the assumed serialisers: what the harness keeps out of the claimed domain

XML_NAME = re.compile(r'^[A-Za-z_][A-Za-z0-9._-]*$')


def _xml_chars(s, attr=False):
    for c in s:
        o = ord(c)
        if c in '\t\n':
            if attr:
                return False
        elif not (0x20 <= o <= 0xD7FF or 0xE000 <= o <= 0xFFFD or o >= 0x10000):
            return False
    return True


def xml_representable(j):
    for e in j['entries']:
        if not XML_NAME.match(e['orig_type']) or not _xml_chars(e['key'], True):
            return False
        for k, v in e['fields']:
            if not XML_NAME.match(k) or not _xml_chars(v):
                return False
        for role, ps in e['persons']:
            if not XML_NAME.match(role):
                return False
            for parts in ps:
                if not all(_xml_chars(t) for part in parts for t in part):
                    return False
    return True


def _strings(j):
    for e in j['entries']:
        yield e['key']
        yield e['orig_type']
        for k, v in e['fields']:
            yield k
            yield v
        for role, ps in e['persons']:
            yield role
            for parts in ps:
                for part in parts:
                    for t in part:
                        yield t
    for p in j['preamble']:
        yield p


def yaml_lossless(j):
    return not any('\x85' in s for s in _strings(j))


# ----------------------------------------------------------------------------------------------
# oracle


def _want_after(case, spec):
    j = case['db']
    chain = case['chain']
    src = spec['lowered'] if (not case['preserve_case'] and len(chain) >= 2) else j
    entries = [{'key': e['key'], 'type': e['orig_type'].lower(), 'orig_type': e['orig_type'],
                'fields': e['fields'], 'persons': e['persons']} for e in src['entries']]
    pre = ''.join(j['preamble'])
    preamble = [] if ('bibtexml' in chain or not pre or not chain) else [pre]
    if not chain:
        preamble = list(j['preamble'])
    return {'entries': entries, 'preamble': preamble}


def in_domain(case, spec):
    j = case['db']
    for f in case['chain']:
        if f == 'bibtex' and not spec['wf_bibtex']:
            return False
        if f == 'yaml' and not (spec['wf_yaml'] and yaml_lossless(j)):
            return False
        if f == 'bibtexml' and not (spec['wf_xml'] and xml_representable(j)):
            return False
    return True


def oracle(case, io, reply):
    op = case['op']
    spec = reply.get('spec') or {}
    fails = []
    if op == 'convert':
        if not in_domain(case, spec):
            return fails
        label = 'chain' if len(case['chain']) > 1 else 'roundtrip'
        if not case['preserve_case'] and len(case['chain']) > 1:
            label = 'lower'
        tag = '%s[%s]' % (label, '>'.join(case['chain']))
        if 'error' in io:
            return ['%s: raised %s on an in-domain database' % (tag, io['error'])]
        want = _want_after(case, spec)
        got = io['db']
        if [e['key'] for e in got['entries']] != [e['key'] for e in want['entries']]:
            fails.append('%s: keys %r, expected %r' % (tag, [e['key'] for e in got['entries']], [e['key'] for e in want['entries']]))
        else:
            for g, w in zip(got['entries'], want['entries']):
                for part in ('orig_type', 'type', 'fields', 'persons'):
                    if g[part] != w[part]:
                        fails.append('%s: entry %r %s = %r, expected %r' % (tag, g['key'], part, g[part], w[part]))
                        break
        if got['preamble'] != want['preamble']:
            fails.append('%s: preamble %r, expected %r' % (tag, got['preamble'], want['preamble']))
        for r in io['reports']:
            if r['bad_names'] or r['repeated'] or r['others']:
                fails.append('%s: reading back reported %r' % (tag, r))
                break
        return fails
    if op == 'bibwrite':
        if spec.get('wf_bibtex') and 'error' in io:
            fails.append('roundtrip[bibtex]: the writer raised %s on an in-domain database' % io['error'])
        return fails
    if op == 'personfmt':
        if 'error' in io:
            return fails
        person = case['person']
        if spec.get('wf_person'):
            for k, what in (('reparsed', 'Person(_format_name(p))'), ('reparsed_str', 'Person(str(p))'), ('from_parts', 'Person(**parts)')):
                r = io[k]
                if r.get('person') != person or r.get('too_many_commas'):
                    fails.append('person_roundtrip: %s = %r for p = %r (text %r)' % (what, r, person, io['format_name'] if k == 'reparsed' else io['str']))
            if io['extra']['repr'] != person:
                fails.append('repr: eval(repr(p)) = %r for p = %r' % (io['extra']['repr'], person))
        return fails
    if op == 'lowerdb':
        if 'error' in io:
            return ['lower: lower() raised %s' % io['error']]
        j = case['db']
        want = spec['lowered']
        if spec.get('ci_distinct'):
            if io['db'] != want or io['repeated']:
                fails.append('lower: lower() = %r (reported %r), expected identifiers lower-cased only: %r' % (io['db'], io['repeated'], want))
        ex = io['extra']
        me = canon_db(build_db(j))
        if ex['pickle'] != me:
            fails.append('pickle: loads(dumps(db)) = %r, expected %r' % (ex['pickle'], me))
        if spec.get('persons_wf'):
            r = ex['repr']
            if 'error' in r:
                fails.append('repr: eval(repr(db)) raised %s (%s)' % (r['error'], r.get('msg')))
            else:
                # Entry.__repr__ shows the (lower-cased) type only; everything else must come back
                norm = {'entries': [dict(e, orig_type=e['type']) for e in me['entries']], 'preamble': me['preamble']}
                if r != norm or not ex.get('repr_eq'):
                    fails.append('repr: eval(repr(db)) = %r, expected %r' % (r, norm))
        return fails
    if op == 'yamlread':
        if 'error' in io:
            return fails
        for e in io['db']['entries']:
            for k, v in e['fields']:
                if not isinstance(v, str):
                    fails.append('yaml_values: field %r of entry %r was read as %r (%s), not as a string' % (k, e['key'], v, type(v).__name__))
        for f, res in io.get('extra', {}).items():
            if isinstance(res, str) and res.startswith('INTERNAL'):
                fails.append('yaml_values: the database read from YAML cannot be written as %s: %s' % (f, res))
        return fails
    return fails


def buckets(case, io):
    b = [case['op']]
    if case['op'] == 'convert':
        b.append('chain=' + '>'.join(case['chain']))
        b.append('preserve' if case['preserve_case'] else 'lower')
        if case.get('via_files'):
            b.append('via-convert()')
        b.append(case.get('stream', 'generated'))
    if isinstance(io, dict) and 'error' in io:
        b.append('error:' + io['error'])
    return b


def nontrivial(case, io):
    if case['op'] in ('convert', 'bibwrite', 'lowerdb'):
        return any(e['fields'] or e['persons'] for e in case['db']['entries'])
    if case['op'] == 'personfmt':
        return sum(len(x) for x in case['person']) > 1
    return True


def corpus():
    return corpus_for(ID)


def _ci_distinct(names):
    low = [n.lower() for n in names]
    return len(set(low)) == len(low)


def valid_case(case):
    """Used by the shrinker: a database must be one a BibliographyData object can hold."""
    try:
        if 'db' in case:
            j = case['db']
            if not _ci_distinct([e['key'] for e in j['entries']]):
                return False
            for e in j['entries']:
                if not _ci_distinct([k for k, _ in e['fields']]) or not _ci_distinct([r for r, _ in e['persons']]):
                    return False
                for _r, ps in e['persons']:
                    if any(len(p) != 5 for p in ps):
                        return False
            if case['op'] == 'convert' and (not all(f in FORMATS for f in case['chain'])):
                return False
        if case['op'] == 'personfmt' and len(case['person']) != 5:
            return False
        if case['op'] in ('yamlread', 'xmlread'):
            return False
        return True
    except Exception:
        return False


# ----------------------------------------------------------------------------------------------
# generators

TOKENS = {'Cap': 'Smith', 'low': 'von', 'braced': '{Mc B}', 'spU': "{\\'E}cole", 'spL': "{\\'e}cole", 'caseless': '1{2}',
          'hyph': 'Jean-Paul', 'lowbr': '{\\v s}x', 'sp0': '{\\ae}b', 'quote': 'O"Q', 'bs': 'a\\b', 'at': 'x@y=1', 'comma': '{a, b}',
          'andbr': '{x and y}'}
CLASSES = list(TOKENS)
# values of the claimed domain: braces, quotes, backslash, @ , = digits (no # % & _ ~, white-space-normalised)
VALUES = ['', 'word', 'two words', '{Braced} text', 'a {"} b', 'q "x" q', '1993', '{\\"o}', 'a, b = c @ d', 'back\\slash',
          '(paren) [x]', 'x < y > z', "it's", '– €', '{{nested} {deep}}', '"', '\\', 'a=b,c', '@k{x}', '{a "b" c}']
# outside the claimed domain (correspondence only)
VALUES_OUT = ['100% x', 'a_b', 'R&D', 'x~y', '#1', ' lead', 'trail ', 'two  spaces', 'a\nb', 'tab\there', '{open', 'close}', '}{',
              '{}}{}', 'a\x0bb', 'a\xa0b', '%', 'a%b%c', '~', 'x~ y', '~~']
TYPES = ['article', 'Book', 'MISC', 'inProceedings']
FIELD_NAMES = ['title', 'Year', 'JOURNAL', 'note', 'month', 'x-field', 'a.b', 'url', 'crossref']
KEYS = ['key1', 'Knuth:1984', 'a-b', 'K', 'x/y', 'weird{key', 'k)', 'KEY2', 'k"q', 'k=v', 'k#h', 'k@x', 'k_u']
ROLES = ['author', 'Editor', 'AUTHOR', 'editor']
PREAMBLES = [[], ['\\newcommand{\\x}{y}'], ['pre {a}', 'second'], ['q "x" q'], ['']]


def _names_of_shapes(maxtok, classes):
    """Name strings: every token shape x comma placements (as in the C04 scope)."""
    for n in range(1, maxtok + 1):
        for cls in itertools.product(classes, repeat=n):
            toks = [TOKENS[c] for c in cls]
            for k in range(0, min(3, n) + 1):
                for commas in itertools.combinations(range(n), k):
                    s = ''
                    for i, t in enumerate(toks):
                        s += t + (',' if i in commas else '') + (' ' if i < n - 1 else '')
                    yield s


def _parsed_person(name):
    from pybtex import errors
    from pybtex.database import Person
    with errors.capture():
        return person_parts(Person(name))


def _entry(key, ty, fields, persons):
    return {'key': key, 'orig_type': ty, 'fields': [list(f) for f in fields], 'persons': persons}


def _db(entries, preamble=()):
    return {'entries': entries, 'preamble': list(preamble)}


def _db_from_doc(doc):
    """A database read by the real reader from a generated .bib document."""
    from pybtex import errors
    from pybtex.database import parse_string
    text = bibgen.render(doc, bibgen.Layout([0]), {'paren': any(c['k'] == 'entry' and '}' in c['key'] for c in doc), 'spelling': 0, 'case': 0, 'ws': 0,
                                                    'trailing': False, 'keepcase': True})
    with errors.capture():
        db = parse_string(text, 'bibtex')
    j = canon_db(db)
    for e in j['entries']:
        del e['type']
    return j


def _convert_cases(j, chains, stream, preserve=(True, False), via_files=False):
    for chain in chains:
        for p in preserve:
            if not p and len(chain) < 2:
                continue
            c = {'op': 'convert', 'db': j, 'chain': list(chain), 'preserve_case': p, 'stream': stream}
            if via_files:
                c['via_files'] = True
            yield c


CHAINS1 = [(f,) for f in FORMATS]
CHAINS2 = list(itertools.product(FORMATS, repeat=2))
CHAINS3 = list(itertools.product(FORMATS, repeat=3))


def gen_cases(tier, rng, info):
    cases = []
    thorough = tier == 'thorough'
    # --- persons: every person Person(name) produces for the token shapes, plus person lists not produced by the reader
    maxtok = 3
    classes = CLASSES if thorough else CLASSES[:9]
    seen = set()
    persons = []
    for name in _names_of_shapes(maxtok, classes):
        parts = _parsed_person(name)
        k = repr(parts)
        if k not in seen:
            seen.add(k)
            persons.append(parts)
    for parts in persons:
        cases.append({'op': 'personfmt', 'person': parts})
    n_es_persons = len(persons)
    pool = list(TOKENS.values()) + ['de', 'la', 'Jr.', 'III', 'and', 'AND', '\\~n', 'a\\', 'x~y', 'a,b', '{', 'B.']
    for _ in range(600 if not thorough else 6000):
        parts = [[rng.choice(pool) for _ in range(rng.choice([0, 0, 1, 1, 2]))] for _ in range(5)]
        cases.append({'op': 'personfmt', 'person': parts})
    # --- exhaustive small databases (claimed domain)
    good_persons = [p for p in persons if all(t not in ('{a, b}',) or True for part in p for t in part)]
    psample = good_persons[::max(1, len(good_persons) // (40 if not thorough else 160))]
    es = 0
    vals = VALUES if thorough else VALUES[:12]
    for ty in TYPES[:2]:
        for key in KEYS[:2]:
            # one field: every name x every value
            for fn in FIELD_NAMES[:3]:
                for v in vals:
                    j = _db([_entry(key, ty, [(fn, v)], [])])
                    cases.extend(_convert_cases(j, CHAINS1 + CHAINS2, 'es-db'))
                    es += 1
    # two fields: every ordered pair of values
    for v1 in vals:
        for v2 in vals:
            j = _db([_entry('Key1', 'Article', [('Title', v1), ('note', v2)], [])], ['pre {a}'])
            cases.extend(_convert_cases(j, CHAINS1, 'es-db'))
            es += 1
    # persons: every sampled person alone and paired, under each role spelling
    for i, p in enumerate(psample):
        role = ROLES[i % len(ROLES)]
        j = _db([_entry('k%d' % i, 'book', [('title', 'T')], [[role, [p, psample[(i * 7 + 3) % len(psample)]]]])])
        cases.extend(_convert_cases(j, CHAINS1 + CHAINS2, 'es-db'))
        cases.append({'op': 'bibwrite', 'db': j})
        cases.append({'op': 'lowerdb', 'db': j})
        es += 1
    # two entries, keys differing in case only are NOT allowed (a dictionary cannot hold them); order and preamble kept
    for k1, k2 in itertools.permutations(KEYS[:6], 2):
        for pre in PREAMBLES:
            j = _db([_entry(k1, 'article', [('title', 'A {B}')], []), _entry(k2, 'Book', [('Year', '1993'), ('title', 'q "x" q')], [['Editor', [psample[0]]]])], pre)
            cases.extend(_convert_cases(j, CHAINS1 + (CHAINS3[::4] if thorough else CHAINS3[::9]), 'es-db'))
            cases.append({'op': 'lowerdb', 'db': j})
            es += 1
    info['exhaustive'] = True
    info['scope'] = ('%d persons = every Person(name) for the token shapes (<=%d tokens over %d token classes x comma placements); %d small databases '
                     '(1 entry x 3 field names x %d values; all ordered value pairs; every sampled person pair per role spelling; all ordered key pairs of 6 x 5 preambles) '
                     'x formats / chains / preserve_case' % (n_es_persons, maxtok, len(classes), es, len(vals)))
    # --- random: databases read by the real reader from generated documents
    nrand = 700 if not thorough else 12000
    for i in range(nrand):
        j = _db_from_doc(bibgen.gen_doc(rng))
        chain = [rng.choice(FORMATS) for _ in range(rng.choice([1, 2, 2, 3]))]
        preserve = rng.random() < 0.6 or len(chain) < 2
        cases.append({'op': 'convert', 'db': j, 'chain': chain, 'preserve_case': preserve, 'stream': 'from-reader'})
        if i % 3 == 0:
            cases.append({'op': 'bibwrite', 'db': j})
        if i % 5 == 0:
            cases.append({'op': 'lowerdb', 'db': j})
    # --- random: databases built directly from Entry / Person objects
    for i in range(nrand):
        j = _random_db(rng, psample, VALUES, out=False)
        chain = [rng.choice(FORMATS) for _ in range(rng.choice([1, 2, 3, 3]))]
        preserve = rng.random() < 0.5 or len(chain) < 2
        c = {'op': 'convert', 'db': j, 'chain': chain, 'preserve_case': preserve, 'stream': 'direct'}
        if i % 10 == 0:
            c['via_files'] = True
        cases.append(c)
        if i % 3 == 0:
            cases.append({'op': 'bibwrite', 'db': j})
        if i % 4 == 0:
            cases.append({'op': 'lowerdb', 'db': j})
    # --- outside the claimed domain: only the correspondence applies
    for i in range(400 if not thorough else 5000):
        j = _random_db(rng, persons, VALUES + VALUES_OUT * 2, out=True)
        chain = [rng.choice(FORMATS) for _ in range(rng.choice([1, 1, 2]))]
        # the model's serialisers are the identity: keep what PyYAML / XML cannot represent away from them (a YAML field
        # called "type" replaces the entry type by an arbitrary value, which is no XML name any more)
        has_type = any(k.lower() == 'type' for e in j['entries'] for k, _ in e['fields'])
        if not xml_representable(j) or not yaml_lossless(j) or has_type:
            chain = ['bibtex' if (f == 'bibtexml' and (has_type or not xml_representable(j))) or (f == 'yaml' and not yaml_lossless(j)) else f for f in chain]
        cases.append({'op': 'convert', 'db': j, 'chain': chain, 'preserve_case': rng.random() < 0.7 or len(chain) < 2, 'stream': 'outside-domain'})
        cases.append({'op': 'bibwrite', 'db': j})
    # --- reader-only trees (YAML values that are not strings, person elements in every form)
    cases.extend(_tree_cases(rng, thorough))
    return cases


def _random_db(rng, persons, values, out):
    entries = []
    used = set()
    for _ in range(rng.randint(0, 3)):
        key = rng.choice(KEYS)
        if key.lower() in used:
            continue
        used.add(key.lower())
        names = rng.sample(FIELD_NAMES + ([rng.choice(['type', 'Type']), 'author2'] if out else []), rng.randint(0, 3))
        fields = [(n, rng.choice(values)) for n in names]
        roles = []
        if rng.random() < 0.6:
            for role in rng.sample(['author', 'Editor'] if rng.random() < 0.5 else ['AUTHOR', 'editor'], rng.randint(1, 2)):
                ps = [rng.choice(persons) for _ in range(rng.randint(1, 3))]
                if out and rng.random() < 0.1:
                    ps = []
                roles.append([role, ps])
        entries.append(_entry(key, rng.choice(TYPES), fields, roles))
    pre = rng.choice(PREAMBLES) if not out else rng.choice(PREAMBLES + [['100% x'], [' a  b ']])
    return _db(entries, pre)


def _tree_cases(rng, thorough):
    cases = []
    others = [('1993', 1993), ('12.5', 12.5), ('True', True), ('None', None), ('-3', -3), ('2001-01-02', '__date__')]
    import datetime
    for text, py in others:
        if py == '__date__':
            continue
        for name in ('year', 'Title', 'TYPE'):
            tree = {'map': [['entries', {'map': [['k1', {'map': [['type', 'Book'], [name, {'other': text, 'py': py}], ['note', 'n']]}]]}]]}
            cases.append({'op': 'yamlread', 'tree': tree})
    person_maps = [{'map': [['first', 'Donald E.'], ['last', 'Knuth']]}, {'map': [['last', 'de la Vall{\\\'e}e Poussin']]},
                   {'map': [['string', 'von Beethoven, Jr, Ludwig']]}, {'map': [['string', 'a, b, c, d'], ['lineage', 'III']]}, {'map': []}]
    for pm in person_maps:
        for role in ('author', 'Editor', 'AUTHOR'):
            tree = {'map': [['entries', {'map': [['k1', {'map': [['type', 'misc'], ['title', 'T'], [role, [pm, person_maps[0]]], ['title2', 'U']]}],
                                                 ['K1', {'map': [['type', 'misc']]}], ['k2', {'map': [['type', 'x'], ['Title', 'a'], ['title', 'b']]}]]}],
                            ['preamble', 'pre']]}
            cases.append({'op': 'yamlread', 'tree': tree})
    cases.append({'op': 'yamlread', 'tree': {'map': [['entries', {'map': []}]]}})

    def el(tag, children=(), text=None, id=None):
        return {'tag': tag, 'id': id, 'text': text, 'children': list(children)}
    pforms = [el('person', [el('first', text='Donald E.'), el('last', text='Knuth')], text='\n  '),
              el('person', text=' Knuth, Donald E. '),
              el('person', [el('last', text='A'), el('last', text='B C')], text=' '),
              el('person', [el('person', [el('last', text='Nested')], text=' ')], text=' '),
              el('person', [], text=' a, b, c, d ')]
    for pf in pforms:
        for role in ('author', 'Editor', 'AUTHOR'):
            entry = el('entry', [el('Book', [el('title', text='T'), el(role, [pf, pforms[0]], text='\n'), el('Year'), el('TITLE', text='U')], text='\n')], text='\n', id='k1')
            other = el('entry', [el('misc', [el('author', text='Leslie Lamport'), el(role, [el('last', text='Direct')], text=' ')], text=' ')], text=' ', id='K2')
            skip = el('other', [], text='x')
            cases.append({'op': 'xmlread', 'tree': el('file', [entry, skip, other, el('entry', [el('misc')], id='k1')], text='\n')})
    return cases


LEVEL_TEXT = ('Machine-checked proofs (Lean 4) about function-by-function models of the BibTeX writer (quote, check_braces, _format_name, '
              '_write_persons, _write_preamble, write_stream), Person.__str__ / get_part_as_text, the YAML writer/reader (_to_dict, process_entry) and '
              'the BibTeXML writer/reader (_write, process_entry, process_person) over abstract value / element trees, Entry.lower / '
              'BibliographyData.lower and convert(): (1) for EVERY person in the explicit decidable domain WFPerson - proved to be what Person(name) '
              'itself produces (C02_wfperson_of_parse) - the written name and str() are read back as the same person, and so are the five part '
              'texts; (2) for EVERY database in the explicit decidable domain WFDb the BibTeX writer\'s text is read back by the .bib reader model of '
              'C01/C10 without error as the same ordered database (staged: field, entry = a C01 rendering + its denotation, database); (3) for YAML '
              'and BibTeXML, pybtex\'s own conversion logic is the identity given a lossless serialiser; (4) hence any chain of formats preserves the '
              'entries, and lower-casing changes only the letter case of keys, types, field names and roles. The models are tied to the code by the '
              'differential check, which also runs pickle and eval(repr()) for real.')
LEVEL_NOTE = ('Modelled and proved: pybtex\'s writer / reader / lower / convert logic. ASSUMED (hypotheses of the theorems, exercised by the correspondence '
              'on every case, never proved): PyYAML and xml.* are lossless on the trees pybtex hands them (load(dump t) = t), latexcodec changes only '
              '# % & _ ~ (verified on every single code point by a probe), pickle. Not modelled: Python repr/eval and pickle (oracle only); the white space '
              '_PrettyXMLWriter writes for indentation (abstracted to one newline, the reader strips it); str() of non-string YAML scalars is supplied by '
              'the harness. Domain (explicit decidable predicates in Spec/BibWrite.lean): values balanced with nesting <= 100, white-space-normalised '
              '(for person fields also inside braces) and free of # % & _ ~; NAME identifiers, keys scannable in braces, no duplicates up to case; '
              'roles non-empty; persons WFPerson (what Person(name) yields, no token ending in a backslash, a last name present) whose written name '
              'contains no brace-level-0 " and "; YAML: no field called "type"; BibTeXML: the preamble is not carried. The model follows the code AFTER '
              'the proposed repairs C02-1 (empty First part kept: "Last, Jr," / "World Bank,"), C02-2 (BibTeXML role detection case-insensitive), '
              'C02-3 (BibliographyData.__repr__ no longer corrupted by keys occurring earlier in the text); Model/Names.lean Person.toStr is the pre-repair '
              '__str__ (C04 owns it) - the theorems use BibWrite.personStr. Trusted: Lean kernel; axioms propext/Classical.choice/Quot.sound; the tie '
              'between models and code is differential testing.')
