"""C19, extension (round 2): function-level correspondence for the parts of `wrap` that were only compared end to end.

ops (driver: Drv/C19.lean)
  ws_positions    the module's own `whitespace_re` (`finditer`) on every code point          <-> Wrap.wsPositions
  pairwise        `pybtex.utils.pairwise`                                                    <-> Wrap.pairwise
  rstrip          `str.rstrip()`                                                             <-> Pybtex.rstrip
  wrap_signature  `inspect.signature(wrap)` defaults                                         <-> Wrap.defaultWidth / defaultIndent
  iter_trace      the REAL closures `find_break` / `iter_lines` inside `wrap`, call by call   <-> Wrap.iterCalls / iterLines
                  (recorded with sys.setprofile while the real `wrap` runs; no transcription)
  engine_calls    `Interpreter.output(s)` / `Interpreter.newline()` called directly on a fresh
                  Interpreter (any Unicode text: quotes, line feeds, all 29 white-space code
                  points -- what a .bst string literal cannot hold)                          <-> fold of BstSem.emit
"""
import itertools
import sys

import compat  # noqa: F401

OPS = ('ws_positions', 'pairwise', 'rstrip', 'wrap_signature', 'iter_trace', 'engine_calls')


# --------------------------------------------------------------------------- the inner functions of wrap

def _inner_codes():
    """code objects of the functions defined inside `wrap`, by name"""
    from pybtex.bibtex import utils
    return {c.co_name: c for c in utils.wrap.__code__.co_consts if hasattr(c, 'co_code')}


def trace_wrap(text, width, indent):
    """Run the real wrap(text, width, indent) and record what its inner functions do: (returned string,
    [(argument, result) of every find_break call], [every value iter_lines yields]).  Lists are None when the
    function has no inner function of that name (a refactoring may remove them: the op then compares the
    returned string only)."""
    from pybtex.bibtex import utils
    codes = _inner_codes()
    fb, il = codes.get('find_break'), codes.get('iter_lines')
    calls, lines, pending = [], [], []

    def prof(frame, event, arg):
        code = frame.f_code
        if code is fb:
            if event == 'call':
                pending.append(frame.f_locals.get(code.co_varnames[0]))
            elif event == 'return' and pending:
                calls.append([pending.pop(), arg])
        elif code is il and event == 'return' and arg is not None:
            lines.append(arg)

    old = sys.getprofile()
    sys.setprofile(prof)
    try:
        out = utils.wrap(text, width, indent)
    finally:
        sys.setprofile(old)
    return out, (calls if fb is not None else None), (lines if il is not None else None)


_AVAILABLE = []


def inner_available():
    """(find_break calls observable, iter_lines yields observable) on the tree under test"""
    if not _AVAILABLE:
        try:
            out, calls, lines = trace_wrap('aaaa b c', 3, '  ')
            _AVAILABLE.append((bool(calls), bool(lines)))
        except Exception:
            _AVAILABLE.append((False, False))
    return _AVAILABLE[0]


# --------------------------------------------------------------------------- implementation side

def impl(case):
    op = case['op']
    if op == 'ws_positions':
        from pybtex.bibtex import utils
        return [m.start() for m in utils.whitespace_re.finditer(case['text'])]
    if op == 'pairwise':
        from pybtex.utils import pairwise
        return [[a, b] for a, b in pairwise(case['items'])]
    if op == 'rstrip':
        return case['text'].rstrip()
    if op == 'wrap_signature':
        import inspect
        from pybtex.bibtex import utils
        ps = list(inspect.signature(utils.wrap).parameters.values())
        return {'width': ps[1].default, 'indent': ps[2].default}
    if op == 'iter_trace':
        out, calls, lines = trace_wrap(case['text'], case['width'], case['indent'])
        has_calls, has_lines = inner_available()
        res = {'wrap': out}
        if has_calls:
            res['calls'] = calls
        if has_lines:
            res['lines'] = lines
        return res
    if op == 'engine_calls':
        from pybtex.bibtex.interpreter import Interpreter
        i = Interpreter('bibtex', 'utf-8')
        for c in case['calls']:
            if c[0] == 'w':
                i.output(c[1])
            else:
                i.newline()
        return {'lines': list(i.output_lines), 'buffer': list(i.output_buffer), 'bbl': ''.join(i.output_lines)}
    raise ValueError(op)


def to_request(case):
    return {k: v for k, v in case.items() if k != 'family'}


def model_out(case, reply):
    out = reply.get('out')
    if case['op'] == 'iter_trace' and isinstance(out, dict):
        has_calls, has_lines = inner_available()
        out = dict(out)
        if not has_calls:
            out.pop('calls', None)
        if not has_lines:
            out.pop('lines', None)
    if case['op'] == 'engine_calls' and isinstance(out, dict) and out.get('bbl') != reply['spec']['engine']:
        return {'model_inconsistent': {'emit_fold': out, 'engineOutput': reply['spec']['engine']}}
    return out


def valid_case(case):
    op = case['op']
    if op in ('ws_positions', 'rstrip'):
        return isinstance(case.get('text'), str)
    if op == 'pairwise':
        return isinstance(case.get('items'), list) and all(isinstance(x, int) and not isinstance(x, bool) and x >= 0 for x in case['items'])
    if op == 'wrap_signature':
        return True
    if op == 'iter_trace':
        return (isinstance(case.get('text'), str) and isinstance(case.get('indent'), str)
                and isinstance(case.get('width'), int) and not isinstance(case.get('width'), bool))
    if op == 'engine_calls':
        return isinstance(case.get('calls'), list) and all(
            isinstance(c, list) and ((len(c) == 2 and c[0] == 'w' and isinstance(c[1], str)) or c == ['n']) for c in case['calls'])
    return False


def groups_of(calls):
    """the newline groups of a call sequence (bookkeeping only): pieces before the 1st newline, between 1st and 2nd, ..."""
    groups, cur = [], []
    for c in calls:
        if c[0] == 'w':
            cur.append(c[1])
        else:
            groups.append(cur)
            cur = []
    return groups, cur


# --------------------------------------------------------------------------- oracle

def oracle(case, impl_out, reply):
    from props import c19
    op = case['op']
    if isinstance(impl_out, dict) and 'exception' in impl_out:
        return ['total: the implementation raised %r' % (impl_out,)]
    if op == 'ws_positions':
        # "broken only at whitespace" / "a legal break point": the break candidates are exactly the white-space characters
        want = [k for k, ch in enumerate(case['text']) if ch in c19.WS]
        if impl_out != want:
            extra = [k for k in impl_out if k not in set(want)][:3]
            missing = [k for k in want if k not in set(impl_out)][:3]
            return ['breaks_at_ws: the break candidates of whitespace_re are not the white-space characters of the text: '
                    'non-white-space matched at %r (%r), white space not matched at %r (%r)' % (
                        extra, [case['text'][k] for k in extra], missing, [case['text'][k] for k in missing])]
        return []
    if op == 'wrap_signature':
        fails = []
        if impl_out.get('width') != 79:
            fails.append('width: the default width of wrap is %r; the property states 79 columns' % (impl_out.get('width'),))
        if impl_out.get('indent') != '  ':
            fails.append('indent: the default indent of wrap is %r; the property states two spaces' % (impl_out.get('indent'),))
        return fails
    if op == 'iter_trace':
        text, width, indent = case['text'], case['width'], case['indent']
        fails = c19.clauses(text, width, indent, impl_out.get('wrap')) + c19.spec_clauses(text, width, indent, None, reply['spec'])
        lines = impl_out.get('lines')
        if lines is not None:
            # the clauses on the REAL un-stripped lines: they reassemble to the text (one white-space character per break),
            # and the returned string is their rstrip-join
            fails += [f.replace('specification lines', 'the lines iter_lines yields')
                      for f in c19.spec_clauses(text, width, indent, None, {'lines': lines})]
            if isinstance(impl_out.get('wrap'), str) and '\n'.join(c19._rstrip(l) for l in lines) != impl_out['wrap']:
                fails.append('rstrip: the returned string is not the line-feed join of the yielded lines with trailing white space removed')
        return fails
    if op == 'engine_calls':
        groups, rest = groups_of(case['calls'])
        bbl = impl_out.get('bbl')
        if not isinstance(bbl, str):
            return ['total: no output text: %r' % (impl_out,)]
        if any('\n' in p for g in groups for p in g):
            # a line feed inside a piece: physical and logical lines cannot be told apart; line-independent clauses only
            fails = []
            T = [''.join(g) for g in groups]
            if c19._nonws(bbl) != c19._nonws(''.join(T)):
                fails.append('content: the non-white-space characters of the output differ from those of all writes before the last newline')
            if c19._words(bbl) != [w for t in T for w in c19._words(t)]:
                fails.append('breaks_at_ws: the words of the output differ from the words written, group by group')
            return fails
        if not groups:
            return [] if bbl == '' else ['content: output %r without any newline call' % bbl[:40]]
        fails = c19._engine_clauses(groups, bbl)
        for g, sp in zip(groups, reply['spec']['groups']):
            fails += c19.spec_clauses(''.join(g), 79, '  ', None, sp)
        return fails
    return []   # pairwise, rstrip: helpers without a clause of their own -- correspondence only


def buckets(case, impl_out):
    op = case['op']
    fam = case.get('family', op)
    if op == 'iter_trace' and isinstance(impl_out, dict):
        calls = impl_out.get('calls')
        tags = []
        if calls is not None:
            tags.append('calls=%s' % (len(calls) if len(calls) < 3 else '3+'))
            if any(c[1] is None for c in calls):
                tags.append('none')
            if any(c[1] is not None and c[1] > case['width'] for c in calls):
                tags.append('fallback')
        return ['%s:%s' % (fam, ','.join(tags) or 'wrap-only')]
    if op == 'engine_calls' and isinstance(impl_out, dict) and 'bbl' in impl_out:
        groups, rest = groups_of(case['calls'])
        k = len(groups)
        tags = ['newlines=%s' % (k if k < 4 else '4+')]
        if rest:
            tags.append('unflushed')
        if impl_out['bbl'].count('\n') > k:
            tags.append('wrapped-or-nl')
        return ['%s:%s' % (fam, ','.join(tags))]
    if op == 'ws_positions' and isinstance(impl_out, list):
        return ['%s:%s' % (fam, 'some' if impl_out else 'none')]
    if op == 'pairwise' and isinstance(impl_out, list):
        return ['%s:len=%s' % (fam, len(impl_out) if len(impl_out) < 3 else '3+')]
    if op == 'rstrip' and isinstance(impl_out, str):
        return ['%s:%s' % (fam, 'stripped' if impl_out != case['text'] else 'same')]
    return [fam]


def nontrivial(case, impl_out):
    op = case['op']
    if op == 'iter_trace':
        return isinstance(impl_out, dict) and isinstance(impl_out.get('wrap'), str) and '\n' in impl_out['wrap']
    if op == 'engine_calls':
        return isinstance(impl_out, dict) and sum(1 for c in case['calls'] if c[0] == 'n') >= 2
    if op in ('ws_positions', 'pairwise'):
        return isinstance(impl_out, list) and len(impl_out) > 0
    if op == 'rstrip':
        return isinstance(impl_out, str) and impl_out != case['text']
    return True


# --------------------------------------------------------------------------- generators

def _ws_table_cases():
    """every code point (surrogates excluded) goes through the module's whitespace_re: 'x' + chr(cp) pairs in chunks"""
    cases = []
    cps = [cp for cp in range(0x110000) if not 0xD800 <= cp <= 0xDFFF]
    # dense below U+3100 (all 29 white-space code points live there), then the rest in larger chunks
    lo = [cp for cp in cps if cp < 0x3100]
    hi = [cp for cp in cps if cp >= 0x3100]
    for k in range(0, len(lo), 512):
        cases.append({'op': 'ws_positions', 'family': 'ws-table', 'text': ''.join('x' + chr(cp) for cp in lo[k:k + 512])})
    for k in range(0, len(hi), 8192):
        cases.append({'op': 'ws_positions', 'family': 'ws-table', 'text': ''.join(chr(cp) for cp in hi[k:k + 8192])})
    return cases


def _calls_of(rng, c19, unicode_share):
    calls = []
    for _ in range(rng.choice([0, 1, 1, 2, 2, 3, 3, 4, 5, 6])):
        for piece in c19._random_group(rng):
            calls.append(['w', piece])
        calls.append(['n'])
    if rng.random() < 0.35:
        for piece in c19._random_group(rng):
            calls.append(['w', piece])       # written after the last newline: stays in the buffer
    if rng.random() < unicode_share:
        # what a .bst string literal cannot hold: quotes, any white-space code point, non-ASCII words, (rarely) line feeds
        allow_nl = rng.random() < 0.25
        for c in calls:
            if c[0] == 'w' and rng.random() < 0.6:
                text = c19._random_text(rng, 79, allow_nl)
                if rng.random() < 0.3:
                    text = text.replace('a', '"', 1)
                cuts = sorted(rng.randint(0, len(text)) for _ in range(2))
                c[1] = text[cuts[0]:cuts[1]] if rng.random() < 0.5 else text
    return calls


CALL_ALPHABET = [['w', 'a'], ['w', ' '], ['w', 'b c'], ['n']]


def gen_cases(tier, rng, info):
    from props import c19
    cases = [{'op': 'wrap_signature', 'family': 'signature'}]
    cases += _ws_table_cases()
    # pairwise: every list of <= 4 increasing positions out of 0..5, plus long ones
    for n in range(0, 5):
        for items in itertools.combinations(range(6), n):
            cases.append({'op': 'pairwise', 'family': 'pairwise', 'items': list(items)})
    for _ in range(40):
        cases.append({'op': 'pairwise', 'family': 'pairwise', 'items': sorted(rng.sample(range(400), rng.randint(5, 60)))})
    # rstrip: every string of <= 4 characters over {a, blank, tab, U+3000, U+001F}, plus random tails of any white space
    for n in range(0, 5):
        for t in itertools.product('a \t　\x1f', repeat=n):
            cases.append({'op': 'rstrip', 'family': 'rstrip', 'text': ''.join(t)})
    for _ in range(300):
        cases.append({'op': 'rstrip', 'family': 'rstrip', 'text': c19._random_text(rng, 20, True) + c19._gap(rng, True, rng.randint(0, 4))})
    # the inner functions, call by call: short profiles at small widths / several indents, boundary at 79, random texts
    small = c19._exhaustive(3, 4, (0, 1), (0, 1), None)
    n_trace = 0
    for c in small:
        for width, indent in ((3, '  '), (5, '  '), (0, ''), (2, ' '), (4, '> ')):
            cases.append({'op': 'iter_trace', 'family': 'inner-profile', 'text': c['text'], 'width': width, 'indent': indent})
            n_trace += 1
    for a in range(74, 84):
        for b in (1, 40, 77, 78, 79, 80):
            for gap in (' ', '  ', '\t'):
                cases.append({'op': 'iter_trace', 'family': 'inner-boundary', 'text': c19._word(0, a) + gap + c19._word(1, b) + ' ' + c19._word(2, 3),
                              'width': 79, 'indent': '  '})
    for _ in range(1500 if tier == 'quick' else 15000):
        rc = c19._random_case(rng)
        cases.append({'op': 'iter_trace', 'family': 'inner-random', 'text': rc['text'], 'width': rc['width'], 'indent': rc['indent']})
    # Interpreter.output / newline called directly
    for n in range(1, 5 if tier == 'quick' else 6):
        for seq in itertools.product(CALL_ALPHABET, repeat=n):
            cases.append({'op': 'engine_calls', 'family': 'engine-calls', 'calls': [list(c) for c in seq]})
    for _ in range(1200 if tier == 'quick' else 10000):
        cases.append({'op': 'engine_calls', 'family': 'engine-calls-random', 'calls': _calls_of(rng, c19, 0.5)})
    info['ext_scope'] = ('function level: whitespace_re on EVERY code point (surrogates excluded); pairwise on every increasing list of <= 4 of 6 positions; '
                         'rstrip on every string of <= 4 characters over {a, blank, tab, U+3000, U+001F}; find_break / iter_lines of the real wrap call by call on '
                         'every text of 0..3 words (lengths 1..4, gaps 1-2, 0-1 leading / trailing blank) for 5 (width, indent) pairs (%d traces); '
                         'every sequence of <= %d Interpreter.output / newline calls over 4 fixed calls' % (n_trace, 4 if tier == 'quick' else 5))
    return cases
