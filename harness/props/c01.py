"""C01 -- BibTeX (.bib) parsing is faithful and independent of surface syntax."""
import ast
import itertools

import compat  # noqa: F401
import bibgen
from props.base import to_request, corpus_for  # noqa: F401

ID = 'C01'
LEAN_MODULES = ['PybtexModel.Props.C01']
THEOREMS = {}
RULE = ('abstract documents (entries, @string, @preamble, @comment, junk; values = literal / macro pieces) rendered under layouts: '
        'small documents x every global layout combination {2 delimiters x 3 literal spellings x 4 case masks x 8 white-space kinds '
        'incl. CR/CRLF x trailing comma}; larger random documents with per-site random layout; non-trivial = document with an entry '
        'that has a field; distinct by (document, layout) JSON')
TRUSTED = ['the expected database of a generated document is computed by the harness (bibgen.denote); person splitting inside it uses '
           'the C04-verified Person() of the implementation', 'NAME characters: the regenerated NAME_CHARS table']
ASSUMPTIONS = ['identifiers and values contain no non-ASCII letters']


def canon_error(e):
    cls = type(e).__name__
    line = getattr(e, 'lineno', None)
    msg = e.args[0] if e.args else ''
    if cls == 'InvalidNameString':
        try:
            msg = ast.literal_eval(msg[len('Too many commas in '):])
        except Exception:
            pass
    from pybtex.exceptions import PybtexError
    if not isinstance(e, PybtexError):
        cls = 'INTERNAL:' + cls
        msg = ''
        line = None
    return [cls, line, msg]


def canon_db(db):
    entries = []
    for key, e in db.entries.items():
        persons = []
        for role, ps in e.persons.items():
            persons.append([role, [[p.first_names, p.middle_names, p.prelast_names, p.last_names, p.lineage_names] for p in ps]])
        entries.append({'key': key, 'type': e.type, 'orig_type': e.original_type, 'fields': [[k, v] for k, v in e.fields.items()],
                        'persons': persons})
    return entries, list(db.preamble_list)


def parse_capture(text, wanted=None):
    from pybtex import errors
    from pybtex.database import parse_string
    try:
        with errors.capture() as captured:
            db = parse_string(text, 'bibtex', wanted_entries=wanted)
        entries, preamble = canon_db(db)
        return {'entries': entries, 'preamble': preamble, 'errors': [canon_error(e) for e in captured], 'raised': None}
    except Exception as e:  # noqa
        return {'entries': None, 'preamble': None, 'errors': None, 'raised': canon_error(e)}


def person_split(value):
    from pybtex import errors
    from pybtex.bibtex.utils import split_name_list
    from pybtex.database import Person
    out = []
    with errors.capture():
        for n in split_name_list(value):
            p = Person(n)
            out.append([p.first_names, p.middle_names, p.prelast_names, p.last_names, p.lineage_names])
    return out


def text_of(case):
    if 'text' in case:
        return case['text']
    L = bibgen.Layout(case.get('choices', []))
    return bibgen.render(case['doc'], L, case.get('fixed'))


def impl(case):
    return parse_capture(text_of(case))


def to_request(case):  # noqa: F811
    return {'op': 'bibparse', 'text': text_of(case), 'strict': False, 'wanted': None}


def model_out(case, reply):
    return reply['out']


def oracle(case, io, reply):
    fails = []
    if io['raised'] is not None:
        return ['faithful: reading raised %r' % (io['raised'],)]
    if 'doc' not in case:
        return fails
    _text, written = bibgen.render_written(case['doc'], bibgen.Layout(case.get('choices', [])), case.get('fixed'))
    want = bibgen.denote(written, person_split)
    if io['errors']:
        fails.append('faithful: well-formed document reported %r; text=%r' % (io['errors'][:3], text_of(case)[:300]))
    if io['preamble'] != want['preamble']:
        fails.append('preamble: got %r, document denotes %r' % (io['preamble'], want['preamble']))
    got_e, want_e = io['entries'], want['entries']
    if [e['key'] for e in got_e] != [e['key'] for e in want_e]:
        fails.append('faithful: keys %r, document denotes %r; text=%r' % ([e['key'] for e in got_e], [e['key'] for e in want_e], text_of(case)[:300]))
    else:
        for g, w in zip(got_e, want_e):
            for part in ('type', 'orig_type', 'fields', 'persons'):
                if g[part] != w[part]:
                    fails.append('faithful: entry %r %s = %r, document denotes %r; text=%r' % (g['key'], part, g[part], w[part], text_of(case)[:300]))
                    break
    return fails


def buckets(case, io):
    b = []
    if 'fixed' in case and case['fixed']:
        f = case['fixed']
        b.append('paren' if f.get('paren') else 'brace')
        b.append('ws%s' % f.get('ws'))
    if io.get('errors'):
        b.append('errors')
    if io.get('entries'):
        b.append('entries=%d' % min(len(io['entries']), 4))
    return b or ['other']


def nontrivial(case, io):
    return bool(io.get('entries')) and any(e['fields'] or e['persons'] for e in io['entries'])


def corpus():
    return corpus_for(ID)


def valid_case(case):
    if 'doc' not in case:
        return True
    import re
    name = re.compile(r'^[A-Za-z@!$&*+\-./:;<>?\[\\\]^_`|~][A-Za-z0-9@!$&*+\-./:;<>?\[\\\]^_`|~]*$')
    for c in case['doc']:
        if c['k'] == 'entry':
            if not name.match(c['type']) or not c['key'] or re.search(r'[\s,]', c['key']) or c['type'].lower() in ('string', 'preamble', 'comment'):
                return False
            if '}' in c['key'] and not (case.get('fixed') or {}).get('paren'):
                return False
            for n, ps in c['fields']:
                if not name.match(n) or not ps:
                    return False
                for p in ps:
                    if 'lit' in p and not bibgen.balanced(p['lit']):
                        return False
        elif c['k'] == 'string':
            if not name.match(c['name']) or not c['value']:
                return False
        elif c['k'] == 'preamble' and not c['value']:
            return False
        elif c['k'] in ('junk', 'comment') and '@' in c['text']:
            return False
        elif c['k'] not in ('entry', 'string', 'preamble', 'junk', 'comment'):
            return False
    return True


SMALL_DOCS = [
    [{'k': 'entry', 'type': 'Article', 'key': 'Key1', 'fields': [['Title', [{'lit': 'A  {B} c'}]], ['year', [{'lit': '1993'}]]]}],
    [{'k': 'string', 'name': 'JV', 'value': [{'lit': 'Journal of '}, {'lit': 'V'}]},
     {'k': 'entry', 'type': 'misc', 'key': 'k', 'fields': [['journal', [{'macro': 'jv'}, {'lit': ' x'}]], ['month', [{'macro': 'jan'}]]]}],
    [{'k': 'preamble', 'value': [{'lit': '\\newcommand{\\x}{y} '}, {'macro': 'feb'}]},
     {'k': 'junk', 'text': 'free text, = { } " #\n'},
     {'k': 'entry', 'type': 'book', 'key': 'b:1', 'fields': [['author', [{'lit': 'Knuth, Donald E. and Leslie Lamport'}]], ['note', [{'lit': ''}]]]}],
    [{'k': 'comment', 'text': 'ignored text'},
     {'k': 'entry', 'type': 'MISC', 'key': 'a', 'fields': []},
     {'k': 'entry', 'type': 'misc', 'key': 'B', 'fields': [['EDITOR', [{'lit': '{Barnes and Noble}'}]], ['title', [{'lit': 'q {"} q'}]]]}],
]


def gen_cases(tier, rng, info):
    cases = []
    combos = 0
    ws_range = range(len(bibgen.WS_KINDS)) if tier == 'thorough' else (0, 1, 2, 3, 5)
    for doc in SMALL_DOCS:
        for paren, spelling, case_, ws, trailing in itertools.product((False, True), (0, 1, 2), (0, 1, 2, 3), ws_range, (False, True)):
            fixed = {'paren': paren, 'spelling': spelling, 'case': case_, 'ws': ws, 'trailing': trailing, 'keepcase': False}
            cases.append({'op': 'bibparse', 'doc': doc, 'fixed': fixed, 'choices': [case_]})
            combos += 1
    info['exhaustive'] = True
    info['scope'] = '%d hand-written small documents using every construct x every global layout combination = %d renderings' % (len(SMALL_DOCS), combos)
    n = 2500 if tier == 'quick' else 50000
    for i in range(n):
        doc = bibgen.gen_doc(rng)
        choices = [rng.randrange(64) for _ in range(40)]
        paren = rng.random() < 0.3
        if any(c['k'] == 'entry' and '}' in c['key'] for c in doc):
            paren = True
        if any(c['k'] == 'comment' for c in doc):
            pass
        cases.append({'op': 'bibparse', 'doc': doc, 'choices': choices, 'fixed': {'paren': paren}})
    return cases


LEVEL_TEXT = 'filled when the proofs are registered'
LEVEL_NOTE = ''
