"""C01 -- BibTeX (.bib) parsing is faithful and independent of surface syntax."""
import ast
import itertools

import compat  # noqa: F401
import bibgen
from props.base import to_request, corpus_for  # noqa: F401

ID = 'C01'
LEAN_MODULES = ['PybtexModel.Props.C01']
THEOREMS = {
    'C01_value_roundtrip': 'value spellings: a well-formed value rendered with any mix of braced / quoted / bare-number literals, any case mask on macro names and any white space around "#", followed by white space and a non-extending character, is read back by parse_value as its expanded pieces (macros looked up case-insensitively); exactly the rendering is consumed, nothing is reported',
    'C01_field_roundtrip': 'a rendered field "ws name ws = ws value ws" is read back as the name as written plus the expanded pieces',
    'C01_entry_roundtrip': 'a rendered entry (either delimiter pair, any layout of key, fields, trailing comma) is read back by parse_command as (type as written, key, fields as written with expanded pieces, in source order); exactly the rendering is consumed, nothing is reported',
    'C01_string_roundtrip': '@string: the macro table is updated under the written name with the expansion of the value and then agrees with the reference table on every lookup',
    'C01_preamble_roundtrip': '@preamble: the expanded pieces of the value are returned',
    'C01_comment_skipped': '@comment: skipped right behind the opening delimiter; its @-free text is passed over as junk',
    'C01_faithful': 'reading render(d, L) of a well-formed abstract document under any layout raises nothing, reports nothing and yields exactly the database the document denotes (entries with key, type, fields in source order with expanded, concatenated, white-space-normalised values, persons split per role, preamble list), identifiers spelled as written',
    'C01_faithful_nonvacuous': 'the hypotheses hold for a two-entry document using every construct (both delimiters, macro#literal#month, quoted / braced / bare literals, author field, @string, @preamble, @comment, junk, CR/LF/CRLF/TAB, case masks)',
    'C01_faithful_plain': 'without case masks on entry types and field names the result is exactly the denotation of the document itself',
    'C01_layout_independent': 'two well-formed layouts of one document give equal databases when they spell types and field names alike, and in general databases equal up to the stored spelling of types / field names / role names; each agrees in that sense with the denotation of the document',
    'C01_junk_independent': 'documents that differ only in junk text and @comment blocks give the same database',
    'C01_identifiers': 'keys, entry types and field / role names are stored with the spelling written (closed form of the result); macro lookup, duplicate-field and repeated-key detection are case-insensitive',
    'C01_months_predefined': 'jan ... dec (any case) expand to the regenerated month table without any @string',
}
RULE = ('abstract documents (entries, @string, @preamble, @comment, junk; values = literal / macro pieces) rendered under layouts: '
        'small documents x every global layout combination {2 delimiters x 3 literal spellings x 4 case masks x 8 white-space kinds '
        'incl. CR/CRLF x trailing comma}; larger random documents with per-site random layout; non-trivial = document with an entry '
        'that has a field; distinct by (document, layout) JSON')
TRUSTED = ['the expected database of a generated document is computed by the harness (bibgen.denote); person splitting inside it uses '
           'the C04-verified Person() of the implementation', 'NAME characters: the regenerated NAME_CHARS table']
ASSUMPTIONS = ['identifiers and values contain no non-ASCII letters']


def canon_error(e):
    cls = type(e).__name__
    line = getattr(e, 'lineno', None)
    msg = e.args[0] if e.args else ''
    if cls == 'InvalidNameString':
        try:
            msg = ast.literal_eval(msg[len('Too many commas in '):])
        except Exception:
            pass
    from pybtex.exceptions import PybtexError
    if not isinstance(e, PybtexError):
        cls = 'INTERNAL:' + cls
        msg = ''
        line = None
    return [cls, line, msg]


def canon_db(db):
    entries = []
    for key, e in db.entries.items():
        persons = []
        for role, ps in e.persons.items():
            persons.append([role, [[p.first_names, p.middle_names, p.prelast_names, p.last_names, p.lineage_names] for p in ps]])
        entries.append({'key': key, 'type': e.type, 'orig_type': e.original_type, 'fields': [[k, v] for k, v in e.fields.items()],
                        'persons': persons})
    return entries, list(db.preamble_list)


def parse_capture(text, wanted=None):
    from pybtex import errors
    from pybtex.database import parse_string
    try:
        with errors.capture() as captured:
            db = parse_string(text, 'bibtex', wanted_entries=wanted)
        entries, preamble = canon_db(db)
        return {'entries': entries, 'preamble': preamble, 'errors': [canon_error(e) for e in captured], 'raised': None}
    except Exception as e:  # noqa
        return {'entries': None, 'preamble': None, 'errors': None, 'raised': canon_error(e)}


def person_split(value):
    from pybtex import errors
    from pybtex.bibtex.utils import split_name_list
    from pybtex.database import Person
    out = []
    with errors.capture():
        for n in split_name_list(value):
            p = Person(n)
            out.append([p.first_names, p.middle_names, p.prelast_names, p.last_names, p.lineage_names])
    return out


def text_of(case):
    if 'text' in case:
        return case['text']
    L = bibgen.Layout(case.get('choices', []))
    return bibgen.render(case['doc'], L, case.get('fixed'))


def impl(case):
    return parse_capture(text_of(case))


def to_request(case):  # noqa: F811
    return {'op': 'bibparse', 'text': text_of(case), 'strict': False, 'wanted': None}


def model_out(case, reply):
    return reply['out']


def oracle(case, io, reply):
    fails = []
    if io['raised'] is not None:
        return ['faithful: reading raised %r' % (io['raised'],)]
    if 'doc' not in case:
        return fails
    _text, written = bibgen.render_written(case['doc'], bibgen.Layout(case.get('choices', [])), case.get('fixed'))
    want = bibgen.denote(written, person_split)
    if io['errors'] != want['errors']:
        fails.append('faithful/identifiers: reported %r, the document denotes the problems %r (repeated field names and keys are matched '
                     'case-insensitively, the first occurrence wins); text=%r' % (io['errors'][:4], want['errors'][:4], text_of(case)[:300]))
    if io['preamble'] != want['preamble']:
        fails.append('preamble: got %r, document denotes %r' % (io['preamble'], want['preamble']))
    got_e, want_e = io['entries'], want['entries']
    if [e['key'] for e in got_e] != [e['key'] for e in want_e]:
        fails.append('faithful: keys %r, document denotes %r; text=%r' % ([e['key'] for e in got_e], [e['key'] for e in want_e], text_of(case)[:300]))
    else:
        for g, w in zip(got_e, want_e):
            for part in ('type', 'orig_type', 'fields', 'persons'):
                if g[part] != w[part]:
                    fails.append('faithful: entry %r %s = %r, document denotes %r; text=%r' % (g['key'], part, g[part], w[part], text_of(case)[:300]))
                    break
    return fails


def buckets(case, io):
    b = []
    if 'fixed' in case and case['fixed']:
        f = case['fixed']
        b.append('paren' if f.get('paren') else 'brace')
        b.append('ws%s' % f.get('ws'))
    if io.get('errors'):
        b.append('errors')
    if io.get('entries'):
        b.append('entries=%d' % min(len(io['entries']), 4))
    return b or ['other']


def nontrivial(case, io):
    return bool(io.get('entries')) and any(e['fields'] or e['persons'] for e in io['entries'])


def corpus():
    return corpus_for(ID)


def valid_case(case):
    if 'doc' not in case:
        return True
    import re
    name = re.compile(r'^[A-Za-z@!$&*+\-./:;<>?\[\\\]^_`|~][A-Za-z0-9@!$&*+\-./:;<>?\[\\\]^_`|~]*$')
    for c in case['doc']:
        if c['k'] == 'entry':
            if not name.match(c['type']) or not c['key'] or re.search(r'[\s,]', c['key']) or c['type'].lower() in ('string', 'preamble', 'comment'):
                return False
            if '}' in c['key'] and not (case.get('fixed') or {}).get('paren'):
                return False
            for n, ps in c['fields']:
                if not name.match(n) or not ps:
                    return False
                for p in ps:
                    if 'lit' in p and not bibgen.balanced(p['lit']):
                        return False
        elif c['k'] == 'string':
            if not name.match(c['name']) or not c['value']:
                return False
        elif c['k'] == 'preamble' and not c['value']:
            return False
        elif c['k'] in ('junk', 'comment') and '@' in c['text']:
            return False
        elif c['k'] not in ('entry', 'string', 'preamble', 'junk', 'comment'):
            return False
    return True


SMALL_DOCS = [
    [{'k': 'entry', 'type': 'Article', 'key': 'Key1', 'fields': [['Title', [{'lit': 'A  {B} c'}]], ['year', [{'lit': '1993'}]]]}],
    [{'k': 'string', 'name': 'JV', 'value': [{'lit': 'Journal of '}, {'lit': 'V'}]},
     {'k': 'entry', 'type': 'misc', 'key': 'k', 'fields': [['journal', [{'macro': 'jv'}, {'lit': ' x'}]], ['month', [{'macro': 'jan'}]]]}],
    [{'k': 'preamble', 'value': [{'lit': '\\newcommand{\\x}{y} '}, {'macro': 'feb'}]},
     {'k': 'junk', 'text': 'free text, = { } " #\n'},
     {'k': 'entry', 'type': 'book', 'key': 'b:1', 'fields': [['author', [{'lit': 'Knuth, Donald E. and Leslie Lamport'}]], ['note', [{'lit': ''}]]]}],
    [{'k': 'comment', 'text': 'ignored text'},
     {'k': 'entry', 'type': 'MISC', 'key': 'a', 'fields': []},
     {'k': 'entry', 'type': 'misc', 'key': 'B', 'fields': [['EDITOR', [{'lit': '{Barnes and Noble}'}]], ['title', [{'lit': 'q {"} q'}]]]}],
]


def rngkey(a):
    return {'title': 'k1', 'Title': 'K1', 'TITLE': 'k2', 'tItLe': 'K1'}[a]


def gen_cases(tier, rng, info):
    cases = []
    combos = 0
    ws_range = range(len(bibgen.WS_KINDS)) if tier == 'thorough' else (0, 1, 2, 3, 5)
    for doc in SMALL_DOCS:
        for paren, spelling, case_, ws, trailing in itertools.product((False, True), (0, 1, 2), (0, 1, 2, 3), ws_range, (False, True)):
            fixed = {'paren': paren, 'spelling': spelling, 'case': case_, 'ws': ws, 'trailing': trailing, 'keepcase': False}
            cases.append({'op': 'bibparse', 'doc': doc, 'fixed': fixed, 'choices': [case_]})
            combos += 1
    ndup = 0
    spell = ['title', 'Title', 'TITLE', 'tItLe']
    for a in spell:
        for b in spell:
            for role in ('author', 'Author', 'AUTHOR'):
                doc = [{'k': 'entry', 'type': 'misc', 'key': 'K1', 'fields': [[a, [{'lit': 'first'}]], ['year', [{'lit': '1'}]], [b, [{'lit': 'second'}]],
                                                                            [role, [{'lit': 'One, A'}]], ['aUtHoR', [{'lit': 'Two, B'}]]]},
                       {'k': 'entry', 'type': 'misc', 'key': rngkey(a), 'fields': [['note', [{'lit': 'n'}]]]}]
                cases.append({'op': 'bibparse', 'doc': doc, 'fixed': {'paren': False, 'spelling': 0, 'case': 0, 'ws': 0, 'trailing': False, 'keepcase': True}, 'choices': [0]})
                ndup += 1
    info['exhaustive'] = True
    info['scope'] = '%d documents naming a field twice / a key twice in every pair of case spellings; ' % ndup + '%d hand-written small documents using every construct x every global layout combination = %d renderings' % (len(SMALL_DOCS), combos)
    n = 2500 if tier == 'quick' else 50000
    for i in range(n):
        doc = bibgen.gen_doc(rng, dups=(i % 4 == 3))
        choices = [rng.randrange(64) for _ in range(40)]
        paren = rng.random() < 0.3
        if any(c['k'] == 'entry' and '}' in c['key'] for c in doc):
            paren = True
        if any(c['k'] == 'comment' for c in doc):
            pass
        cases.append({'op': 'bibparse', 'doc': doc, 'choices': choices, 'fixed': {'paren': paren}})
    return cases


LEVEL_TEXT = ('Machine-checked printer/parser proof (Lean 4) about the executable model of pybtex/database/input/bibtex.py + scanner + '
              'normalize_whitespace + add_entry, for ALL abstract documents and ALL layouts satisfying the explicit decidable predicate WF: '
              'parse_string(render(d, L)) raises nothing, reports nothing and returns exactly denote(written(d, L)) (C01_faithful); hence the result '
              'is independent of delimiter pair, literal spelling (braced / quoted / bare number), "#" split points and white space, case of '
              'macro names and of the string/preamble/comment keywords, amount and kind of white space and line ends (any of the 29 code points, '
              'CR / LF / CRLF), trailing commas, junk text and @comment blocks; case masks on entry types and field names change only the stored '
              'spelling (C01_layout_independent, C01_junk_independent, C01_identifiers); month macros are predefined (C01_months_predefined). '
              'Staged lemmas (value, field, entry, @string, @preamble, @comment) are published as theorems of their own. The same documents and '
              'layouts are generated by the harness and the implementation is compared with the model and with the harness-side denotation.')
LEVEL_NOTE = ('Trusted: Lean kernel; axioms propext/Classical.choice/Quot.sound only; the hand-written model (Model/BibParse.lean) corresponds to the '
              'code as far as the differential check explores; Spec/Bib.lean (ADoc, Layout, render, denote, WF) is what a reader has to agree with; '
              'person splitting inside denote uses splitNameList / mkPerson (C12 / C04 models) and normalizeWs is shared with the model; WF excludes '
              'person names with more than two top-level commas (reported by the reader), undefined macros, empty values, duplicate field names / '
              'keys up to case (their case-insensitive detection is part of C01_identifiers), keys that the key pattern would not scan, literals '
              'with unbalanced braces or nesting > 100, and non-NAME identifiers (the regenerated NAME tables; ASCII case mapping). Line numbers '
              'are not part of the statements (no error is reported on well-formed input; see C10). wanted_entries = None.')
