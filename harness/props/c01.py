"""C01 -- BibTeX (.bib) parsing is faithful and independent of surface syntax."""
import ast
import itertools

import compat  # noqa: F401
import bibgen
from props.base import to_request, corpus_for  # noqa: F401
from props import c01_fn

ID = 'C01'
LEAN_MODULES = ['PybtexModel.Props.C01', 'PybtexModel.Props.C01x']
THEOREMS = {
    'C01_value_roundtrip': 'value spellings: a well-formed value rendered with any mix of braced / quoted / bare-number literals, any case mask on macro names and any white space around "#", followed by white space and a non-extending character, is read back by parse_value as its expanded pieces (macros looked up case-insensitively); exactly the rendering is consumed, nothing is reported',
    'C01_field_roundtrip': 'a rendered field "ws name ws = ws value ws" is read back as the name as written plus the expanded pieces',
    'C01_entry_roundtrip': 'a rendered entry (either delimiter pair, any layout of key, fields, trailing comma) is read back by parse_command as (type as written, key, fields as written with expanded pieces, in source order); exactly the rendering is consumed, nothing is reported',
    'C01_string_roundtrip': '@string: the macro table is updated under the written name with the expansion of the value and then agrees with the reference table on every lookup',
    'C01_preamble_roundtrip': '@preamble: the expanded pieces of the value are returned',
    'C01_comment_skipped': '@comment: skipped right behind the opening delimiter; its text is passed over as junk - ONLY for @-free text (atFree: an @ inside a comment or junk starts a command in pybtex, as in BibTeX)',
    'C01_faithful': 'reading render(d, L) of a well-formed abstract document under any layout raises nothing, reports nothing and yields exactly the database the document denotes (entries with key, type, fields in source order with expanded, concatenated, white-space-normalised values, persons split per role, preamble list), identifiers spelled as written; inside denote, normalisation and person splitting are the SHARED model functions normalizeWs / splitNameList / mkPerson, characterised separately (C01_normalize_spec, C01_split_names_spec, C04)',
    'C01_faithful_nonvacuous': 'the hypotheses hold for a two-entry document using every construct (both delimiters, macro#literal#month, quoted / braced / bare literals, author field, @string, @preamble, @comment, junk, CR/LF/CRLF/TAB, case masks)',
    'C01_faithful_plain': 'without case masks on entry types and field names the result is exactly the denotation of the document itself',
    'C01_layout_independent': 'two well-formed layouts of one document give equal databases when they spell types and field names alike, and in general databases equal up to the stored spelling of types / field names / role names; each agrees in that sense with the denotation of the document',
    'C01_junk_independent': 'documents that differ only in junk text and @comment blocks give the same database',
    'C01_identifiers': 'keys, entry types and field / role names are stored with the spelling written (closed form of the result); macro lookup is case-insensitive; document level: for every document that may repeat keys / field names the reports are exactly the case-insensitive duplicates and the entries are the first entry command of every key with the first field of every name (closed form)',
    'C01_faithful_dups': 'documents whose entries may repeat field names and whose keys may repeat (up to case), WFD = WF without the two no-repetition conditions: continue mode raises nothing, reports exactly the DuplicateField / repeated-entry reports in document order (duplicate fields of a dropped entry first) and yields the database in which the first entry of every key and the first field of every name win; strict mode: same result when there is nothing to report, otherwise the first report is raised',
    'C01_fieldless_comma_independent': 'the comma of a field-less entry (@a{k,} vs @a{k}) and any other trailing-comma choice does not change the database',
    'C01_split_point_independent': 'macro-plus-concatenation values: two well-formed renderings whose documents as written are DocEq give the same database, in either mode. DocEq is the SEMANTIC relation "values have the same expansion under every macro table" (so this is a short corollary of C01_faithful); that cutting a literal anywhere / inserting empty literals / changing the case of macro names gives DocEq is C01_split_point_rules (sufficient conditions, no iff)',
    'C01_split_point_rules': 'what DocEq holds of: a literal may be cut into "#"-pieces anywhere, an empty literal inserted or dropped, any cutting at once, macro names may differ in letter case; congruence for "#", equivalence relation; a macro name is NEVER exchangeable for a literal text. Sufficient conditions plus one necessary one - no complete syntactic characterisation (iff) of DocEq is proved',
    'C01_split_point_independent_dups': 'the same for documents that may repeat field names / keys: equal databases and equal reports',
    'C01_split_point_independent_ci': 'when the documents themselves are DocEq (any case masks) the databases agree up to the stored spelling of types / field names / role names',
    'C01_months_redefinable': '[spec-level law] a get/set law of the REFERENCE macro table (Spec functions expandPiece / stepMacros only, says nothing about the reader by itself): after @string{n = v} a macro k expands to the expansion of v if k equals n up to case (a month name included), else to what it did before. The reader enters through C01_faithful (denote threads stepMacros): C01_months_redefinable_reader',
    'C01_months_redefinable_reader': 'month macros predefined but not fixed, at the level of the READER: for every well-formed document and layout the entries returned are the entry commands each evaluated in the macro table in force where it stands, and behind pre ++ @string{n = v} that table has n (any letter case) set to the expansion of v and every other name unchanged (closed form of entriesWith + the table law)',
    'C01_key_folding': 'three ALGEBRAIC facts about the folding function keyFold (idempotent; coarser than the ASCII folding of the other identifiers; equal to it on ASCII keys) - not about the reader: that the reader compares keys through keyFold is C01_faithful_dups (stepDenotD), that keyFold is str.lower() rests on the regenerated table; keys with U+0130 / U+03A3 are excluded by ASSUMPTIONS only (keyOk does not exclude them: differential only)',
    'C01_normalize_spec': 'values white-space-normalised, characterised independently of the definition: normalizeWs is idempotent; the result has no leading / trailing white space, no two adjacent white-space characters, no white-space character but the blank; the non-white-space characters are kept in order; texts with these properties are fixed points; the result is the words of the text (split at the 29 code points, empty pieces dropped) joined by single blanks; equal normalisation iff equal words',
    'C01_wordsOf_spec': 'the reference notion wordsOf is determined by three equations (empty text, a text without white space, a white-space character separates) and produces exactly the non-empty white-space-free pieces',
    'C01_split_names_spec': 'author/editor lists split into persons, characterised: a braced group with balanced body is one name whatever it contains; a balanced text without level-0 separator match is one name; junction: such a text followed by any spelling of " and " (a/A n/N d/D) and any non-empty text b is split off in front of the names of b; hence a list a0 w1 a1 ... wn an splits into exactly the stripped ai',
    'C01_months_predefined': 'jan ... dec (any case) expand to the regenerated month table without any @string',
    # round 2 (Props/C01x.lean)
    'C01_literal_verbatim': 'braced / quoted values on ARBITRARY input (not only rendered documents): whenever parse_value_part, behind white space, finds an opening { resp. " and succeeds with v, the text behind the opening delimiter is v, then the closing } resp. ", then exactly the unread rest - nothing dropped, unescaped or normalised at this stage - and v is well nested (no } below level 0, level 0 at the end, never deeper than 100). Hypotheses: the shape of the unread text and success of parse_value_part; says nothing about when it fails',
    'C01_literal_iff': 'complete characterisation of braced / quoted values for EVERY unread text: behind white space and an opening { resp. ", parse_value_part succeeds with v leaving r unread IF AND ONLY IF the text behind the delimiter is v + closing delimiter + r and v passes the reference scan litScan of Spec/Bib.lean (braces matched, nesting <= 100, quoted spelling: no " at level 0) - the same predicate the well-formedness of C01_faithful uses; failure modes (which error) are not characterised',
    'C01_constants_tie': 'kernel-evaluated against Gen/BibConsts.lean (regenerated from /repo every run): the 13 pattern descriptions equal Pat.desc, a literal nested max_level deep is read and one level more is "too many nested braces" (both spellings), the first key-less entry gets the regenerated prefix + "1"',
    'C01_token_patterns': 'the regular expressions of LowLevelParser, for every text: KEY_PAREN / KEY_BRACE / NUMBER match exactly (iff) the longest non-empty prefix in their class ([^\\s,] / [^\\s,}] / [0-9], white space = the 29 code points), NAME matches exactly a NAME_CHARS character plus the longest run of NAME_CHARS + digits, a literal matches its character; the match is unique. About Pat.matchAt of the model; that the model classes are the ones of re is the differential op c01_token',
    'C01_keyless_off': '[model wiring] with keyless_entries=False the reader with options (Model/BibOpts.lean: parseBibK, the model behind op c01_bibopts) is the reader parseBib the round-trip theorems are about, for every macro table, role list, wanted-set and mode',
    'C01_keyless_numbering': 'key-less entries: process_entry(type, None, fields) is process_entry with the key unnamed-<counter> and the counter increased by one (first conjunct: unfolding [model wiring]); different counter values give different keys (decimal rendering is injective)',
    'C01_keyless_numbering_nonvacuous': 'kernel-evaluated: three key-less entries (brace / parenthesis delimiters, leading comma, empty body) are read as unnamed-1..3 without reports',
    'C01_person_fields_option': "[model wiring] person_fields=roles: the model's test is membership of lower(name) in the lower-cased roles (unfolding of isPersonFieldOf; tie to the code: op c01_bibopts); with person_fields=[] none is",
}
RULE = ('abstract documents (entries, @string, @preamble, @comment, junk; values = literal / macro pieces) rendered under layouts: '
        'every sequence of <= 2 commands of a pool and hand-written documents x every global layout combination {2 delimiters x 3 literal spellings x '
        'case masks x white-space kinds incl. CR/CRLF x trailing comma}; clause families (29 white-space code points in values, NAME_CHARS symbols / digits '
        'in identifiers, leading zeros, name separators in every case and built with "#", months redefined, field-less entries, Unicode key folding); '
        'larger random documents from rich pools with per-site random layout and per-command delimiter; non-trivial = document with an entry that has a '
        'field; distinct by (document, layout) JSON; round 2: function-level families (get_token / parse_value on every short string over the token '
        'alphabet, LowLevelParser alone, process_entry on command lists, normalize_whitespace, split_name_list) and parse_string with '
        'macros= / person_fields= / keyless_entries= / wanted_entries=, one reader on several texts (harness/props/c01_fn.py)')
TRUSTED = ['the expected database of a generated document is computed by the harness (bibgen.denote: expansion, white-space normalisation over '
           'the explicit 29-code-point table, first-occurrence-wins); the persons of a name-list value come from the Lean specification '
           'BibSpec.personsOf (splitNameList of C12, Person() of C04) evaluated by the driver - not from pybtex', 'NAME characters: the regenerated NAME_CHARS table',
           'the entry-point scan of importlib.metadata behind pybtex.plugin.find_plugin is memoised per process (c01.fast_plugin_lookup)',
           'function-level ops (c01_token, c01_value, c01_lowlevel, c01_process, c01_consts) drive private names of LowLevelParser / Parser; on a tree '
           'that does not expose them (static test c01_fn.private_api) they are dropped from the comparison, the public-API ops remain']
ASSUMPTIONS = ['entry keys are folded with str.lower() character by character (Model/UniCase.lean, table regenerated from the interpreter): keys contain '
               'neither U+0130 (its lower case is two characters) nor U+03A3 (final-sigma context rule); entry types, field names and macro names '
               'are NAMEs, i.e. ASCII', 'theorems: wanted_entries = None; the correspondence op c01_bibopts varies wanted_entries with non-ASCII keys '
               'kept in one spelling (the wanted-set of the model folds ASCII letters only: shared Model/CIMap.lean)',
               'key-less documents (keyless_entries=True), custom macro tables and role lists: model + correspondence + C01_keyless_* / '
               'C01_person_fields_option, no round-trip theorem']
UNICODE_KEY_FOLDING = True      # the model compares keys with the Unicode normaliser (Bib.keyFold = lowerU)


def canon_error(e):
    cls = type(e).__name__
    line = getattr(e, 'lineno', None)
    msg = e.args[0] if e.args else ''
    if cls == 'InvalidNameString':
        try:
            msg = ast.literal_eval(msg[len('Too many commas in '):])
        except Exception:
            pass
    from pybtex.exceptions import PybtexError
    if not isinstance(e, PybtexError):
        cls = 'INTERNAL:' + cls
        msg = ''
        line = None
    return [cls, line, msg]


def canon_db(db):
    entries = []
    for key, e in db.entries.items():
        persons = []
        for role, ps in e.persons.items():
            persons.append([role, [[p.first_names, p.middle_names, p.prelast_names, p.last_names, p.lineage_names] for p in ps]])
        entries.append({'key': key, 'type': e.type, 'orig_type': e.original_type, 'fields': [[k, v] for k, v in e.fields.items()],
                        'persons': persons})
    return entries, list(db.preamble_list)


def fast_plugin_lookup():
    """pybtex.database.parse_string looks its reader class up through importlib.metadata.entry_points() on EVERY call, which scans
    all installed distributions (7 ms; 95% of the cost of reading a short text).  The installed distributions do not change during a
    run: the lookup results are memoised per process (the name `entry_points` inside pybtex.plugin is wrapped; nothing under /repo
    is touched and parse_string itself is called unchanged)."""
    import pybtex.plugin as pl
    if getattr(pl.entry_points, '_verif_cached', False):
        return
    orig = pl.entry_points
    cache = {}

    def cached(**kw):
        k = tuple(sorted(kw.items()))
        if k not in cache:
            cache[k] = tuple(orig(**kw))
        return cache[k]
    cached._verif_cached = True
    pl.entry_points = cached


def parse_capture(text, wanted=None):
    from pybtex import errors
    from pybtex.database import parse_string
    fast_plugin_lookup()
    try:
        with errors.capture() as captured:
            db = parse_string(text, 'bibtex', wanted_entries=wanted)
        entries, preamble = canon_db(db)
        return {'entries': entries, 'preamble': preamble, 'errors': [canon_error(e) for e in captured], 'raised': None}
    except Exception as e:  # noqa
        return {'entries': None, 'preamble': None, 'errors': None, 'raised': canon_error(e)}


def person_values(case):
    """The (expanded, white-space-normalised) values of the person fields of the document as written: the strings whose
    split into persons the specification has to supply (sent to the driver with the case, reply key spec.persons)."""
    if 'doc' not in case:
        return []
    _text, written = bibgen.render_written(case['doc'], bibgen.Layout(case.get('choices', [])), case.get('fixed'))
    seen = []

    def collect(v):
        if v not in seen:
            seen.append(v)
        return []
    bibgen.denote(written, collect)
    return seen


def spec_person_split(reply):
    """person_split for bibgen.denote from the reference values of the Lean specification (BibSpec.personsOf = splitNameList of
    C12 + Person() of C04, evaluated by the driver) -- not from pybtex's own split_name_list / Person."""
    table = {v: ps for v, ps in (reply.get('spec') or {}).get('persons', [])}

    def split(value):
        return table[value]
    return split


def text_of(case):
    if 'text' in case:
        return case['text']
    L = bibgen.Layout(case.get('choices', []))
    return bibgen.render(case['doc'], L, case.get('fixed'))


def impl(case):
    if case.get('op') in c01_fn.OPS:
        return c01_fn.impl(case)
    return parse_capture(text_of(case))


def to_request(case):  # noqa: F811
    if case.get('op') in c01_fn.OPS:
        return c01_fn.to_request(case)
    return {'op': 'bibparse', 'text': text_of(case), 'strict': False, 'wanted': None, 'names': person_values(case)}


def model_out(case, reply):
    if case.get('op') in c01_fn.OPS:
        return c01_fn.model_out(case, reply)
    return reply['out']


def oracle(case, io, reply):
    if case.get('op') in c01_fn.OPS:
        return c01_fn.oracle(case, io, reply)
    fails = []
    if io['raised'] is not None:
        return ['faithful: reading raised %r' % (io['raised'],)]
    if 'doc' not in case:
        return fails
    _text, written = bibgen.render_written(case['doc'], bibgen.Layout(case.get('choices', [])), case.get('fixed'))
    want = bibgen.denote(written, spec_person_split(reply))
    if io['errors'] != want['errors']:
        fails.append('faithful/identifiers: reported %r, the document denotes the problems %r (repeated field names and keys are matched '
                     'case-insensitively, the first occurrence wins); text=%r' % (io['errors'][:4], want['errors'][:4], text_of(case)[:300]))
    if io['preamble'] != want['preamble']:
        fails.append('preamble: got %r, document denotes %r' % (io['preamble'], want['preamble']))
    got_e, want_e = io['entries'], want['entries']
    if [e['key'] for e in got_e] != [e['key'] for e in want_e]:
        fails.append('faithful: keys %r, document denotes %r; text=%r' % ([e['key'] for e in got_e], [e['key'] for e in want_e], text_of(case)[:300]))
    else:
        for g, w in zip(got_e, want_e):
            for part in ('type', 'orig_type', 'fields', 'persons'):
                if g[part] != w[part]:
                    fails.append('faithful: entry %r %s = %r, document denotes %r; text=%r' % (g['key'], part, g[part], w[part], text_of(case)[:300]))
                    break
    return fails


def reconcile(case, view, mo):
    if case.get('op') in c01_fn.OPS:
        return c01_fn.reconcile(case, view, mo)
    return view, mo


def buckets(case, io):
    if case.get('op') in c01_fn.OPS:
        return c01_fn.buckets(case, io)
    b = []
    if 'fixed' in case and case['fixed']:
        f = case['fixed']
        b.append('paren' if f.get('paren') else 'brace')
        b.append('ws%s' % f.get('ws'))
    if io.get('errors'):
        b.append('errors')
    if io.get('entries'):
        b.append('entries=%d' % min(len(io['entries']), 4))
    return b or ['other']


def nontrivial(case, io):
    if case.get('op') in c01_fn.OPS:
        return c01_fn.nontrivial(case, io)
    return bool(io.get('entries')) and any(e['fields'] or e['persons'] for e in io['entries'])


def corpus():
    return corpus_for(ID)


def valid_case(case):
    if case.get('op') in c01_fn.OPS and case['op'] != 'c01_bibopts':
        return True
    if 'doc' not in case:
        return True
    import re
    name = re.compile(r'^[A-Za-z@!$&*+\-./:;<>?\[\\\]^_`|~\x7f][A-Za-z0-9@!$&*+\-./:;<>?\[\\\]^_`|~\x7f]*$')
    for c in case['doc']:
        if c['k'] == 'entry':
            if not name.match(c['type']) or not c['key'] or re.search(r'[\s,]', c['key']) or c['type'].lower() in ('string', 'preamble', 'comment'):
                return False
            for n, ps in c['fields']:
                if not name.match(n) or not ps:
                    return False
                for p in ps:
                    if 'lit' in p and not bibgen.balanced(p['lit']):
                        return False
        elif c['k'] == 'string':
            if not name.match(c['name']) or not c['value']:
                return False
        elif c['k'] == 'preamble' and not c['value']:
            return False
        elif c['k'] in ('junk', 'comment') and '@' in c['text']:
            return False
        elif c['k'] not in ('entry', 'string', 'preamble', 'junk', 'comment'):
            return False
    return True


SMALL_DOCS = [
    [{'k': 'entry', 'type': 'Article', 'key': 'Key1', 'fields': [['Title', [{'lit': 'A  {B} c'}]], ['year', [{'lit': '1993'}]]]}],
    [{'k': 'string', 'name': 'JV', 'value': [{'lit': 'Journal of '}, {'lit': 'V'}]},
     {'k': 'entry', 'type': 'misc', 'key': 'k', 'fields': [['journal', [{'macro': 'jv'}, {'lit': ' x'}]], ['month', [{'macro': 'jan'}]]]}],
    [{'k': 'preamble', 'value': [{'lit': '\\newcommand{\\x}{y} '}, {'macro': 'feb'}]},
     {'k': 'junk', 'text': 'free text, = { } " #\n'},
     {'k': 'entry', 'type': 'book', 'key': 'b:1', 'fields': [['author', [{'lit': 'Knuth, Donald E. and Leslie Lamport'}]], ['note', [{'lit': ''}]]]}],
    [{'k': 'comment', 'text': 'ignored text'},
     {'k': 'entry', 'type': 'MISC', 'key': 'a', 'fields': []},
     {'k': 'entry', 'type': 'misc', 'key': 'B', 'fields': [['EDITOR', [{'lit': '{Barnes and Noble}'}]], ['title', [{'lit': 'q {"} q'}]]]}],
]


def rngkey(a):
    return {'title': 'k1', 'Title': 'K1', 'TITLE': 'k2', 'tItLe': 'K1'}[a]


def _entry(key, fields, type_='misc'):
    return {'k': 'entry', 'type': type_, 'key': key, 'fields': fields}


def _lit(s):
    return [{'lit': s}]


# pool of commands for the enumerated small abstract documents (all sequences of length <= 2)
SMALL_CMDS = [
    {'k': 'string', 'name': 'mm', 'value': [{'lit': 'M '}, {'macro': 'jan'}]},
    {'k': 'string', 'name': 'Jan', 'value': _lit('redefined')},
    {'k': 'preamble', 'value': [{'lit': 'p  q'}]},
    {'k': 'comment', 'text': 'c, = {'},
    {'k': 'junk', 'text': 'junk } " #\n'},
    _entry('K', []),
    _entry('k2', [['t', _lit('x  y')], ['month', [{'macro': 'JAN'}]]], 'Art1'),
    _entry('k3', [['author', [{'lit': 'A Bee'}, {'lit': ' AND '}, {'lit': 'Dee, C'}]], ['n', _lit('0012')]]),
]


def family_docs():
    """Deterministic documents aimed at one clause of the statement each (rendered under several global layouts)."""
    docs = []
    # white space: every one of the 29 code points and CRLF at the start, in the interior (single and doubled) and at the end of a
    # value, a preamble and a person field
    for w in bibgen.WS29 + ['\r\n']:
        docs.append([_entry('w', [['t', _lit(w + 'a' + w + w + 'b' + w)], ['u', _lit('x' + w + 'y')], ['v', [{'lit': 'p' + w}, {'lit': w + 'q'}]],
                                  ['author', _lit(w + 'One,' + w + 'A' + w + 'and' + w + 'Two' + w)]]),
                     {'k': 'preamble', 'value': _lit(w + 'pre' + w + w + 'amble' + w)}])
    # identifiers: every NAME_CHARS symbol and every digit inside an entry type, a field name, a macro name; every symbol in front
    for c in bibgen.NAME_SYMBOLS + '0123456789':
        cmds = [{'k': 'string', 'name': 'm' + c + 'x', 'value': _lit('V' + c)},
                _entry('k' + c, [['f' + c + '1', [{'macro': 'm' + c + 'x'}]], ['g' + c, _lit('1')]], 't' + c + 'y')]
        if not c.isdigit():
            cmds.append({'k': 'string', 'name': c + 'm', 'value': _lit('W')})
            cmds.append(_entry('K' + c + c, [[c + 'f', [{'macro': c + 'm'}]], [c, _lit('2')]], c + 'T'))
        docs.append(cmds)
    docs.append([_entry('url', [['url2', _lit('u')], ['stoc89', _lit('s')], ['Url2', _lit('dup')]], 'stoc89')])
    # bare numbers keep their digits
    for n in ('0012', '0', '007', '000', '10', '9' * 25, '00'):
        docs.append([_entry('n', [['year', _lit(n)], ['v', [{'lit': n}, {'lit': n}]]]), {'k': 'string', 'name': 'z', 'value': _lit(n)},
                     _entry('n2', [['y', [{'macro': 'z'}, {'lit': n}]]])])
    # name lists: the separator in every letter case, inside braces, built with '#' from macros
    seps = [' and ', ' AND ', ' And ', ' aNd ', ' anD ', ' ANd ', ' AnD ', ' aND ']
    for sp in seps:
        docs.append([{'k': 'string', 'name': 'pa', 'value': _lit('Knuth, Donald E.')}, {'k': 'string', 'name': 'pb', 'value': _lit('Leslie Lamport')},
                     _entry('p', [['author', _lit('A Bee' + sp + 'Dee, C' + sp + 'others')],
                                  ['editor', [{'macro': 'pa'}, {'lit': sp}, {'macro': 'PB'}, {'lit': sp + 'X{' + sp + '}Y'}]]]),
                     _entry('q', [['Editor', [{'macro': 'pa'}, {'lit': sp.rstrip()}, {'lit': ' '}, {'macro': 'pb'}]],
                                  ['AUTHOR', _lit('Sand' + sp.strip() + ' Andy' + sp + 'and' + sp + 'And')]])])
    # month macros: predefined, and redefined by @string (before and after a use, in any letter case)
    for m in sorted(bibgen.MONTHS):
        docs.append([_entry('m1', [['month', [{'macro': m}]], ['m2', [{'macro': m.upper()}, {'lit': '~'}, {'macro': m.capitalize()}]]]),
                     {'k': 'string', 'name': m.capitalize(), 'value': _lit('new ' + m)},
                     _entry('m3', [['month', [{'macro': m}]], ['m2', [{'macro': m.upper()}]]]),
                     {'k': 'string', 'name': m.upper(), 'value': [{'macro': m}, {'lit': '!'}]},
                     {'k': 'preamble', 'value': [{'macro': m}]}])
    # field-less entries (written with and without the comma), keys of every kind
    docs.append([_entry(k, []) for k in ('a', 'B', '0', 'k)', 'k(', 'x"y', 'k=v', 'k#', '\xc4rger', '\u674e')] + [_entry('last', [['t', _lit('v')]])])
    # keys are matched up to str.lower(), also outside ASCII: the second of two such entries is reported and dropped
    for k1, k2 in (('\xc4rger', '\xe4RGER'), ('\xe4', '\xc4'), ('\u01c5', '\u01c6'), ('\u01c4x', '\u01c5X'), ('\xdf', '\u1e9e'), ('\xdf', 'SS'), ('\xc9COLE', '\xe9cole'),
                   ('\u041a\u043b\u044e\u0447', '\u043a\u041b\u042e\u0447'), ('\u212a', 'k'), ('\u03c3', '\u03c2'), ('\uff21', '\uff41'), ('\U00010400', '\U00010428')):
        docs.append([_entry(k1, [['t', _lit('first')]]), _entry('mid', []), _entry(k2, [['t', _lit('second')], ['T', _lit('dup')]]),
                     _entry(k1.swapcase() if k1.swapcase().lower() == k1.lower() else k1, [['u', _lit('third')]])])
    return docs


FAMILY_LAYOUTS = [
    {'spelling': 0, 'case': 0, 'ws': 0, 'trailing': False}, {'spelling': 1, 'case': 1, 'ws': 2, 'trailing': True},
    {'spelling': 2, 'case': 3, 'ws': 6, 'trailing': False}, {'spelling': 1, 'case': 2, 'ws': 7, 'trailing': True},
]


def gen_cases(tier, rng, info):
    cases = []
    combos = 0
    ws_range = range(len(bibgen.WS_KINDS)) if tier == 'thorough' else (0, 1, 2, 3, 5)
    for doc in SMALL_DOCS:
        for paren, spelling, case_, ws, trailing in itertools.product((False, True), (0, 1, 2), (0, 1, 2, 3), ws_range, (False, True)):
            fixed = {'paren': paren, 'spelling': spelling, 'case': case_, 'ws': ws, 'trailing': trailing, 'keepcase': False}
            cases.append({'op': 'bibparse', 'doc': doc, 'fixed': fixed, 'choices': [case_]})
            combos += 1
    ndup = 0
    spell = ['title', 'Title', 'TITLE', 'tItLe']
    for a in spell:
        for b in spell:
            for role in ('author', 'Author', 'AUTHOR'):
                doc = [{'k': 'entry', 'type': 'misc', 'key': 'K1', 'fields': [[a, [{'lit': 'first'}]], ['year', [{'lit': '1'}]], [b, [{'lit': 'second'}]],
                                                                            [role, [{'lit': 'One, A'}]], ['aUtHoR', [{'lit': 'Two, B'}]]]},
                       {'k': 'entry', 'type': 'misc', 'key': rngkey(a), 'fields': [['note', [{'lit': 'n'}]]]}]
                cases.append({'op': 'bibparse', 'doc': doc, 'fixed': {'paren': False, 'spelling': 0, 'case': 0, 'ws': 0, 'trailing': False, 'keepcase': True}, 'choices': [0]})
                ndup += 1
    # every sequence of at most two commands of SMALL_CMDS (a macro used without its @string is left out) x global layouts
    nseq = nsmall = 0
    lay = list(itertools.product((False, True), (0, 1, 2), (0, 3), (0, 2, 6) if tier == 'quick' else range(len(bibgen.WS_KINDS)), (False, True)))
    for n in (1, 2):
        for seq in itertools.product(SMALL_CMDS, repeat=n):
            doc = [dict(c) for c in seq]
            if n == 2 and doc[0]['k'] == 'entry' and doc[1]['k'] == 'entry' and doc[0]['key'].lower() == doc[1]['key'].lower():
                doc[1] = dict(doc[1], key=doc[1]['key'].swapcase())     # the same entry twice: the second spelled in the other case
            nseq += 1
            for paren, spelling, case_, ws, trailing in lay:
                fixed = {'paren': paren, 'spelling': spelling, 'case': case_, 'ws': ws, 'trailing': trailing, 'keepcase': False}
                cases.append({'op': 'bibparse', 'doc': doc, 'fixed': fixed, 'choices': [case_]})
                nsmall += 1
    nfam = 0
    fams = family_docs()
    for doc in fams:
        for i, f in enumerate(FAMILY_LAYOUTS):
            # the delimiter pair alternates from command to command (choices drive `paren`), the rest is fixed
            cases.append({'op': 'bibparse', 'doc': doc, 'fixed': dict(f, keepcase=False), 'choices': [i, i + 1, 0, 1, 1, 0]})
            nfam += 1
    info['exhaustive'] = True
    info['scope'] = ('every sequence of <= 2 commands out of %d (entry with / without fields, person field, @string incl. a redefined month, @preamble, '
                     '@comment, junk) = %d abstract documents x %d global layouts = %d renderings; %d documents naming a field twice / a key twice '
                     'in every pair of case spellings; %d hand-written documents x every global layout combination = %d renderings; %d clause '
                     'families (each of the 29 white-space code points + CRLF at start / interior / end of values, every NAME_CHARS symbol and digit '
                     'in identifiers, numbers with leading zeros, the name separator in all 8 letter cases and built with "#", every month predefined / '
                     'redefined, field-less entries, keys equal up to Unicode case) x %d layouts = %d renderings'
                     % (len(SMALL_CMDS), nseq, len(lay), nsmall, ndup, len(SMALL_DOCS), combos, len(fams), len(FAMILY_LAYOUTS), nfam))
    n = 2500 if tier == 'quick' else 120000
    for i in range(n):
        doc = bibgen.gen_doc(rng, dups=(i % 4 == 3), rich=(i % 5 != 0), fold_unicode_keys=UNICODE_KEY_FOLDING)
        choices = [rng.randrange(64) for _ in range(40)]
        # the delimiter pair is chosen per command by the layout (one document in five keeps one pair throughout)
        fixed = {'paren': rng.random() < 0.3} if i % 5 == 1 else {}
        cases.append({'op': 'bibparse', 'doc': doc, 'choices': choices, 'fixed': fixed})
    cases.extend(c01_fn.gen_cases(tier, rng, info))
    info['scope'] += '; ' + info.pop('scope_fn')
    return cases


LEVEL_TEXT = ('Machine-checked printer/parser proof (Lean 4) about the executable model of pybtex/database/input/bibtex.py + scanner + '
              'normalize_whitespace + add_entry, for ALL abstract documents and ALL layouts satisfying the explicit decidable predicate WFD (WF = WFD + no '
              'repeated key / field name): parse_string(render(d, L)) raises nothing, reports exactly the duplicate-field / repeated-entry problems of the '
              'document in order and returns exactly denoteD(written(d, L)), first occurrence wins (C01_faithful_dups; C01_faithful for WF: nothing reported); '
              'hence the result is independent of delimiter pair (per command), literal spelling (braced / quoted / bare number), "#" split points and white '
              'space, case of macro names and of the string/preamble/comment keywords, amount and kind of white space and line ends (any of the 29 code '
              'points, CR / LF / CRLF), trailing commas incl. the field-less forms @a{k,} / @a{k}, junk text and @comment blocks; case masks on entry types and '
              'field names change only the stored spelling (C01_layout_independent, C01_junk_independent, C01_fieldless_comma_independent, C01_identifiers); '
              'keys are folded with str.lower(), the Unicode mapping (C01_key_folding); month macros are predefined (C01_months_predefined). "Values '
              'white-space-normalised" and "name lists split into persons" are characterised without reference to the definitions (C01_normalize_spec, '
              'C01_wordsOf_spec, C01_split_names_spec). Staged lemmas (value, field, entry, @string, @preamble, @comment) are published as theorems of their '
              'own. Round 2: braced / quoted literals are characterised for EVERY input text (C01_literal_iff: accepted iff the reference scan accepts, returned '
              'verbatim), the token regular expressions as longest class runs (C01_token_patterns), the options of Parser(...) are inside the model '
              '(C01_keyless_off: with the default the same reader), hand-written constants are proved equal to regenerated ones (C01_constants_tie), and every '
              'intermediate function of the reader has a function-level correspondence op. The same documents and layouts are generated by the harness and the implementation is compared with the model and with the harness-side '
              'denotation (persons from the Lean specification).')
LEVEL_NOTE = ('Trusted: Lean kernel; axioms propext/Classical.choice/Quot.sound only; the hand-written model (Model/BibParse.lean) corresponds to the '
              'code as far as the differential check explores; Spec/Bib.lean (ADoc, Layout, render, denote / denoteD, reports, WF / WFD) is what a reader has '
              'to agree with; person splitting inside denote uses splitNameList / mkPerson (C12 / C04 models; splitNameList characterised by '
              'C01_split_names_spec) and normalizeWs is shared with the model (characterised by C01_normalize_spec); WFD excludes person names with more than '
              'two top-level commas (reported by the reader), undefined macros, empty values, keys that the key pattern would not scan (a field-less entry in '
              'parentheses without comma needs white space behind the key: @a(k) reads the key "k)"), literals with unbalanced braces or nesting > 100, and '
              'non-NAME identifiers (the regenerated NAME tables; ASCII case mapping for NAMEs, str.lower() table for keys, without U+0130 / U+03A3 - the latter by '
              'ASSUMPTIONS and generators only, no predicate of WF excludes them), and junk / @comment text containing an @ (atFree: an @ starts a command in pybtex as '
              'in BibTeX, so the restriction is intrinsic). C01_months_redefinable and C01_key_folding are laws of Spec functions (the reader enters through '
              'C01_faithful / C01_faithful_dups and C01_months_redefinable_reader); the split-point theorems take the semantic relation DocEq as hypothesis (sufficient '
              'syntactic conditions: C01_split_point_rules). Line '
              'numbers are not part of the statements (see C10). wanted_entries = None. In strict mode with something to report only the raised error is '
              'characterised (the first report), not the state at that moment.')
