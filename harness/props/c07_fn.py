"""C07, function-level correspondence: the functions the Python engine is made of, one driver op each, so that a
disagreement is localised (the end-to-end op `pystyle` compares whole bibliographies).

op              real function (/repo)                                              Lean (lean/PybtexModel)
styletemplate   unsrt.Style().get_<type>_template(entry) (+ plain / alpha / unsrtalpha) Model/UnsrtStyle.lean getTemplate
                BaseStyle.format_entry on an undefined type                        Unsrt.noTemplateMessage
namestyle       names.plain / names.lastfirst NameStyle().format(person, abbr)     Model/NameStyle.lean formatName (+ eval)
sortkey         sorting.author_year_title SortingStyle().sorting_key(entry)        Model/Template.lean sortingKey
pylabels        labels.alpha LabelStyle().format_label / format_labels,            formatLabel / alphaLabels / numberLabels
                labels.number LabelStyle().format_labels
richfn          Text.from_latex, BaseText.abbreviate / add_period / lower / capitalize, unsrt.dashify,
                textutils.abbreviate, textutils.tie_or_space, labels.alpha._strip_nonalnum
                                                                                   fromLatex, abbreviate, addPeriodT, applyFn,
                                                                                   abbreviateStr, tieOrSpace, stripNonalnum
tmpleval        Node.format_data(context) for small trees of every node kind       Model/Template.lean eval
"""
import compat  # noqa: F401
from props import c01, c08

FN_OPS = ('styletemplate', 'namestyle', 'sortkey', 'pylabels', 'richfn', 'tmpleval')


def _c07():
    from props import c07
    return c07


def _parse(entries):
    c07 = _c07()
    return c07.parse_db({'entries': entries})


def _canon_entries(entries):
    return c01.canon_db(_parse(entries))[0]


def _decode_table(values):
    c07 = _c07()
    dec = {}
    for v in values:
        d = c07.decode(v)
        if d != v:
            dec[v] = d
    return sorted(dec.items())


def _person_words(canon_entries):
    return [w for e in canon_entries for _r, ps in e['persons'] for p in ps for part in p for w in part]


def _pyerr(e):
    return [type(e).__name__, e.args[0] if e.args and isinstance(e.args[0], str) else '']


# ------------------------------------------------------------------------------------------------
# building a real Node tree from the wire format (inverse of c07.tmpl), for `tmpleval`

def _unrt(r):
    if isinstance(r, str):
        return r
    return c08.build(r)


def build(t):
    from pybtex.style import template as T
    from pybtex.style.formatting import unsrt
    from pybtex.style.names import name_part
    k = t['t']
    kids = [build(c) for c in t.get('c', [])]
    if k == 'lit':
        return _unrt(t['r'])
    if k == 'join':
        return T.join(sep=_unrt(t['sep']), sep2=_unrt(t['sep2']), last_sep=_unrt(t['last']))[kids]
    if k == 'together':
        return T.together(last_tie=t['last_tie'])[kids]
    if k == 'sentence':
        return T.sentence(capfirst=t['capfirst'], capitalize=t['capitalize'], add_period=t['add_period'], sep=_unrt(t['sep']))[kids]
    if k == 'field':
        fn = {'none': None, 'dashify': unsrt.dashify, 'lower': lambda x: x.lower(), 'capitalize': lambda x: x.capitalize()}[t['fn']]
        return T.field(t['name'], apply_func=fn, raw=t['raw'])
    if k == 'names':
        return T.names(t['role'], sep=_unrt(t['sep']), sep2=_unrt(t['sep2']), last_sep=_unrt(t['last']))
    if k == 'optional':
        return T.optional[kids]
    if k == 'first_of':
        return T.first_of[kids]
    if k == 'tag':
        return T.tag(t['name'])[kids]
    if k == 'href':
        return T.href(build(t['url']), external=t['external'])[kids]
    if k == 'name_part':
        return name_part(before=_unrt(t['before']), tie=t['tie'], abbr=t['abbr'])[kids]
    raise ValueError(k)


# ------------------------------------------------------------------------------------------------
# impl

def impl(case):
    from pybtex import errors
    from pybtex.exceptions import PybtexError
    try:
        with errors.capture():
            return {'fn': _impl(case)}
    except PybtexError as e:
        return {'fn': {'error': _pyerr(e)}}
    except Exception as e:  # noqa
        return {'error': ['INTERNAL'], 'detail': '%s: %s' % (type(e).__name__, e), 'fn': {'error': ['INTERNAL']}}


def _impl(case):
    c07 = _c07()
    from pybtex.plugin import find_plugin
    op = case['op']
    if op == 'styletemplate':
        db = _parse([case['entry']])
        (e,) = db.entries.values()
        trees = []
        for st in c07.STYLES:
            style = find_plugin('pybtex.style.formatting', st)()
            get = getattr(style, 'get_%s_template' % e.type, None)
            if get is None:
                try:
                    style.format_entry('1', e)
                    trees.append({'template': None})
                except PybtexErrorT() as exc:
                    trees.append({'template': None, 'error': _pyerr(exc)})
            else:
                trees.append({'template': c07.tmpl(get(e))})
        if any(t != trees[0] for t in trees[1:]):
            return {'differs_between_styles': trees}
        return trees[0]
    if op == 'namestyle':
        from pybtex.database import Person
        p = Person(case['name'])
        t = find_plugin('pybtex.style.names', case['style'])().format(p, case['abbr'])
        return {'template': c07.tmpl(t), 'text': c08.dump(t.format())}
    if op == 'sortkey':
        (e,) = _parse([case['entry']]).entries.values()
        return {'key': list(find_plugin('pybtex.style.sorting', 'author_year_title')().sorting_key(e))}
    if op == 'pylabels':
        es = list(_parse(case['entries']).entries.values())
        alpha = find_plugin('pybtex.style.labels', 'alpha')()
        return {'base': [alpha.format_label(e) for e in es], 'alpha': list(alpha.format_labels(es)),
                'number': list(find_plugin('pybtex.style.labels', 'number')().format_labels(es))}
    if op == 'richfn':
        from pybtex.richtext import Text
        from pybtex import textutils
        fn, v = case['fn'], case['value']
        if fn == 'str_abbreviate':
            return {'str': textutils.abbreviate(v)}
        if fn == 'strip_nonalnum':
            from pybtex.style.labels.alpha import _strip_nonalnum
            return {'str': _strip_nonalnum([v])}
        if fn == 'tie_or_space':
            return {'text': textutils.tie_or_space(v, '~', ' ', other_word=case.get('other'))}
        t = Text.from_latex(v)
        if fn == 'abbreviate':
            t = t.abbreviate()
        elif fn == 'dashify':
            from pybtex.style.formatting.unsrt import dashify
            t = dashify(t)
        elif fn == 'lower':
            t = t.lower()
        elif fn == 'capitalize':
            t = t.capitalize()
        elif fn == 'add_period':
            t = t.add_period()
        elif fn != 'from_latex':
            raise ValueError(fn)
        return {'text': c08.dump(t)}
    if op == 'tmpleval':
        db = _parse(case['entries'])
        e = db.entries[case['key']]
        style = c07.make_style({'style': 'unsrt', 'min_crossrefs': 2, 'name_style': case.get('name_style'),
                                'abbreviate_names': case.get('abbreviate_names', False)})
        from pybtex.style.template import FieldIsMissing
        try:
            r = build(case['template']).format_data({'entry': e, 'style': style, 'bib_data': db})
        except FieldIsMissing as exc:
            return {'error': c07._error_of(exc)}
        return {'text': r if isinstance(r, str) else c08.dump(r)}
    raise ValueError(op)


def PybtexErrorT():
    from pybtex.exceptions import PybtexError
    return PybtexError


# ------------------------------------------------------------------------------------------------
# requests / model side

def to_request(case):
    c07 = _c07()
    op = case['op']
    if op in ('styletemplate', 'sortkey'):
        return {'op': op, 'entry': _canon_entries([case['entry']])[0]}
    if op == 'namestyle':
        from pybtex import errors
        from pybtex.database import Person
        with errors.capture():
            p = Person(case['name'])
        parts = [p.first_names, p.middle_names, p.prelast_names, p.last_names, p.lineage_names]
        return {'op': op, 'style': case['style'], 'abbr': case['abbr'], 'person': parts,
                'decode': _decode_table([w for part in parts for w in part])}
    if op == 'pylabels':
        return {'op': op, 'entries': _canon_entries(case['entries'])}
    if op == 'richfn':
        r = {'op': op, 'fn': case['fn'], 'value': case['value'], 'decode': _decode_table([case['value']])}
        if case.get('other') is not None:
            r['other'] = case['other']
        return r
    if op == 'tmpleval':
        from pybtex.plugin import find_plugin
        db = _parse(case['entries'])
        entries = c01.canon_db(db)[0]
        ns = find_plugin('pybtex.style.names', case.get('name_style') or 'plain')()
        e = db.entries[case['key']]
        pts = [[role, [c07.tmpl(ns.format(p, case.get('abbreviate_names', False))) for p in ps]] for role, ps in e.persons.items()]
        return {'op': op, 'entries': entries, 'key': e.key, 'template': case['template'], 'person_templates': pts,
                'decode': _decode_table([v for x in entries for _k, v in x['fields']])}
    raise ValueError(op)


def model_out(case, reply):
    o = dict(reply['out'])
    if 'error' in o:
        e = o['error']
        if e[0] == 'PybtexSyntaxError':          # Text.from_latex: the message is fixed, the model has the error kind
            o['error'] = ['PybtexSyntaxError', 'unbalanced braces']
        elif case['op'] == 'tmpleval' and e[0] != 'FieldIsMissing':
            o['error'] = [e[0]]
    return {'fn': o}


# ------------------------------------------------------------------------------------------------
# oracle: the clauses of the property that can be read off one function

def oracle(case, io, reply):
    c07 = _c07()
    if 'error' in io and io['error'][0] == 'INTERNAL':
        return ['no_internal: %s' % io.get('detail')]
    io = io['fn']
    fails = []
    op = case['op']
    spec = reply.get('spec') or {}
    if op in ('styletemplate', 'namestyle') and io.get('template') is not None:
        # the theorems C07_shipped_* / C07_name_style_* are about the templates the MODEL builds: they say something about the
        # code only while those are the templates the code builds
        mine = (reply.get('out') or {}).get('template')
        if mine != io['template']:
            fails.append('shipped_template: %s builds a template that differs from the modelled one at %s' % (
                'get_%s_template' % case['entry']['type'] if op == 'styletemplate' else 'the name style %s' % case['style'],
                _first_diff(io['template'], mine)))
    if op == 'styletemplate' and io.get('template') is not None:
        e = case['entry']
        # terminated: the monitored condition under which C07_terminated applies holds of the shipped template (recorded expectation)
        has_editor = any(n.lower() == 'editor' for n, _v in e['fields'])
        want = e['type'] in c07.ENDS_ALWAYS or (e['type'] in c07.ENDS_WITH_EDITOR and has_editor)
        if want and not spec.get('ends_in_sentence'):
            fails.append('terminated: the template of entry type %s no longer ends in a sentence (C07_terminated does not apply)' % e['type'])
        # missing_required: the lookups outside every optional, as the documented meaning of the template language gives them
        req = sorted(set((k, n.lower()) for k, n in _required(io['template'])))
        got = sorted(set((k, n.lower()) for k, n in (spec.get('required') or [])))
        if req != got:
            fails.append('missing_required: the required lookups of the %s template are %r, the model says %r' % (e['type'], req, got))
    if op == 'pylabels' and 'number' in io:
        n = len(io['number'])
        if io['number'] != [str(i + 1) for i in range(n)]:
            fails.append('labels: number labels are %r' % (io['number'],))
        for b, l in zip(io['base'], io['alpha']):
            if not (l == b or (len(l) == len(b) + 1 and l.startswith(b) and 'a' <= l[-1] <= 'z')):
                fails.append('labels: alpha label %r is not the base label %r plus at most one suffix letter' % (l, b))
                break
    if op == 'sortkey' and 'key' in io:
        want = list(c07._sort_key(to_request(case)['entry']))
        if io['key'] != want:
            fails.append('order: sorting_key gives %r, (author/editor, year, title) of the entry is %r' % (io['key'], want))
    if op == 'namestyle' and 'text' in io:
        req = to_request(case)
        plain = ''.join(a[1] if a[0] == 'c' else ('\xa0' if a[1] == 'nbsp' else '<%s>' % a[1]) for a in c07._atoms(io['text']))
        cfg = {'names': case['style'], 'abbr': case['abbr']}
        want = c07._norm(c07._person_text(req['person'], cfg))
        if want not in c07._norm(plain):
            fails.append('name_style: %r reads %r in the name style %s (abbreviate_names=%r), the style prints %r' % (
                case['name'], c07._person_text(req['person'], cfg), case['style'], case['abbr'], plain))
    return fails


def _first_diff(a, b, path='template'):
    """where two serialised templates differ: path, live value, model value"""
    if type(a) is not type(b):
        return '%s: live %r, model %r' % (path, a, b)
    if isinstance(a, dict):
        for k in sorted(set(a) | set(b)):
            if a.get(k) != b.get(k):
                if k in a and k in b:
                    return _first_diff(a[k], b[k], '%s.%s' % (path, k))
                return '%s.%s: live %r, model %r' % (path, k, a.get(k), b.get(k))
    if isinstance(a, list):
        for i, (x, y) in enumerate(zip(a, b)):
            if x != y:
                return _first_diff(x, y, '%s[%d]' % (path, i))
        if len(a) != len(b):
            return '%s: live has %d children, model %d' % (path, len(a), len(b))
    return '%s: live %r, model %r' % (path, a, b)


def _required(t):
    """field / names nodes outside every optional (harness-side reading of the serialised live template)"""
    k = t['t']
    if k == 'field':
        return [('field', t['name'])]
    if k == 'names':
        return [('names', t['role'])]
    if k == 'optional':
        return []
    out = []
    for c in t.get('c', []):
        out += _required(c)
    if k == 'href':
        out += _required(t['url'])
    return out


def buckets(case, io):
    b = ['fn:' + case['op']]
    if case['op'] == 'richfn':
        b.append('richfn:' + case['fn'])
    if case['op'] == 'styletemplate':
        b.append('template:' + case['entry']['type'])
    if 'error' in io.get('fn', {}):
        b.append('error:' + io['fn']['error'][0])
    return b


# ------------------------------------------------------------------------------------------------
# generators

RICH_VALUES = ['', 'a', 'Jean-Paul', 'Jean Paul', '{Jean Paul} Marat', 'J.-P. S', 'Éric', 'x2 y', '{\\"o}', 'a{b', 'a}b', '{a}{b}', '{{a}}',
               '1--10', '3---9', '7{-}9', '-', '--', 'a-', '-a', 'A-1----A-5', 'x-{y}-z', 'UPPER lower', 'ends.', 'what?', 'wow!', 'x{.}',
               'the {TeX}book', 'naïve sets', 'K{\\"o}ln~University', 'a\tb', 'a b', 'a - b', '12', 'Ångström', 'ß', 'Łódź', 'ab', 'abc', 'Dž',
               'ǆemal', 'ŉ', 'İ', 'ǅ x']
STRIP_VALUES = ['ÅA. B. Testing 12+}[.@~_', ' 3%', 'Ångström', 'ß', 'Łódź', 'éa', 'Ñandú', 'Ørsted', 'x́y', '①', 'ﬁ', 'Иван', 'ǅ', '½', 'a_b', '']


def _ascii_case_only(v):
    """str.lower / str.upper change ASCII letters only in the part of the decoded value that is outside braces"""
    d, depth = _c07().decode(v), 0
    for ch in d:
        if ch == '{':
            depth += 1
        elif ch == '}':
            depth -= 1
        elif depth == 0 and ord(ch) > 127 and (ch.lower() != ch or ch.upper() != ch):
            return False
    return True


def gen_template(rng, depth, fields, roles):
    """a random small template over literal words, the given fields and roles: every node kind"""
    lits = ['a', 'Word', 'x y', '', 'end.', 'Q?', {'k': 'text', 'p': []}, {'k': 'tag', 'n': 'em', 'p': ['It']}, {'y': 'nbsp'}, 'chapter', '8', '666']
    if depth <= 0 or rng.random() < 0.25:
        r = rng.random()
        if r < 0.45:
            return {'t': 'lit', 'r': rng.choice(lits)}
        if r < 0.85:
            raw = rng.random() < 0.15      # a raw field is a plain str: the shipped styles never give it an apply_func
            return {'t': 'field', 'name': rng.choice(fields), 'fn': 'none' if raw else rng.choice(['none', 'none', 'dashify', 'lower', 'capitalize']), 'raw': raw}
        sep = rng.choice([', ', ' ', ''])
        return {'t': 'names', 'role': rng.choice(roles), 'sep': sep, 'sep2': rng.choice([sep, ' and ']), 'last': rng.choice([sep, ', and '])}
    kids = [gen_template(rng, depth - 1, fields, roles) for _ in range(rng.choice([0, 1, 2, 2, 3, 4]))]
    k = rng.choice(['join', 'join', 'together', 'sentence', 'sentence', 'optional', 'optional', 'first_of', 'tag', 'href', 'name_part'])
    if k == 'join':
        sep = rng.choice(['', ' ', ', ', {'y': 'newblock'}])
        return {'t': 'join', 'sep': sep, 'sep2': rng.choice([sep, ' and ']), 'last': rng.choice([sep, ', and ']), 'c': kids}
    if k == 'together':
        return {'t': 'together', 'last_tie': rng.random() < 0.5, 'c': kids}
    if k == 'sentence':
        return {'t': 'sentence', 'capfirst': rng.random() < 0.4, 'capitalize': rng.random() < 0.3, 'add_period': rng.random() < 0.7,
                'sep': rng.choice([', ', ' ', '; ']), 'c': kids}
    if k == 'tag':
        return {'t': 'tag', 'name': rng.choice(['em', 'strong', 'b']), 'c': kids}
    if k == 'href':
        return {'t': 'href', 'url': gen_template(rng, 0, fields, roles) if rng.random() < 0.7 else {'t': 'lit', 'r': 'http://x.y/'},
                'external': rng.random() < 0.3, 'c': kids}
    if k == 'name_part':
        return {'t': 'name_part', 'before': rng.choice(['', ', ']), 'tie': rng.random() < 0.5, 'abbr': rng.random() < 0.5,
                'c': [{'t': 'lit', 'r': {'k': 'text', 'p': [w]}} for w in rng.sample(['Jean-Paul', 'de', 'la', 'X', 'Zoë', 'Knuth'], rng.randint(0, 3))]}
    return {'t': k, 'c': kids}


def gen_cases(tier, rng):
    c07 = _c07()
    quick = tier == 'quick'
    cases = []
    # styletemplate: every type (and two the styles do not define) x with / without editor x one / several editors, and random entries
    for t in c07.TYPES + c07.UNKNOWN_TYPES:
        for ed in (None, 'Ed Itor', 'Ed Itor and Co Editor', 'A and B and C'):
            fs = [['title', 'T'], ['author', 'A B']] + ([['editor', ed]] if ed else [])
            cases.append({'op': 'styletemplate', 'entry': {'type': t, 'key': 'k', 'fields': fs}})
        cases.append({'op': 'styletemplate', 'entry': {'type': t, 'key': 'k', 'fields': [['EDITOR', 'Upper Case']]}})
        cases.append({'op': 'styletemplate', 'entry': {'type': t.upper(), 'key': 'Key', 'fields': []}})
    for _ in range(60 if quick else 600):
        e = c07.gen_entry(rng, 'k0', [], False)
        if rng.random() < 0.1:
            e['type'] = rng.choice(c07.UNKNOWN_TYPES)
        cases.append({'op': 'styletemplate', 'entry': e})
        cases.append({'op': 'sortkey', 'entry': e})
    # namestyle: every person of the pool x style x abbr
    for name in c07.PERSONS + ['{A}. {B}. Cee', 'A.-B. Cee', 'jean de la fontaine', 'Last, First Middle', 'von Last, Jr, First', 'X Y', 'Jean-Paul {S}artre']:
        for st in ('plain', 'lastfirst'):
            for ab in (False, True):
                cases.append({'op': 'namestyle', 'name': name, 'style': st, 'abbr': ab})
    # sort keys: book / inbook with author / editor / neither, others with and without author; no year, no title
    for t in ('book', 'inbook', 'article', 'misc', 'proceedings'):
        for who in ((), ('author',), ('editor',), ('author', 'editor')):
            for extra in ([], [['year', '2001']], [['title', 'Tée']], [['year', '1999'], ['title', 'The {T}itle']]):
                fs = [[r, rng.choice(c07.PERSONS) + (' and ' + rng.choice(c07.PERSONS) if rng.random() < 0.5 else '')] for r in who] + extra
                cases.append({'op': 'sortkey', 'entry': {'type': t, 'key': 'k', 'fields': fs}})
    # labels: lists of entries with colliding base labels, every branch of format_label (type x author / editor / key / organization)
    for t in ('book', 'inbook', 'proceedings', 'manual', 'misc', 'article'):
        for who in ((), ('author',), ('editor',), ('author', 'editor')):
            for extra in ([], [['key', 'Knu']], [['organization', 'The Org of X']], [['organization', 'Org'], ['key', 'K']], [['year', '1984']], [['year', '7']]):
                fs = [[r, 'Donald E. Knuth'] for r in who] + extra
                cases.append({'op': 'pylabels', 'entries': [{'type': t, 'key': 'somekey', 'fields': fs}]})
    for _ in range(150 if quick else 1500):
        n = rng.randint(1, 6)
        es = []
        for i in range(n):
            k = rng.choice([1, 1, 2, 3, 4, 5, 6])
            ps = [rng.choice(c07.PERSONS[:12] if rng.random() < 0.7 else c07.PERSONS) for _ in range(k)]
            if k > 1 and rng.random() < 0.2:
                ps[-1] = 'others'
            fs = [[rng.choice(['author', 'author', 'editor']), ' and '.join(ps)]] if rng.random() < 0.85 else []
            if rng.random() < 0.8:
                fs.append(['year', rng.choice(['1984', '2001', '99', '5', '1984--85'])])
            if rng.random() < 0.3:
                fs.append(['key', rng.choice(c07.VALUES['key'])])
            if rng.random() < 0.3:
                fs.append(['organization', rng.choice(['The Örg', 'Org', 'The', 'The '])])
            es.append({'type': rng.choice(['book', 'misc', 'article', 'proceedings', 'manual', 'inbook']), 'key': 'n%d' % i, 'fields': fs})
        cases.append({'op': 'pylabels', 'entries': es})
    # the suffix loop on many equal labels (a .. z and beyond)
    for m in (2, 3, 26):
        cases.append({'op': 'pylabels', 'entries': [{'type': 'misc', 'key': 'e%d' % i, 'fields': [['key', 'ab']]} for i in range(m)]})
    # rich-text helpers on every pool value
    vals = RICH_VALUES + [v for vs in c07.VALUES.values() for v in vs] + c07.GENERIC
    for v in vals:
        for fn in ('from_latex', 'abbreviate', 'dashify', 'lower', 'capitalize', 'add_period'):
            if fn in ('lower', 'capitalize') and not _ascii_case_only(v):
                continue      # ASSUMPTIONS: the rich-text model maps the case of ASCII letters only
            cases.append({'op': 'richfn', 'fn': fn, 'value': v})
    for v in RICH_VALUES + STRIP_VALUES + [w for p in c07.PERSONS for w in p.split()]:
        cases.append({'op': 'richfn', 'fn': 'str_abbreviate', 'value': v})
        cases.append({'op': 'richfn', 'fn': 'strip_nonalnum', 'value': v})
    for w in ('', 'a', 'ab', 'abc', 'abcd', 'Éa'):
        for o in (None, '', 'x', 'xy', 'xyz', 'wxyz'):
            cases.append({'op': 'richfn', 'fn': 'tie_or_space', 'value': w, 'other': o})
    # the evaluator node by node
    entries = [{'type': 'article', 'key': 'E1', 'fields': [['title', 'the {TeX}book: a sTudy'], ['year', '1984'], ['pages', '1--10, 12-{}-14'], ['note', ''],
                                                             ['author', 'Donald E. Knuth and Jean-Paul Sartre and others'], ['editor', 'Eric Ez'], ['crossref', 'P1']]},
               {'type': 'book', 'key': 'P1', 'fields': [['booktitle', 'Inherited {B}ook'], ['publisher', 'Addison-Wesley'], ['volume', 'IV']]}]
    fields = ['title', 'year', 'pages', 'note', 'booktitle', 'publisher', 'volume', 'missing', 'Title']
    for _ in range(400 if quick else 4000):
        t = gen_template(rng, 3, fields, ['author', 'editor', 'translator'])
        if t['t'] == 'lit':       # a bare string is a child, not a template
            t = {'t': 'join', 'sep': '', 'sep2': '', 'last': '', 'c': [t]}
        case = {'op': 'tmpleval', 'entries': entries, 'key': 'E1', 'template': t}
        if rng.random() < 0.3:
            case['name_style'] = 'lastfirst'
        if rng.random() < 0.3:
            case['abbreviate_names'] = True
        cases.append(case)
    return cases


def valid_case(case):
    """shape of a function-level case (used by the shrinker)"""
    c07 = _c07()
    op = case['op']

    def entry_ok(e):
        return c07.valid_case({'op': 'pystyle', 'style': 'unsrt', 'min_crossrefs': 2, 'citations': ['*'], 'entries': [dict(e, key='k')]}) and \
            not any(n == 'crossref' for n, _v in e['fields'])
    try:
        if op in ('styletemplate', 'sortkey'):
            return set(case) == {'op', 'entry'} and entry_ok(case['entry'])
        if op == 'pylabels':
            return len(case['entries']) >= 1 and all(entry_ok(e) for e in case['entries']) and \
                len({e['key'].lower() for e in case['entries']}) == len(case['entries'])
        if op == 'namestyle':
            return case['style'] in ('plain', 'lastfirst') and isinstance(case['abbr'], bool) and c07.valid_case(
                {'op': 'pystyle', 'style': 'unsrt', 'min_crossrefs': 2, 'citations': ['*'],
                 'entries': [{'type': 'misc', 'key': 'k', 'fields': [['author', case['name']]]}]}) and ' and ' not in case['name']
        if op == 'richfn':
            return isinstance(case['value'], str) and case['fn'] in ('from_latex', 'abbreviate', 'dashify', 'lower', 'capitalize', 'add_period',
                                                                       'str_abbreviate', 'strip_nonalnum', 'tie_or_space')
        if op == 'tmpleval':
            return False          # templates are not shrunk
    except Exception:
        return False
    return False
