"""C18 -- no state leaks between runs; results deterministic; inputs never modified.

Three kinds of cases:

* `memohist`  a key sequence through the REAL `pybtex.utils.memoize` (small capacities) around a counting
              function, compared call by call with the model (`Memo.call`): result, did the function run,
              evictions, `memory`, `history` (closure cells read by introspection);
* `worldhist` a history of ABSTRACT API calls (the model's `Call` alphabet, incl. command-line `main()` in-process,
              filtered and key-less readers) with a fixed probe repeated at every position: executed for real in a
              forked child of this process, every call's result and the observable world after it (month table,
              errors.*, registry, both name caches) compared with the model; the CONCRETE outcome of every call
              compared with the first occurrence of the same call in the case, and - probes, a fixed pool of calls,
              every history call of the cases marked fresh='all' - with the same call in a FRESH interpreter;
              every database object deep-frozen (all attributes) before / after it is formatted or written; the databases
              formatted / written on a retained object are DB_TEXT and the person-list family `names_text` (name counts 1..6,
              trailing "and others", both roles, the entry types the label styles tell apart);
* `freshhist` histories over CONCRETE calls the model cannot predict (tests/data/xampl.bib through every style,
              backend and format, filtered by citation lists; malformed input; key-less files): oracle only.
"""
import ast
import collections
import hashlib
import io as _io
import itertools
import json
import os
import re
import shutil
import subprocess
import sys
import tempfile
from collections.abc import Mapping, Set

import compat
from compat import REPO, VERIF
from props.base import corpus_for  # noqa: F401

ID = 'C18'
LEAN_MODULES = ['PybtexModel.Props.C18', 'PybtexModel.Props.C18x']
SERIAL = False
LINECOV_CHILDREN = True   # impl() runs pybtex in forked children: they dump the lines they executed (harness/linecov.py)
CASE_TIMEOUT = 300      # a case is a whole history (up to ~2500 calls in the cache-overflow cases), run in a forked child
THEOREMS = {
    'C18_memo_transparent': 'memoize: after EVERY call sequence the cache is part of the graph of f, holds at most `capacity` entries and '
                            '`history` lists exactly its keys, oldest first, once each; hence a memoised call returns f(args) whatever was '
                            'called before, also after more than `capacity` distinct arguments',
    'C18_memo_transparent_nested': 'the same for a memoised function that uses other state (the name formatter on top of the cache of the name splitter)',
    'C18_caches_invariant': 'both caches of pybtex/bibtex/builtins.py satisfy the invariant (regenerated capacity) in a fresh interpreter and after '
                            'every history of calls; the wrapper\'s own bookkeeping never fails',
    'C18_months_constant': '[by construction of the model under isPublic] no history of calls satisfying Call.isPublic changes month_names, errors.strict or the registry; captured_errors is None again. isPublic EXCLUDES the ordinary API call LowLevelParser(text, macros=month_names), the only branch of step that writes the table (_neg_aliased); no aliasing elsewhere is the modelling of fix C18-1, carried by the correspondence (table compared after every call)',
    'C18_months_constant_neg_aliased': 'witness that the model can fail: a LowLevelParser whose `macros` IS the module table (the default of the pinned '
                                       'tree, DESIGN section 4 #24) alters month_names and the next reader sees the macro; with the repaired default it does not',
    'C18_readers_independent': 'conjuncts 1-2 [by construction: newReader builds a fresh value from w.months, the model has no aliasing; needs CachesInv, captured_errors None]: a second reader returns what it returns without the first. Conjunct 3 [model wiring]: readFiles (ds1++ds2) = readFiles ds2 from the state ds1 left is the append law of the recursion; real content: C18_reader_accumulates; non-leakage in Python: the correspondence',
    'C18_deterministic': 'the result of a call is a function of the call and the constant part of the world (month table, strict, captured_errors, '
                         'registry): worlds differing only in cache contents and error_code give equal results and again such worlds',
    'C18_history_independent': 'for every finite history h of calls satisfying Call.isPublic (everything except handing the module\'s own month_names dict to LowLevelParser) at top level '
                               '(captured_errors None, caches satisfying the invariant) and every probe p: result p (run h w0) = result p w0; all un-modelled pybtex code is ASSUMED pure (Fns)',
    'C18_history_independent_fresh': '... in particular w0 = the state of a fresh interpreter',
}
THEOREMS.update({
    'C18_readers_independent_wanted': 'a reader that reads filtered by a citation list (wanted_entries) keeps its own set of wanted keys: what becomes '
                                      'wanted while it reads (cross-reference targets) never reaches another reader, filtered or not',
    'C18_reader_accumulates': 'entries accumulate across the files of one reader (ordinary, filtered, key-less): after any files read without '
                              'raising, everything the reader held before is still there in the same order (entries, preamble), the wanted set '
                              'only grows, the citation spellings stay and the unnamed-entry counter never goes back (proposed fix C18-4)',
    'C18_reader_accumulates_neg_pinned': 'witness that the model can fail: with the counter set back to 1 for every file (pinned tree) the key-less '
                                         'entry of a second file is named unnamed-1 again, reported as repeated and lost',
    'C18_format_name_out_of_range': 'format.name$ with a name number outside 1..count (0, negative, count+1), from ANY state of the two caches: '
                                    'the problem is reported through report_error (collected / raised / warned + error_code), the result is the '
                                    'empty string, the formatter cache and the month table are untouched; a number inside the range always finds '
                                    'its name (the indexing inside the memoised body never raises IndexError)',
    'C18_cli_main_independent': 'in-process main() (CommandLine.main after fix C18-3), top level, histories of isPublic calls: its exit status after any history (earlier main() runs with warnings included) is its status in the initial world; errors.strict is put back; every probe after h ++ [main()] returns what it returns initially. Conjunct 2 "independent of the accumulated error_code" is [model wiring] (rfl: the model of C18-3 resets it first); pinned code: _neg_pinned',
    'C18_cli_main_neg_pinned': 'witness that the model can fail: with CommandLine.main as on the pinned tree (strict never put back, status = sticky '
                               'error_code) three runs good / warning / good exit 0, 2, 2, strict stays False and a later API parse of an '
                               'undefined macro no longer raises',
})
for _n in ('C18_memo_transparent', 'C18_months_constant', 'C18_readers_independent', 'C18_deterministic', 'C18_history_independent',
           'C18_format_name_out_of_range', 'C18_cli_main_independent', 'C18_readers_independent_wanted', 'C18_reader_accumulates'):
    THEOREMS[_n + '_nonvacuous'] = 'the hypotheses of %s are satisfied by a concrete non-trivial instance' % _n

THEOREMS.update({
    'C18_capture_restores': "pybtex/errors.py operation by operation (model with an explicit STACK of capture() frames; nothing in its shape restores anything): a capture() block whose body is ANY sequence of report_error / set_strict_mode / further capture() blocks -- hypothesis: the body closes exactly the blocks it opens (finalDepth 0 body = some 0) -- entered in ANY state (inside other blocks or not, strict or not, any error_code): on leaving, captured_errors is the value it had on entry, the frame stack is as before, error_code / month table / registry / both caches untouched, strict = what the body's last set_strict_mode said, the list handed out = the reports made outside inner blocks as read off the text of the body (topReports), and no operation inside raised or printed [content: captured_errors, frame stack, error_code, strict, the list handed out; month table / registry / both caches untouched holds by construction: no operation of errors.py writes them]",
    'C18_capture_collects_independent': 'corollary: what a balanced capture() block hands out is the same from two ARBITRARY states of errors.* (removes "top level" for '
                                        'the errors module itself; the World theorems still assume captured_errors None at the start)',
    'C18_capture_restores_neg_unrestored': 'witness that the stack model can fail: with leaving = "captured_errors = None" (the module before the committed repair of '
                                           'capture()) a report after an inner block is raised instead of collected',
    'C18_find_plugin_is_the_code': 'composition with C17: for a non-empty name, a group of _DEFAULT_PLUGINS, Fns.entryPoint = the installed table (name in the group, then in '
                                   '<group>.aliases) and an EMPTY run-time registry (hypothesis), the world\'s findPlugin returns what C17\'s function-level model of '
                                   'find_plugin(group, name) returns; and the registry IS empty after every history of isPublic calls from a fresh interpreter (no Call '
                                   'of the C18 alphabet is register_plugin)',
    'C18_find_plugin_is_the_code_nonvacuous': '[finite check on the REGENERATED tables Gen.installedPlugins / Gen.defaultPlugins / Gen.c18Plugins] the constants the C18 model '
                                              'hard-codes (pybtex.database.input / bibtex / pybtex.database.input.bibtex:Parser, also the default of its group) are what the '
                                              'running interpreter has; Gen.c18Plugins = the installed names of the seven base groups; an alias resolves, an unknown name does not',
})
THEOREMS.update({
    'C18_world_capture_is_stack_block': '[model wiring] Call.capture c of the World model = enter; c; exit of the stack machine around the transformer of c, for any stack of open '
                                        'blocks, given the global is still a list when c returns; for isPublic c it is (step_frame); Call.nonstrict c = set_strict_mode(False); c; '
                                        'set_strict_mode(as before)',
    'C18_reader_wanted_monotone': 'across any files one reader goes through without raising (hypothesis readFiles = ok): a key wanted before is still wanted, and '
                                  'get_canonical_key(k) is unchanged for every k (the spelling of the caller\'s original citation list); these are the oracle clauses of op dbhist',
    'C18_reader_wanted_monotone_nonvacuous': 'the hypothesis of C18_reader_wanted_monotone is satisfied by a filtered reader over a file whose child makes its parent wanted',
})
THEOREMS['C18_model_constants_are_the_code'] = ('[finite check on Gen/C18Consts.lean, regenerated on every run from the SOURCE TEXT (ast) of Parser.process_entry, '
                                                'BibliographyData.want_entry / add_entry, report_error, CommandLine.__call__] unnamed-%i, the wild card *, the field crossref, '
                                                'error_code = 2 on a warning and exit status 1 are the constants the model uses')
THEOREMS['C18_capture_restores_nonvacuous'] = 'the hypothesis of C18_capture_restores is satisfied by a body with a nested block, entered at top level and inside another block after a warning'

RULE = ('dbhist: BibliographyData(wanted_entries=cits) + a sequence of add_entry calls (keys in several spellings, crossref fields) on the REAL class, compared call by '
        'call with newReaderWanted / addEntry / wantEntry / canonicalKey (want_entry, get_canonical_key, keys held, wanted set, reports); oracle: earlier entries stay '
        'a prefix, the wanted set only grows, a kept entry is stored under the spelling of the ORIGINAL citation list; '
        'capturehist: EVERY sequence of <= 5 operations over {report_error(e1), report_error(e2), set_strict_mode(False), set_strict_mode(True), enter capture(), '
        'leave the innermost capture()} that never leaves a block it did not enter (3 kinds of exception objects), plus seeded random sequences of <= 14 operations, run '
        'on the REAL pybtex.errors (context-manager objects entered / left by hand, pybtex.io.stderr captured) and compared operation by operation with the stack model '
        '(result, strict, error_code, captured_errors, depth); oracle: every block hands out what the TEXT of its body says (specCollected), a report inside a block is '
        'collected silently; '
        'memohist: EVERY key sequence of length <= 6 over 4 keys for capacities 2 and 3 (and capacity 2 with one raising key), plus capacity 1 up to '
        'length 4; worldhist: seeded random histories of <= 5 (quick) / <= 8 (thorough) calls over {parse .bib with @string in strict/capture/'
        'non-strict mode, parse yaml, parse bibtexml, to_string each format (the same database object written twice), Python format_bibliography '
        '(the same database and style object formatted three times, format_entries on a caller\'s list), BibTeX-engine run (unsrt / plain / the '
        'check\'s own tiny.bst with a macro table of its own / missing .bst) and Python-engine run (unsrt/plain/alpha/unknown) with a multi-element '
        'citation list, format.name$ (incl. too many commas, broken format, name number 0 / -1 / count+1), direct LowLevelParser (default / own '
        'table), command-line main() in-process (pybtex-convert, pybtex-format; with and without --strict; clean, warning and failing input), '
        'batches of > capacity distinct format.name$ calls, an earlier call of the history made again} with a 4-call probe (8 probe sets covering '
        'every call kind) repeated at every position and compared with a fresh /venv/bin/python process; EVERY call\'s concrete outcome is compared '
        'with its first occurrence in the case, and for the fixed pool of calls and all history calls of the first 140 (quick) / 1600 (thorough) '
        'cases with a fresh interpreter; every case runs in a forked child of a process that never calls pybtex; person-list databases (1..6 names, with / without a '
        'trailing "and others", author / editor role, article / book / inbook / proceedings / manual) formatted with alpha, unsrtalpha, plain, unsrt and written in '
        'every format, the database object retained, deep-frozen before / after and formatted again (9 fixed histories + seeded random person lists); '
        'freshhist: tests/data/xampl.bib '
        'through styles/backends/formats, filtered by citation lists, key-less entries; '
        'non-trivial = memo sequence with more distinct keys than capacity, or non-empty history; distinct by case JSON')
TRUSTED = ['introspection of the closure cells `memory`/`history`/`capacity` of pybtex.utils.memoize (harness only)',
           'a subprocess of /venv/bin/python with the same harness module is "a fresh interpreter" (all probes); for the other compared calls: a '
           'child forked from a template process that has imported the harness and pybtex modules but made no pybtex call (a sample of these is '
           're-checked against separately started interpreters on every run)',
           'the C04/C11/C12 models (name splitting, Person, format_name) are what the driver uses for the un-modelled name code',
           'Python == on the argument tuples of the memoised functions is structural equality (str and int arguments only)',
           'capturehist: errors.capture() objects entered and left by hand (__enter__ / __exit__(None, None, None)) stand for `with` blocks; the warning line is read from a '
           'StringIO put in place of pybtex.io.stderr',
           'deep_freeze (harness): the canonical JSON of every attribute reachable from a database object is what "the database" means for '
           '"never modifies it"']
ASSUMPTIONS = ['histories consist of calls satisfying Call.isPublic: no call hands the module\'s own month_names dict to LowLevelParser as its in/out `macros` argument (an ordinary API call; '
               'it alters the table: C18_months_constant_neg_aliased)',
               'everything outside the named state (month table, the two memo closures, errors.*, _RUNTIME_PLUGINS) reaches it only through '
               'report_error, format.name$, find_plugin and a fresh .bib reader; hidden caches of re / PyYAML / xml / latexcodec are covered only '
               'empirically (fresh-process comparison)',
               'histories run at top level (not inside an enclosing errors.capture())',
               '.bib literals in modelled documents are white-space normalised; tokenising is C01\'s subject',
               'wanted_entries and the unnamed-entry counter are modelled for the reader (parse with wanted_entries=... / keyless_entries=True: '
               'filtering, the caller\'s spelling of cited keys, cross-reference targets becoming wanted, key-less entries numbered per reader); '
               'a document is written either for a key-less reader or for an ordinary one (for the other it is a chain of syntax errors: C01/C10); '
               'engine runs of modelled histories cite every entry (explicit keys + "*"): their citation handling after reading '
               '(add_extra_citations, missing citations) is not in the Lean model and is covered by the fresh-process comparison only',
               'the model follows proposed_fixes/C18-3.diff (command-line main(): exit status of this run only, strict mode put back) and '
               'C18-4.diff (unnamed-entry counter per reader, not per file)']

PY = '/venv/bin/python'
HARNESS_DIR = os.path.dirname(os.path.dirname(os.path.abspath(__file__)))


def canon(x):
    return json.dumps(x, sort_keys=True, ensure_ascii=False)


# ------------------------------------------------------------------------------------------------
# state of the real process
# ------------------------------------------------------------------------------------------------

_LITERAL = None


def month_literal():
    """`month_names` as the tree under test defines it: the literal WRITTEN in the source file when it is one, otherwise (the
    table may be built by code) its value in a freshly started interpreter that has done nothing but import the module."""
    global _LITERAL
    if _LITERAL is None:
        path = os.path.join(REPO, 'pybtex', 'database', 'input', 'bibtex.py')
        try:
            tree = ast.parse(open(path, encoding='utf-8').read())
            for node in tree.body:
                if isinstance(node, ast.Assign) and any(getattr(t, 'id', None) == 'month_names' for t in node.targets):
                    _LITERAL = ast.literal_eval(node.value)
        except (ValueError, SyntaxError):
            _LITERAL = None
        if not isinstance(_LITERAL, dict):
            code = ('import sys, json; sys.path.insert(0, %r); import compat; from pybtex.database.input import bibtex as B; '
                    'print(json.dumps(list(B.month_names.items())))' % HARNESS_DIR)
            r = subprocess.run([PY, '-c', code], stdout=subprocess.PIPE, stderr=subprocess.PIPE, text=True, env=dict(os.environ), timeout=120)
            if r.returncode != 0:
                raise RuntimeError('month_names of a fresh interpreter cannot be read: %s' % r.stderr[-300:])
            _LITERAL = dict(json.loads(r.stdout.strip().split('\n')[-1]))
    return _LITERAL


def _cells(fn):
    code = getattr(fn, '__code__', None)
    if code is None or not fn.__closure__:
        return {}
    return {n: c.cell_contents for n, c in zip(code.co_freevars, fn.__closure__)}


def name_caches():
    """(cells of the _split_names closure, cells of the memoised formatter closure) or (None, None)."""
    from pybtex.bibtex import builtins
    sc = _cells(builtins._split_names)
    fc = {}
    for name in ('_format_name_and_reports', '_format_name'):
        f = getattr(builtins, name, None)
        if f is not None and 'memory' in _cells(f):
            fc = _cells(f)
            break
    ok = lambda c: isinstance(c.get('memory'), dict) and isinstance(c.get('history'), collections.deque)
    return (sc if ok(sc) else None), (fc if ok(fc) else None)


def reset_process_state():
    from pybtex import errors
    from pybtex.plugin import _RUNTIME_PLUGINS
    from pybtex.database.input import bibtex as B
    errors.strict = True
    errors.error_code = 0
    errors.captured_errors = None
    _RUNTIME_PLUGINS.clear()
    lit = month_literal()
    if B.month_names != lit or list(B.month_names) != list(lit):
        B.month_names.clear()
        B.month_names.update(lit)
    for c in name_caches():
        if c is not None:
            c['memory'].clear()
            c['history'].clear()


def canon_err(e):
    from pybtex.exceptions import PybtexError
    n = type(e).__name__
    if not isinstance(e, PybtexError):
        return ['INTERNAL:' + n if n != 'IndexError' else 'IndexError', '']
    msg = e.args[0] if e.args else ''
    if n == 'UndefinedMacro':
        return [n, msg]
    if n == 'BibliographyDataError':
        m = re.match(r'repeated bibliography entry: (.*)$', msg, re.S)
        return [n, m.group(1)] if m else [n, '']
    if n == 'DuplicateField':
        m = re.match(r'entry with key (.*) has a duplicate (.*) field$', msg, re.S)
        return [n, m.group(1) + '/' + m.group(2)] if m else [n, '']
    if n == 'InvalidNameString':
        m = re.match(r'Too many commas in (.*)$', msg, re.S)
        try:
            return [n, ast.literal_eval(m.group(1))]
        except Exception:
            return [n, msg]
    if n == 'BibTeXError':
        m = re.match(r'there is no name number (-?\d+) in "(.*)"$', msg, re.S)
        return [n, 'name %s/%s' % (m.group(1), m.group(2))] if m else [n, '']
    if n == 'PluginNotFound':
        m = re.match(r'plugin (.*) not found$', msg, re.S)
        return [n, m.group(1)] if m else [n, '']
    return [n, '']


def world_view(brief=False):
    from pybtex import errors
    from pybtex.plugin import _RUNTIME_PLUGINS
    from pybtex.database.input import bibtex as B
    sc, fc = name_caches()
    w = {'months': [[k, v] for k, v in B.month_names.items()], 'strict': errors.strict, 'error_code': errors.error_code,
         'captured': None if errors.captured_errors is None else [canon_err(e) for e in errors.captured_errors],
         'plugins': sum(len(v) for v in _RUNTIME_PLUGINS.values()),
         'split_size': len(sc['memory']) if sc else None, 'fmt_size': len(fc['memory']) if fc else None}
    if not brief:
        w['split_keys'] = [k[0] for k in sc['history']] if sc else None
        w['fmt_keys'] = [list(k) for k in fc['history']] if fc else None
    return w


CACHE_KEYS = ('fmt_keys', 'fmt_size', 'split_keys', 'split_size')


def reconcile(case, view, mo):
    """The contents of the memo caches are read through the closure cells of `memoize` (names `memory` / `history`): private
    state.  When the tree under test does not expose them under these names (a rename, another container) they are not
    observable: drop them from both sides (the caches are still judged through the RESULTS of the calls: memo_transparent,
    repeat_identical, history_independent)."""
    if not isinstance(view, list) or not isinstance(mo, list) or len(view) != len(mo):
        return view, mo
    v2, m2 = [], []
    for a, b in zip(view, mo):
        if isinstance(a, dict) and isinstance(b, dict):
            w = a.get('world')
            if isinstance(w, dict) and isinstance(b.get('world'), dict) and w.get('fmt_keys') is None and w.get('split_keys') is None:
                a = dict(a, world={k: v for k, v in w.items() if k not in CACHE_KEYS})
                b = dict(b, world={k: v for k, v in b['world'].items() if k not in CACHE_KEYS})
            hidden = [k for k in ('memory', 'history', 'evicted') if k in b and a.get(k) is None]
            if hidden and all(a.get(k) is None for k in ('memory', 'history')):
                a = {k: v for k, v in a.items() if k not in ('memory', 'history', 'evicted')}
                b = {k: v for k, v in b.items() if k not in ('memory', 'history', 'evicted')}
        v2.append(a)
        m2.append(b)
    return v2, m2


def cache_problems():
    """the invariant of memoize on the two real closures"""
    out = []
    for label, c in zip(('_split_names', '_format_name'), name_caches()):
        if c is None:
            continue
        mem, hist, cap = c['memory'], c['history'], c.get('capacity', 1024)
        if len(mem) > cap:
            out.append('memo_transparent: the cache of %s holds %d entries, capacity %d' % (label, len(mem), cap))
        if list(hist) != list(mem.keys()):
            out.append('memo_transparent: history of %s is not the key list of its cache (%d vs %d entries)' % (label, len(hist), len(mem)))
    return out


def deep_freeze(x, seen=None):
    """canonical JSON of EVERYTHING reachable from a Python object: every attribute (`__dict__`, slots), the items of
    mappings / sequences IN ORDER, the members of sets; cycles are cut"""
    seen = set() if seen is None else seen
    if x is None or isinstance(x, (bool, int, float, str)):
        return x
    if isinstance(x, bytes):
        return {'bytes': x.decode('latin-1')}
    if id(x) in seen:
        return '<cycle>'
    seen = seen | {id(x)}
    out = {'class': type(x).__name__}
    if isinstance(x, (list, tuple, collections.deque)):
        out['items'] = [deep_freeze(v, seen) for v in x]
    elif isinstance(x, Mapping):
        out['items'] = [[deep_freeze(k, seen), deep_freeze(v, seen)] for k, v in x.items()]
    elif isinstance(x, (set, frozenset, Set)):
        out['members'] = sorted(json.dumps(deep_freeze(v, seen), sort_keys=True) for v in x)
    d = getattr(x, '__dict__', None)
    if isinstance(d, dict) and d and not isinstance(x, type):
        out['attrs'] = {k: deep_freeze(v, seen) for k, v in sorted(d.items())}
    for klass in type(x).__mro__:
        for slot in getattr(klass, '__slots__', ()):
            if isinstance(slot, str) and hasattr(x, slot):
                out.setdefault('attrs', {})[slot] = deep_freeze(getattr(x, slot), seen)
    if isinstance(x, collections.defaultdict):
        out['default_factory'] = getattr(x.default_factory, '__name__', repr(x.default_factory))
    return out


def freeze_db(db):
    """canonical JSON of a BibliographyData: ALL its attributes (entries with every attribute of every Entry / Person,
    preamble, wanted_entries, citations, crossref_count, min_crossrefs ...), dict orders included"""
    return deep_freeze(db)


def _diff_attr(before, after):
    """name of the first top-level attribute in which two frozen databases differ"""
    try:
        a, b = before.get('attrs', {}), after.get('attrs', {})
        for k in sorted(set(a) | set(b)):
            if a.get(k) != b.get(k):
                return k
    except Exception:  # noqa
        pass
    return '?'


# ------------------------------------------------------------------------------------------------
# abstract documents -> .bib text
# ------------------------------------------------------------------------------------------------

def render_parts(parts):
    return ' # '.join('"%s"' % p['lit'] if 'lit' in p else p['ref'] for p in parts)


def render_doc(doc):
    out = []
    for c in doc:
        if c['k'] == 'string':
            out.append('@string{%s = %s}' % (c['name'], render_parts(c['val'])))
        elif c['k'] == 'preamble':
            out.append('@preamble{%s}' % render_parts(c['val']))
        elif c['k'] == 'keyless':
            out.append('@%s{\n  %s\n}' % (c['type'], ',\n  '.join('%s = %s' % (n, render_parts(v)) for n, v in c['fields'])))
        else:
            out.append('@%s{%s,\n  %s\n}' % (c['type'], c['key'], ',\n  '.join('%s = %s' % (n, render_parts(v)) for n, v in c['fields'])))
    return '\n\n'.join(out) + '\n'


def is_keyless(docs):
    """the reader for these documents is made with keyless_entries=True (then EVERY entry is written without a key)"""
    return any(c['k'] == 'keyless' for d in docs for c in d)


YAML_TEXT = '''entries:
  y1:
    type: article
    author:
      - first: Donald
        middle: E.
        last: Knuth
    title: Yaml Title
    journal: Some Journal
    year: "1984"
preamble: "\\\\newcommand{\\\\y}{}"
'''
XML_TEXT = '''<bibtex:file xmlns:bibtex="http://bibtexml.sf.net/">

    <bibtex:entry id="x1">
        <bibtex:article>
            <bibtex:title>Xml Title</bibtex:title>
            <bibtex:journal>Some Journal</bibtex:journal>
            <bibtex:year>1985</bibtex:year>
            <bibtex:author>
                <bibtex:person>
                    <bibtex:first>Leslie</bibtex:first>
                    <bibtex:last>Lamport</bibtex:last>
                </bibtex:person>
                <bibtex:person>
                    <bibtex:first>Donald</bibtex:first>
                    <bibtex:middle>E.</bibtex:middle>
                    <bibtex:last>Knuth</bibtex:last>
                </bibtex:person>
            </bibtex:author>
        </bibtex:article>
    </bibtex:entry>

</bibtex:file>
'''
DB_TEXT = '''@string{jf = "Journal of Foo"}
@preamble{"\\newcommand{\\noop}[1]{}"}
@article{w1, author = "Knuth, Donald E. and de la Fontaine, Jean", title = "A {T}itle", journal = jf, year = 1999, month = mar}
@book{w2, editor = "Lamport, Leslie", title = "Second", publisher = "Pub", year = "2001", crossref = "w1"}
'''

# (gap c18-6) databases whose PERSON LISTS vary: 1..6 names, with and without a trailing "and others", in the author and in the
# editor role, for every entry type the alpha label style treats differently (book / inbook: author, else editor; proceedings:
# editor; manual: author; everything else: author).  They are formatted / written through the `plugin` calls exactly as
# DB_TEXT is: the database object is RETAINED, deep-frozen before / after, formatted again and compared.
NAME_POOL = ['Knuth, Donald E.', 'Leslie Lamport', 'de la Fontaine, Jean', 'von Neumann, John', 'Ada Lovelace', 'Turing, Alan M.', 'Hopper, Grace']
NAME_TYPES = {'article': ['author'], 'book': ['author', 'editor'], 'inbook': ['author', 'editor'], 'proceedings': ['editor'], 'manual': ['author']}
_NAME_REST = {'article': 'journal = "Some Journal", ', 'book': 'publisher = "Pub", ', 'inbook': 'pages = "1--2", publisher = "Pub", ',
              'proceedings': '', 'manual': ''}
_NAME_LINE = re.compile(r'^@([a-z]+)\{(n[0-9]+), ((?:(?:author|editor) = "[A-Za-z., ]*", ){1,2})title = "Title ([0-9]+)", (.*)year = "([0-9]{4})"\}$')
_NAME_ROLE = re.compile(r'(author|editor) = "([A-Za-z., ]*)", ')


def names_text(entries):
    """entries: [[type, key number, [[role, [name, ...]], ...], year]] -> .bib text, one complete entry per line"""
    out = []
    for typ, num, roles, year in entries:
        out.append('@%s{n%d, %stitle = "Title %d", %syear = "%d"}' % (
            typ, num, ''.join('%s = "%s", ' % (role, ' and '.join(names)) for role, names in roles), num, _NAME_REST[typ], year))
    return '\n'.join(out) + '\n'


def names_spec(text):
    """inverse of names_text; None when `text` is not of that form (used by valid_case: the shrinker must stay inside the family)"""
    if not isinstance(text, str) or not text.endswith('\n'):
        return None
    entries, seen = [], set()
    for line in text[:-1].split('\n'):
        m = _NAME_LINE.match(line)
        if not m or m.group(1) not in NAME_TYPES or m.group(2) in seen or m.group(2) != 'n' + m.group(4):
            return None
        seen.add(m.group(2))
        roles = [[r, ns.split(' and ')] for r, ns in _NAME_ROLE.findall(m.group(3))]
        if len({r for r, _ in roles}) != len(roles) or any(r not in NAME_TYPES[m.group(1)] for r, _ in roles):
            return None
        for _r, ns in roles:
            if not ns or any(n not in NAME_POOL for n in ns[:-1]) or ns[-1] not in NAME_POOL + ['others'] or ns == ['others']:
                return None
        entries.append([m.group(1), int(m.group(4)), roles, int(m.group(6))])
    if not entries or len(entries) > 6 or names_text(entries) != text:
        return None
    return entries


_P = NAME_POOL
NAME_TEXTS = [names_text(e) for e in [
    # two / three names + others (author of an article; editor of a book), one name alone
    [['article', 1, [['author', _P[:2] + ['others']]], 1999], ['book', 2, [['author', _P[1:2]]], 1986],
     ['book', 3, [['editor', _P[3:4] + ['others']]], 2001]],
    # more than four names without / with others; exactly four; the editors of proceedings, the authors of a manual
    [['article', 1, [['author', _P[:5]]], 1984], ['manual', 2, [['author', _P[1:7] + ['others']]], 1985],
     ['proceedings', 3, [['editor', _P[2:6]]], 1990], ['inbook', 4, [['editor', _P[:3] + ['others']]], 1991]],
    # author AND editor on one entry (the label reads the authors only), the same label twice (suffixes a / b)
    [['book', 1, [['author', _P[4:6] + ['others']], ['editor', _P[:2] + ['others']]], 2004],
     ['inbook', 2, [['author', _P[4:6] + ['others']]], 2004], ['proceedings', 3, [['editor', _P[5:7] + ['others']]], 2010],
     ['article', 4, [['author', [_P[6], _P[0], _P[2], _P[1], _P[3], _P[4]]]], 1970]],
]]
del _P


def gen_names_text(rng):
    entries = []
    for num in range(1, rng.randint(2, 4) + 1):
        typ = rng.choice(['article', 'article', 'book', 'book', 'inbook', 'proceedings', 'manual'])
        roles = []
        for role in (NAME_TYPES[typ] if rng.random() < 0.25 else [rng.choice(NAME_TYPES[typ])]):
            names = [rng.choice(NAME_POOL) for _ in range(rng.choice([1, 1, 2, 2, 3, 4, 5, 6]))]
            if rng.random() < 0.5:
                names.append('others')
            roles.append([role, names])
        entries.append([typ, num, roles, rng.choice([1970, 1999, 1999, 2004])])
    return names_text(entries)


def db_text_ok(text):
    return text == DB_TEXT or names_spec(text) is not None


# ------------------------------------------------------------------------------------------------
# executing one call on the real implementation
# ------------------------------------------------------------------------------------------------

def _db_view(db, parser):
    ents = []
    for key, e in db.entries.items():
        ents.append({'key': e.key, 'type': e.type, 'fields': [[k, v] for k, v in e.fields.items()],
                     'persons': [[role, str(p)] for role, ps in e.persons.items() for p in ps]})
    return {'entries': ents, 'preamble': list(db.preamble_list),
            'macros': sorted([k.lower(), v] for k, v in parser.macros.items())}


def _format_name_builtin(names, n, fmt):
    from pybtex.bibtex.interpreter import Interpreter
    from pybtex.bibtex.builtins import builtins
    i = Interpreter(None, 'utf-8')
    i.push(names)
    i.push(n)
    i.push(fmt)
    builtins['format.name$'].execute(i)
    return i.pop()


def style_arg(style):
    """what is passed as `style=` to the BibTeX engine: tests/data/<style> of the tree under test; `tiny` is the check's own style"""
    if style == 'tiny':
        return os.path.join(VERIF, 'corpus', 'C18', 'tiny')
    return os.path.join(REPO, 'tests', 'data', style)


def citations_for(files):
    """the citation list given to an engine run: every key of the files once (first spelling, document order) and then '*':
    a list with several elements, so that reordering it in place is visible; the entries cited are the same as for ['*']"""
    keys, seen = [], set()
    for d in files:
        for c in d:
            if c['k'] == 'entry' and c['key'].lower() not in seen:
                seen.add(c['key'].lower())
                keys.append(c['key'])
    return keys + ['*']


def _latex(formatted):
    from pybtex.plugin import find_plugin
    buf = _io.StringIO()
    find_plugin('pybtex.backends', 'latex')().write_to_stream(formatted, buf)
    return buf.getvalue()


def _run_cli(call, notes):
    """a command-line entry point called in-process: pybtex-convert (.bib -> .yaml) for an inner `parse`, pybtex-format for an
    inner `python` run; result = the exit status"""
    import pybtex.io
    inner = call['call']
    tmp = tempfile.mkdtemp(prefix='c18cli')
    old_argv, old_err = sys.argv, pybtex.io.stderr
    buf = _io.StringIO()
    try:
        src = os.path.join(tmp, 'in.bib')
        with open(src, 'w', encoding='utf-8') as f:
            f.write(render_doc(inner['files'][0]))
        if inner['c'] == 'parse':
            from pybtex.database.convert.__main__ import main
            dst = os.path.join(tmp, 'out.yaml')
            argv = [src, dst]
        else:
            from pybtex.database.format.__main__ import main
            dst = os.path.join(tmp, 'out.txt')
            argv = ['--style', inner['style'], '--output-backend', 'plaintext', src, dst]
        if call['strict']:
            argv = ['--strict'] + argv
        sys.argv = [main.prog] + argv
        pybtex.io.stderr = buf
        try:
            main()
            code = None
        except SystemExit as e:
            code = e.code
        finally:
            sys.argv, pybtex.io.stderr = old_argv, old_err
        out = None
        if os.path.exists(dst):
            with open(dst, encoding='utf-8') as f:
                out = f.read()
        return {'exit': code}, {'exit': code, 'out': out, 'stderr': buf.getvalue().replace(tmp, '<TMP>')}
    finally:
        sys.argv, pybtex.io.stderr = old_argv, old_err
        shutil.rmtree(tmp, ignore_errors=True)


def _base_call(call, notes):
    """Returns (model-comparable result, concrete result)."""
    c = call['c']
    if c == 'parse':
        from pybtex.plugin import find_plugin
        cls = find_plugin('pybtex.database.input', 'bibtex')
        cits = call.get('cits')
        kw = {'keyless_entries': True} if is_keyless(call['files']) else {}
        if cits is None:
            parser = cls(**kw)
        else:                            # reading filtered by a citation list
            cits = list(cits)
            parser = cls(wanted_entries=cits, **kw)
        db = parser.data
        try:
            for d in call['files']:      # the files of ONE reader (parse_files -> parse_file -> parse_stream -> parse_string)
                db = parser.parse_string(render_doc(d))
        finally:
            if cits is not None and cits != call['cits']:
                notes.append('inputs_not_modified: the reader changed the wanted_entries list it was given from %r to %r' % (call['cits'], cits))
        if kw and cits is None:
            # files without a single key: no two entries can have "the same key", every entry of every file must be there
            want = sum(1 for d in call['files'] for c in d if c['k'] == 'keyless')
            if len(db.entries) != want:
                notes.append('reader_accumulates: one key-less reader over %d file(s) with %d entries in all holds %d entries %r' % (
                    len(call['files']), want, len(db.entries), list(db.entries.keys())))
        v = _db_view(db, parser)
        return v, {'db': freeze_db(db), 'macros': v['macros']}
    if c == 'lowlevel':
        from pybtex.database.input.bibtex import LowLevelParser, month_names
        text = render_doc(call['doc'])
        arg = call['arg']
        kw = {'keyless_entries': True} if is_keyless([call['doc']]) else {}
        if arg == 'default':
            p = LowLevelParser(text, **kw)
        elif arg == 'module':
            p = LowLevelParser(text, macros=month_names, **kw)
        else:
            p = LowLevelParser(text, macros=dict((k, v) for k, v in arg['table']), **kw)
        low = []
        for command, payload in p:
            cl = command.lower()
            if cl == 'string':
                low.append(['string', payload[0], list(payload[1])])
            elif cl == 'preamble':
                low.append(['preamble', list(payload[0])])
            else:
                low.append(['entry', command, payload[0], [[n, list(v)] for n, v in payload[1]]])
        v = {'low': low, 'macros': [[k, w] for k, w in p.macros.items()]}
        return v, v
    if c == 'fmtname':
        s = _format_name_builtin(call['names'], call['n'], call['fmt'])
        from pybtex.bibtex.names import format_name
        from pybtex.bibtex.utils import split_name_list
        from pybtex import errors
        with errors.capture():
            # the built-in without its caches: a name number outside 1..count is reported and stands for ''
            parts = split_name_list(call['names'])
            want = format_name(parts[call['n'] - 1], call['fmt']) if 1 <= call['n'] <= len(parts) else ''
        if s != want:
            notes.append('memo_transparent: format.name$(%r, %r, %r) returned %r, the un-memoised function gives %r' % (
                call['names'], call['n'], call['fmt'], s, want))
        return {'str': s}, {'str': s}
    if c in ('bibtex', 'python'):
        cits = citations_for(call['files'])
        given = list(cits)
        texts = [render_doc(d) for d in call['files']]
        try:
            if c == 'bibtex':
                import pybtex.bibtex
                out = pybtex.bibtex.format_from_strings(texts, style=style_arg(call['style']), citations=cits)
            else:
                import pybtex
                out = pybtex.format_from_strings(texts, style=call['style'], citations=cits)
        finally:
            if cits != given:
                notes.append('inputs_not_modified: the %s engine changed the citation list it was given from %r to %r' % (
                    'BibTeX' if c == 'bibtex' else 'Python', given, cits))
        return {'str': 'bbl'}, {'str': out}
    if c == 'climain':
        return _run_cli(call, notes)
    if c == 'plugin':
        from pybtex import errors
        from pybtex.plugin import find_plugin
        from pybtex.database import parse_string
        group, name, text = call['group'], call['name'], call['text']
        sym = {'str': group + ':' + name}
        if group == 'pybtex.database.input':
            db = parse_string(text, name)
            return sym, {'db': freeze_db(db)}
        cls = find_plugin(group, name)          # PluginNotFound comes first, as in the model
        with errors.capture():
            db = parse_string(text, 'bibtex')
        before = freeze_db(db)
        full = {}
        try:
            if group == 'pybtex.database.output':
                # the SAME database object is written twice
                full['str'] = db.to_string(name)
                full['again'] = db.to_string(name)
                if full['again'] != full['str']:
                    notes.append('repeat_identical: to_string(%r) twice on the same database object gives different results: %s' % (
                        name, _first_diff(full['again'], full['str'])))
            elif group == 'pybtex.style.formatting':
                # the SAME database object (and style object) is formatted three times: only the child `w2` of the
                # cross-reference w2 -> w1, everything (two keys, reversed), and the child again
                style = cls()
                keys = list(db.entries.keys())
                for label, cits in (('child', keys[-1:]), ('str', keys[::-1]), ('again', keys[-1:])):
                    given = list(cits)
                    full[label] = _latex(style.format_bibliography(db, cits))
                    if cits != given:
                        notes.append('inputs_not_modified: %s format_bibliography changed the citation list it was given from %r to %r' % (name, given, cits))
                if full['again'] != full['child']:
                    notes.append('repeat_identical: %s format_bibliography(db, %r) twice on the same database object gives different results: %s' % (
                        name, keys[-1:], _first_diff(full['again'], full['child'])))
                # (gap c18-6) ... and everything once more, with a NEW style object: labels, sorting and entry texts of all entries
                full['all_again'] = _latex(cls().format_bibliography(db, keys[::-1]))
                if full['all_again'] != full['str']:
                    notes.append('repeat_identical: %s format_bibliography(db, %r) twice on the same database object gives different results: %s' % (
                        name, keys[::-1], _first_diff(full['all_again'], full['str'])))
                ents = [db.entries[k] for k in keys[::-1]]
                ids = [id(e) for e in ents]
                full['entries'] = [e.key for e in style.format_entries(ents, db)]
                if [id(e) for e in ents] != ids:
                    notes.append('inputs_not_modified: %s format_entries reordered the list of entries it was given' % name)
            else:
                raise ValueError(group)
        finally:
            after = freeze_db(db)
            if after != before:
                notes.append('inputs_not_modified: %s %s modified the database it was given (attribute %s)' % (group, name, _diff_attr(before, after)))
        return sym, full
    return _concrete_call(call, notes)


def run_call(call, notes):
    """{'res': what the model predicts, 'full': the concrete outcome (compared with a fresh interpreter)}"""
    import pybtex.io
    from pybtex import errors
    c = call['c']
    if c == 'capture':
        with errors.capture() as errs:
            inner = run_call(call['call'], notes)
            collected = [canon_err(e) for e in errs]
        return {'res': {'res': inner['res'], 'errors': collected}, 'full': {'res': inner['full'], 'errors': collected}}
    if c == 'nonstrict':
        old, old_err = errors.strict, pybtex.io.stderr
        buf = _io.StringIO()
        errors.set_strict_mode(False)
        pybtex.io.stderr = buf
        try:
            inner = run_call(call['call'], notes)
        finally:
            errors.set_strict_mode(old)
            pybtex.io.stderr = old_err
        return {'res': inner['res'], 'full': {'res': inner['full'], 'stderr': buf.getvalue()}}
    try:
        res, full = _base_call(call, notes)
    except Exception as e:  # noqa
        err = canon_err(e)
        return {'res': {'raised': err}, 'full': {'raised': err, 'text': str(e)[:300]}}
    return {'res': res, 'full': full}


# concrete calls of `freshhist` --------------------------------------------------------------------

def _data(name):
    return os.path.join(REPO, 'tests', 'data', name)


def _concrete_call(call, notes):
    from pybtex import errors
    from pybtex.database import parse_file, parse_string
    c = call['c']
    if c == 'x_parse':
        db = parse_file(_data(call['file']), call.get('fmt'))
        return {'str': 'x'}, {'db': freeze_db(db)}
    if c in ('x_bibtex', 'x_python'):
        kw = {}
        cits = given = None
        if call.get('cits') is not None:          # an explicit citation list: the file is read filtered (wanted_entries)
            cits = list(call['cits'])
            given = list(cits)
            kw['citations'] = cits
        try:
            if c == 'x_bibtex':
                import pybtex.bibtex
                out = pybtex.bibtex.format_from_file(_data(call['bib']), style=_data(call['style']), **kw)
            else:
                import pybtex
                out = pybtex.format_from_file(_data(call['bib']), style=call['style'], output_backend=call.get('backend'), **kw)
        finally:
            if cits != given:
                notes.append('inputs_not_modified: %s changed the citation list it was given from %r to %r' % (c, given, cits))
        return {'str': 'x'}, {'str': out}
    if c == 'x_convert':
        db = parse_file(_data(call['file']))
        before = freeze_db(db)
        text = db.to_string(call['fmt'])
        after = freeze_db(db)
        if after != before:
            notes.append('inputs_not_modified: to_string(%r) modified the database (attribute %s)' % (call['fmt'], _diff_attr(before, after)))
        back = parse_string(text, call['fmt'])
        return {'str': 'x'}, {'text': text, 'back': freeze_db(back)}
    if c == 'x_text':
        db = parse_string(call['text'], call.get('fmt', 'bibtex'))
        return {'str': 'x'}, {'db': freeze_db(db)}
    if c == 'x_keyless':
        # entries without keys (`keyless_entries`): the unnamed-entry counter; the files of ONE reader
        from pybtex.database.input.bibtex import Parser
        parser = Parser(keyless_entries=True, wanted_entries=call.get('cits'))
        db = parser.data
        for text in call['texts']:
            db = parser.parse_string(text)
        if call.get('cits') is None and all(t in KEYLESS_COUNT for t in call['texts']):
            # well-formed files without a single key: no two entries can have "the same key"
            want = sum(KEYLESS_COUNT[t] for t in call['texts'])
            if len(db.entries) != want:
                notes.append('reader_accumulates: one key-less reader over %d files with %d entries in all holds %d entries %r' % (
                    len(call['texts']), want, len(db.entries), list(db.entries.keys())))
        return {'str': 'x'}, {'db': freeze_db(db)}
    if c == 'x_find':
        # find_plugin by name / by file name / default, also in a group that does not exist (PluginGroupNotFound)
        from pybtex.plugin import find_plugin
        cls = find_plugin(call['group'], call.get('name'), filename=call.get('filename'))
        return {'str': 'x'}, {'cls': '%s:%s' % (cls.__module__, cls.__name__)}
    if c == 'x_climain_args':
        # main() of a command-line tool called in-process with the WRONG number of arguments: print_help(); sys.exit(1)
        import pybtex.io
        from pybtex.database.convert.__main__ import main
        old = (sys.argv, sys.stdout, pybtex.io.stderr)
        buf = _io.StringIO()
        try:
            sys.argv = [main.prog] + list(call['argv'])
            sys.stdout = buf
            pybtex.io.stderr = buf
            try:
                main()
                code = None
            except SystemExit as e:
                code = e.code
        finally:
            sys.argv, sys.stdout, pybtex.io.stderr = old
        return {'str': 'x'}, {'exit': code, 'help': buf.getvalue()[:200]}
    raise ValueError('unknown call %r' % c)


# fresh interpreter ---------------------------------------------------------------------------------

_FRESH = {}


def _fresh_main():
    call = json.load(sys.stdin)
    notes = []
    out = run_call(call, notes)['full']
    sys.stdout.write('\nRESULT ' + json.dumps(out) + '\n')


def _spawn_fresh(call):
    code = 'import sys; sys.path.insert(0, %r); import props.c18 as m; m._fresh_main()' % HARNESS_DIR
    p = subprocess.run([PY, '-c', code], input=json.dumps(call), stdout=subprocess.PIPE, stderr=subprocess.PIPE,
                       text=True, timeout=300, env=os.environ.copy())
    for line in p.stdout.split('\n'):
        if line.startswith('RESULT '):
            return json.loads(line[7:])
    raise RuntimeError('fresh interpreter failed: %s' % (p.stderr[-600:] or p.stdout[-300:]))


def fresh_result(call):
    k = canon(call)
    if k not in _FRESH:
        _FRESH[k] = _spawn_fresh(call)
    return _FRESH[k]


# A cheaper source of "fresh" results for the many history calls that are compared as well: a TEMPLATE process that has
# imported the harness and the pybtex modules but has not made a single pybtex call forks one child per request; the child
# computes the call and exits.  Module-level state of a forked child = module-level state right after import = a fresh
# interpreter (the probes themselves are still run in separately started /venv/bin/python processes).

def _preimport():
    """IMPORTS only (no pybtex call): so that forked children do not pay for them"""
    import pybtex, pybtex.bibtex, pybtex.database, pybtex.plugin, pybtex.errors, pybtex.io  # noqa: F401,E401
    import pybtex.database.input.bibtex, pybtex.bibtex.builtins, pybtex.bibtex.interpreter, pybtex.cmdline  # noqa: F401,E401
    import pybtex.database.input.bibyaml, pybtex.database.input.bibtexml, pybtex.database.output.bibtex  # noqa: F401,E401
    import pybtex.database.output.bibyaml, pybtex.database.output.bibtexml, pybtex.backends.latex  # noqa: F401,E401
    import pybtex.style.formatting.unsrt, pybtex.style.formatting.plain, pybtex.style.formatting.alpha  # noqa: F401,E401
    import pybtex.database.convert.__main__, pybtex.database.format.__main__  # noqa: F401,E401


def _template_main():
    _preimport()
    out = sys.stdout
    for line in sys.stdin:
        call = json.loads(line)
        r, w = os.pipe()
        pid = os.fork()
        if pid == 0:
            code = 0
            try:
                os.close(r)
                devnull = os.open(os.devnull, os.O_WRONLY)
                os.dup2(devnull, 1)
                os.dup2(devnull, 2)
                try:
                    data = json.dumps(run_call(call, [])['full'])
                except BaseException as e:  # noqa
                    data = json.dumps({'template_error': '%s: %s' % (type(e).__name__, e)})
                buf = data.encode('utf-8')
                while buf:
                    buf = buf[os.write(w, buf):]
            except BaseException:  # noqa
                code = 1
            os._exit(code)
        os.close(w)
        chunks = []
        while True:
            b = os.read(r, 1 << 16)
            if not b:
                break
            chunks.append(b)
        os.close(r)
        os.waitpid(pid, 0)
        out.write('RESULT ' + b''.join(chunks).decode('utf-8') + '\n')
        out.flush()


class _Template(object):
    def __init__(self):
        code = 'import sys; sys.path.insert(0, %r); import props.c18 as m; m._template_main()' % HARNESS_DIR
        self.p = subprocess.Popen([PY, '-c', code], stdin=subprocess.PIPE, stdout=subprocess.PIPE, stderr=subprocess.DEVNULL,
                                  text=True, env=os.environ.copy())

    def ask(self, call):
        self.p.stdin.write(json.dumps(call) + '\n')
        self.p.stdin.flush()
        while True:
            line = self.p.stdout.readline()
            if not line:
                raise RuntimeError('template process died')
            if line.startswith('RESULT '):
                r = json.loads(line[7:])
                if isinstance(r, dict) and 'template_error' in r:
                    raise RuntimeError(r['template_error'])
                return r

    def close(self):
        try:
            self.p.stdin.close()
            self.p.wait(timeout=20)
        except Exception:  # noqa
            self.p.kill()


def prewarm(calls, forked=()):
    """fill _FRESH: `calls` in separately started interpreter processes, `forked` in children of pristine template processes"""
    from concurrent.futures import ThreadPoolExecutor
    jobs = int(os.environ.get('VERIF_JOBS', '16'))
    todo, seen = [], set()
    for c in calls:
        k = canon(c)
        if k not in _FRESH and k not in seen:
            seen.add(k)
            todo.append(c)
    todo2 = []
    for c in forked:
        k = canon(c)
        if k not in _FRESH and k not in seen:
            seen.add(k)
            todo2.append(c)
    if todo:
        with ThreadPoolExecutor(jobs) as ex:
            for c, r in zip(todo, ex.map(_spawn_fresh, todo)):
                _FRESH[canon(c)] = r
    if todo2:
        if os.environ.get('VERIF_C18_SPAWN'):
            with ThreadPoolExecutor(jobs) as ex:
                for c, r in zip(todo2, ex.map(_spawn_fresh, todo2)):
                    _FRESH[canon(c)] = r
            return
        n = max(1, min(jobs, len(todo2) // 4 + 1))
        parts = [todo2[i::n] for i in range(n)]

        def work(part):
            t = _Template()
            try:
                return [t.ask(c) for c in part]
            finally:
                t.close()
        with ThreadPoolExecutor(n) as ex:
            for part, rs in zip(parts, ex.map(work, parts)):
                for c, r in zip(part, rs):
                    _FRESH[canon(c)] = r


# ------------------------------------------------------------------------------------------------
# impl
# ------------------------------------------------------------------------------------------------

class Boom(Exception):
    pass


def impl_memo(case):
    from pybtex.utils import memoize
    ran = []
    raising = set(case['raise'])

    def f(k):
        ran.append(k)
        if k in raising:
            raise Boom(k)
        return 10 * k + 1

    g = memoize(f, capacity=case['cap'])
    cells = _cells(g)
    out = []
    for k in case['keys']:
        before = list(cells['history']) if 'history' in cells else None
        n0 = len(ran)
        try:
            r = {'v': g(k)}
        except Boom:
            r = 'raised'
        except Exception as e:  # noqa
            r = 'INTERNAL:' + type(e).__name__
        step = {'r': r, 'ran': len(ran) > n0}
        if 'memory' in cells and 'history' in cells:
            after = list(cells['history'])
            step['memory'] = [[a[0], v] for a, v in cells['memory'].items()]
            step['history'] = [a[0] for a in after]
            step['evicted'] = [a[0] for a in before if a not in after]
        out.append(step)
    return out


def flatten(case):
    """[(call, is_probe, position)]: probe, h1, probe, h2, ..., hn, probe; batches stay one call here."""
    seq = []
    probe = case.get('probe', [])
    for pos, h in enumerate([None] + list(case['history'])):
        if h is not None:
            seq.append((h, False, pos))
        for p in probe:
            seq.append((p, True, pos))
    return seq


def expand_many(call):
    wrap = {'plain': lambda c: c, 'capture': lambda c: {'c': 'capture', 'call': c},
            'nonstrict': lambda c: {'c': 'nonstrict', 'call': c}}[call.get('mode', 'plain')]
    return [wrap({'c': 'fmtname', 'names': '%s%d, %s' % (call['prefix'], i, call.get('first', 'Ann B.')), 'n': 1, 'fmt': call['fmt']})
            for i in range(call['start'], call['start'] + call['count'])]


def _digest(x):
    return hashlib.sha1(canon(x).encode('utf-8')).hexdigest()[:16]


def _needs_fresh(case):
    fresh_all = case.get('fresh') == 'all'
    out = []
    for call, is_probe, _pos in flatten(case):
        if call['c'] != 'fmtmany' and (is_probe or fresh_all or canon(call) in POOL_KEYS):
            out.append(call)
    return out


def impl_world(case):
    """Every case runs in a forked child of this process, which itself never calls pybtex: whatever state a case leaves behind
    (also in places nobody knows of) cannot reach the next case, and a stored case replays alone as it ran in the stream."""
    if os.environ.get('VERIF_C18_NOFORK'):
        return _impl_world(case)
    _preimport()
    for call in _needs_fresh(case):
        fresh_result(call)                 # cached here, inherited by the child
    r, w = os.pipe()
    sys.stdout.flush()
    sys.stderr.flush()
    pid = os.fork()
    if pid == 0:
        code = 0
        try:
            os.close(r)
            try:
                data = json.dumps(_impl_world(case))
            except BaseException as e:  # noqa
                import traceback
                data = json.dumps({'harness_error': '%s: %s' % (type(e).__name__, e), 'tb': traceback.format_exc()[-1500:]})
            buf = data.encode('utf-8')
            while buf:
                buf = buf[os.write(w, buf):]
        except BaseException:  # noqa
            code = 1
        try:    # line coverage of the repository as seen by this child (harness/linecov.py; informational)
            import linecov
            linecov.dump_child()
        except BaseException:  # noqa
            pass
        os._exit(code)
    os.close(w)
    chunks = []
    try:
        while True:
            b = os.read(r, 1 << 16)
            if not b:
                break
            chunks.append(b)
    except BaseException:       # e.g. the per-case time limit of check.py: do not leave the child behind
        try:
            os.kill(pid, 9)
        except OSError:
            pass
        raise
    finally:
        os.close(r)
        os.waitpid(pid, 0)
    if not chunks:
        raise RuntimeError('the child process running the case died')
    return json.loads(b''.join(chunks).decode('utf-8'))


def _impl_world(case):
    """Runs probe, h1, probe, h2, ... in THIS process.  Per call: the model-comparable result and the observable world after it.
    The CONCRETE outcome of every call (`full`) is compared
      * with the first occurrence of the same call in this case (clause repeat_identical),
      * probes, calls of the fixed POOL and — in cases marked fresh='all' — every history call: with the same call in a FRESH
        interpreter process (clause history_independent);
    the comparisons are reported as notes with a readable difference; digests of the probe outcomes travel in the output."""
    notes = []
    steps = []
    probe_full = collections.defaultdict(list)
    first = {}
    lit = month_literal()
    from pybtex.database.input import bibtex as B
    reset_process_state()
    months_bad = False
    fresh_all = case.get('fresh') == 'all'
    history = list(case['history'])
    said = set()

    def say(kind, text):
        if kind not in said:        # one note per kind and case: the first one
            said.add(kind)
            notes.append(text)

    try:
        for idx, (call, is_probe, pos) in enumerate(flatten(case)):
            if call['c'] == 'fmtmany':
                rs = [run_call(c, notes) for c in expand_many(call)]
                r = {'res': [x['res'] for x in rs], 'full': [x['full'] for x in rs]}
            else:
                r = run_call(call, notes)
            steps.append({'res': r['res'], 'world': world_view()})
            key = canon(call)
            if key in first:
                if canon(first[key][1]) != canon(r['full']):
                    say('repeat', 'repeat_identical: call #%d (%s) after [%s] returned something else than the same call made as call #%d of this history: %s' % (
                        idx, describe(call), ', '.join(describe(h) for h in history[:pos]), first[key][0], _first_diff(r['full'], first[key][1])))
            else:
                first[key] = (idx, r['full'])
            if is_probe:
                probe_full[pos].append(_digest(r['full']))
            if call['c'] != 'fmtmany' and (is_probe or fresh_all or key in POOL_KEYS):
                want = fresh_result(call)
                if canon(want) != canon(r['full']):
                    say('fresh', 'history_independent: %s %s after %d history calls [%s] differs from the same computation in a fresh interpreter process: %s' % (
                        'probe' if is_probe else 'call', describe(call), pos - (0 if is_probe else 1),
                        ', '.join(describe(h) for h in history[:pos - (0 if is_probe else 1)]), _first_diff(r['full'], want)))
            if B.month_names != lit and not months_bad:
                # reported once; the table is put back at the end of the case so that the probes that follow show the leak
                months_bad = True
                diff = {k: B.month_names.get(k) for k in sorted(set(B.month_names) | set(lit)) if B.month_names.get(k) != lit.get(k)}
                notes.append('months_constant: after call #%d (%s) month_names differs from its source literal in %r' % (idx, describe(call), diff))
            notes.extend(cache_problems())
        fresh = [_digest(fresh_result(p)) for p in case.get('probe', [])]
    finally:
        reset_process_state()
    return {'op': case['op'], 'steps': steps, 'probe_full': [probe_full[p] for p in sorted(probe_full)], 'fresh': fresh, 'notes': sorted(set(notes))}


def make_exc(d):
    """the exception object a `capturehist` operation reports"""
    from pybtex.exceptions import PybtexError
    from pybtex.bibtex.exceptions import BibTeXError
    from pybtex.database import InvalidNameString
    if d['k'] == 'invalid':
        return InvalidNameString(d['name'])
    if d['k'] == 'nosuch':
        return BibTeXError('there is no name number %d in "%s"' % (d['n'], d['names']))
    return {'PybtexError': PybtexError, 'BibTeXError': BibTeXError}[d['tag']]('some problem')


def impl_err(case):
    """primitive operations on the REAL pybtex.errors; `capture()` objects are entered and left by hand so that blocks nest
    and interleave with the other operations exactly as the case says"""
    import pybtex.io
    from pybtex import errors
    saved = (errors.strict, errors.error_code, errors.captured_errors, pybtex.io.stderr)
    errors.strict, errors.error_code, errors.captured_errors = True, 0, None
    stack = []           # (context manager, the list it handed out, the object captured_errors was on entry)
    out = []
    try:
        for op in case['ops']:
            o = op['o']
            step = {'r': None}
            notes = []
            if o == 'report':
                exc = make_exc(op['e'])
                buf = _io.StringIO()
                pybtex.io.stderr = buf
                try:
                    errors.report_error(exc)
                    if buf.getvalue():                       # a warning was printed (its wording is C16's subject)
                        step['r'] = {'warned': canon_err(exc)}
                except Exception as e:  # noqa
                    step['r'] = {'raised': canon_err(e)}
                finally:
                    pybtex.io.stderr = saved[3]
            elif o == 'strict':
                errors.set_strict_mode(op['b'])
            elif o == 'enter':
                before = errors.captured_errors
                cm = errors.capture()
                lst = cm.__enter__()
                stack.append((cm, lst, before))
            elif o == 'exit':
                if not stack:
                    step['r'] = 'INVALID'
                else:
                    cm, lst, before = stack.pop()
                    cm.__exit__(None, None, None)
                    step['r'] = {'collected': [canon_err(e) for e in lst]}
            else:
                raise ValueError(o)
            step.update({'strict': errors.strict, 'error_code': errors.error_code, 'depth': len(stack),
                         'captured': None if errors.captured_errors is None else [canon_err(e) for e in errors.captured_errors]})
            if notes:
                step['notes'] = notes
            out.append(step)
    finally:
        while stack:
            try:
                stack.pop()[0].__exit__(None, None, None)
            except Exception:  # noqa
                pass
        errors.strict, errors.error_code, errors.captured_errors, pybtex.io.stderr = saved
    return out


def impl_db(case):
    """BibliographyData(wanted_entries=cits) and a sequence of add_entry calls, each under capture(): function level for
    BibliographyData.__init__ / add_entry / want_entry / get_canonical_key"""
    from pybtex import errors
    from pybtex.database import BibliographyData, Entry
    cits = None if case.get('cits') is None else list(case['cits'])
    data = BibliographyData(wanted_entries=cits)
    out = []
    for a in case['adds']:
        fields = [('note', 'n')] + ([tuple(a['xref'])] if a.get('xref') else [])
        entry = Entry('misc', fields=fields)
        step = {'want': bool(data.want_entry(a['key'])), 'canonical': data.get_canonical_key(a['key']), 'raised': None}
        with errors.capture() as errs:
            try:
                data.add_entry(a['key'], entry)
            except Exception as e:  # noqa
                step['raised'] = canon_err(e)
            step['reported'] = [canon_err(e) for e in errs]
        step['keys'] = [e.key for e in data.entries.values()]
        if list(data.entries.keys()) != step['keys']:
            step['dict_keys'] = list(data.entries.keys())       # an entry stored under another key than its `key` attribute
        step['wanted'] = None if data.wanted_entries is None else sorted(k.lower() for k in data.wanted_entries)
        out.append(step)
    if cits is not None and cits != case['cits']:
        out.append({'inputs_not_modified': 'BibliographyData changed the wanted_entries list it was given from %r to %r' % (case['cits'], cits)})
    return out


def impl(case):
    if case['op'] == 'memohist':
        return impl_memo(case)
    if case['op'] == 'dbhist':
        return impl_db(case)
    if case['op'] == 'capturehist':
        return impl_err(case)
    return impl_world(case)


def describe(call):
    c = call['c']
    if c in ('capture', 'nonstrict'):
        return '%s(%s)' % (c, describe(call['call']))
    if c == 'climain':
        return 'climain%s(%s)' % ('--strict' if call['strict'] else '', describe(call['call']))
    if c == 'plugin':
        return '%s:%s%s' % (call['group'].split('.')[-1], call['name'], '' if call.get('text') in (DB_TEXT, YAML_TEXT, XML_TEXT, None) else '+names')
    if c in ('bibtex', 'python'):
        return '%s:%s' % (c, call['style'])
    if c == 'parse' and is_keyless(call['files']):
        return 'parse:keyless'
    if c == 'parse' and call.get('cits') is not None:
        return 'parse:wanted' 
    if c == 'lowlevel':
        return 'lowlevel:%s' % (call['arg'] if isinstance(call['arg'], str) else 'table')
    if c == 'x_find':
        return 'x_find:%s' % ('name' if call.get('name') else 'file' if call.get('filename') else 'default')
    return c


# ------------------------------------------------------------------------------------------------
# model side
# ------------------------------------------------------------------------------------------------

def to_request(case):
    if case['op'] in ('memohist', 'capturehist', 'dbhist'):
        return case
    if case['op'] == 'freshhist':
        return {'op': 'ping', 's': ''}
    calls = []
    for call, _p, _pos in flatten(case):
        if call['c'] == 'fmtmany':
            ex = expand_many(call)
            for i, c in enumerate(ex):
                calls.append(dict(c, brief=(i + 1 < len(ex))))
        else:
            calls.append(call)
    return {'op': 'worldhist', 'calls': calls}


def _fold(case, items):
    """undo the expansion of batches: one item per case-level call"""
    out = []
    i = 0
    for call, _p, _pos in flatten(case):
        if call['c'] == 'fmtmany':
            n = call['count']
            out.append(items[i:i + n])
            i += n
        else:
            out.append(items[i])
            i += 1
    return out


def _norm_res(r):
    """macro tables of readers are compared as sorted lists"""
    if isinstance(r, dict):
        if 'entries' in r and 'macros' in r:
            return dict(r, macros=sorted(r['macros']))
        if 'res' in r and 'errors' in r:
            return dict(r, res=_norm_res(r['res']))
    return r


def _norm_world(w):
    w = dict(w)
    for k in ('split_keys', 'fmt_keys'):
        if w.get(k) is not None:
            w[k] = sorted(w[k])
    return w


def model_out(case, reply):
    if case['op'] == 'dbhist':
        return [dict(st, wanted=None if st['wanted'] is None else sorted(st['wanted'])) for st in reply['out']]
    if case['op'] in ('memohist', 'capturehist'):
        return reply['out']
    if case['op'] == 'freshhist':
        return None
    out = []
    for item in _fold(case, reply['out']):
        if isinstance(item, list):
            out.append({'res': [_norm_res(x['res']) for x in item], 'world': _norm_world(item[-1]['world'])})
        else:
            out.append({'res': _norm_res(item['res']), 'world': _norm_world(item['world'])})
    return out


def compare_view(io):
    if isinstance(io, list):
        return [({k: v for k, v in s.items() if k != 'notes'} if isinstance(s, dict) and 'depth' in s else s) for s in io]
    if io.get('op') == 'freshhist':
        return None
    return [{'res': _norm_res_list(s['res']), 'world': _norm_world(s['world'])} for s in io['steps']]


def _norm_res_list(r):
    return [_norm_res(x) for x in r] if isinstance(r, list) else _norm_res(r)


def spec_results(case, reply):
    out = []
    for item in _fold(case, reply['spec']):
        out.append([_norm_res(x) for x in item] if isinstance(item, list) else _norm_res(item))
    return out


# ------------------------------------------------------------------------------------------------
# oracle
# ------------------------------------------------------------------------------------------------

def oracle(case, io, reply):
    fails = []
    if case['op'] == 'memohist':
        spec = reply.get('spec', [])
        cap = case['cap']
        for i, (step, want) in enumerate(zip(io, spec)):
            if step['r'] != want:
                fails.append('memo_transparent: call #%d of %r (capacity %d, raising %r): the memoised function returned %r, the function itself gives %r' % (
                    i, case['keys'], cap, case['raise'], step['r'], want))
                break
            if 'memory' in step:
                if len(step['memory']) > cap or step['history'] != [k for k, _ in step['memory']] or len(set(step['history'])) != len(step['history']):
                    fails.append('memo_transparent: after call #%d of %r (capacity %d): memory=%r history=%r' % (
                        i, case['keys'], cap, step['memory'], step['history']))
                    break
        return fails
    if case['op'] == 'dbhist':
        spec = reply.get('spec', [])
        prev_keys, prev_wanted = [], None
        for i, step in enumerate(io):
            if 'inputs_not_modified' in step:
                fails.append('inputs_not_modified: ' + step['inputs_not_modified'])
                break
            a = case['adds'][i]
            if step['keys'][:len(prev_keys)] != prev_keys:
                fails.append('reader_accumulates: add_entry #%d (%r) of %r (cited %r): the entries held before, %r, are not a prefix of %r' % (
                    i, a['key'], [x['key'] for x in case['adds']], case.get('cits'), prev_keys, step['keys']))
                break
            if prev_wanted is not None and (step['wanted'] is None or not set(prev_wanted) <= set(step['wanted'])):
                fails.append('reader_accumulates: add_entry #%d (%r): the wanted set shrank from %r to %r' % (i, a['key'], prev_wanted, step['wanted']))
                break
            if len(step['keys']) > len(prev_keys) and step['keys'][-1] != spec[i]:
                fails.append('reader_accumulates: add_entry #%d of %r (cited %r): the entry %r is stored as %r; the spelling of the citation list is %r' % (
                    i, [x['key'] for x in case['adds']], case.get('cits'), a['key'], step['keys'][-1], spec[i]))
                break
            if 'dict_keys' in step:
                fails.append('reader_accumulates: add_entry #%d: the dict keys %r differ from the key attributes %r' % (i, step['dict_keys'], step['keys']))
                break
            prev_keys, prev_wanted = step['keys'], step['wanted']
        return fails
    if case['op'] == 'capturehist':
        spec = reply.get('spec', [])
        for i, (op, step, want) in enumerate(zip(case['ops'], io, spec)):
            for n in step.get('notes', []):
                fails.append('errors_restored: operation #%d (%s) of %s: %s' % (i, op['o'], describe_ops(case['ops']), n))
            if op['o'] == 'exit':
                got = step['r'].get('collected') if isinstance(step['r'], dict) else step['r']
                if canon(got) != canon(want):
                    fails.append('errors_restored: the capture() block left by operation #%d of %s handed out %s; the reports made in its body outside '
                                 'inner blocks are %s' % (i, describe_ops(case['ops']), canon(got)[:300], canon(want)[:300]))
            elif op['o'] == 'report' and step['depth'] > 0 and step['r'] is not None:
                fails.append('errors_restored: operation #%d of %s: a report inside a capture() block was not collected silently: %s' % (
                    i, describe_ops(case['ops']), canon(step['r'])[:200]))
            if fails:
                break
        return fails
    # ---- histories
    fails.extend(io['notes'])
    flat = flatten(case)
    if case['op'] == 'worldhist':
        spec = spec_results(case, reply)
        for i, ((call, _p, pos), step, want) in enumerate(zip(flat, io['steps'], spec)):
            got = _norm_res_list(step['res'])
            if canon(got) != canon(want):
                fails.append('history_independent: call #%d (%s, after %d history calls) returned %s; in a fresh interpreter it returns %s' % (
                    i, describe(call), pos, canon(got)[:400], canon(want)[:400]))
                break
    if not any(f.startswith('history_independent: probe') for f in fails):
        # digests of the concrete probe outcomes at every position against the digests from the fresh interpreter processes
        # (the readable difference is in the notes above; this loop is the clause itself)
        for pos, fulls in enumerate(io['probe_full']):
            bad = [j for j, (got, want) in enumerate(zip(fulls, io['fresh'])) if got != want]
            if bad:
                fails.append('history_independent: probe %s after %d history calls [%s] differs from the same computation in a fresh interpreter process (digest %s vs %s)' % (
                    describe(case['probe'][bad[0]]), pos, ', '.join(describe(h) for h in case['history'][:pos]), fulls[bad[0]], io['fresh'][bad[0]]))
                break
    for step in io['steps']:
        w = step['world']
        if w['strict'] is not True or w['captured'] is not None or w['plugins'] != 0:
            fails.append('errors_restored: after a call strict=%r captured_errors=%r runtime plug-ins=%r' % (w['strict'], w['captured'], w['plugins']))
            break
    return fails


def describe_ops(ops):
    return '[' + ', '.join({'report': 'report(%s)' % (op.get('e') or {}).get('k'), 'strict': 'strict(%s)' % op.get('b'),
                            'enter': 'enter', 'exit': 'exit'}.get(op['o'], op['o']) for op in ops) + ']'


def _first_diff(a, b):
    sa, sb = canon(a), canon(b)
    i = 0
    while i < min(len(sa), len(sb)) and sa[i] == sb[i]:
        i += 1
    return '...%s| here %r' % (sa[max(0, i - 60):i], sa[i:i + 120]) + ' / fresh has %r' % sb[i:i + 120]


def buckets(case, io):
    if case['op'] == 'memohist':
        ev = sum(len(s.get('evicted', [])) for s in io)
        return ['memo:cap=%d' % case['cap'], 'memo:evictions>0' if ev else 'memo:no-eviction']
    if case['op'] == 'dbhist':
        steps = [st for st in io if 'keys' in st]
        return ['dbhist', 'db:filtered' if case.get('cits') is not None else 'db:all'] + sorted(
            {'db:repeated' for st in steps if st['reported']} | {'db:dropped' for st in steps if not st['want']} |
            {'db:respelt' for st, a in zip(steps, case['adds']) if st['canonical'] != a['key']} |
            {'db:crossref-wanted' for st, a in zip(steps, case['adds']) if a.get('xref') and st['want'] and case.get('cits') is not None})
    if case['op'] == 'capturehist':
        kinds = set()
        for s in io:
            r = s['r']
            kinds.add('err:' + (r if isinstance(r, str) else 'none' if r is None else sorted(r)[0]))
        return ['capturehist', 'err:maxdepth=%d' % max([s['depth'] for s in io] + [0])] + sorted(kinds)
    return [case['op']] + sorted({'call:' + describe(h) for h in case['history']})


def nontrivial(case, io):
    if case['op'] == 'memohist':
        return len(set(case['keys'])) > case['cap']
    if case['op'] == 'dbhist':
        return len(case['adds']) > 1
    if case['op'] == 'capturehist':
        return any(op['o'] == 'report' for op in case['ops']) and any(op['o'] == 'enter' for op in case['ops'])
    return len(case['history']) > 0


def corpus():
    return corpus_for(ID)


# ------------------------------------------------------------------------------------------------
# generators
# ------------------------------------------------------------------------------------------------

MACROS = ['foo', 'Foo', 'bar', 'jan', 'FEB', 'baz']
UNDEF = ['nope', 'ipl']
WORDS = ['Alpha', 'Beta gamma', 'J. Algebra', '1999', 'X', 'Notes on Y', '12']
AUTHORS = ['Knuth, Donald E.', 'Leslie Lamport', 'Jean de la Fontaine and Knuth, Donald E.', 'A, B, C, D',
           'von Neumann, John and others', 'Knuth, Donald E. and A, B, C, D']
FORMATS = ['{ff~}{vv~}{ll}{, jj}', '{vv~}{ll}{, jj}{, f.}', '{ll}', '{f.~}{ll}', '{ff', '{ff}}']
KEYS = ['k1', 'k2', 'K1', 'smith99']
IDENT = re.compile(r'^[A-Za-z][A-Za-z0-9]*$')
LIT = re.compile(r'^(?:[A-Za-z0-9.,]+(?: [A-Za-z0-9.,]+)*)?$')


def _lit(s):
    return {'lit': s}


def gen_free_doc(rng, crossref=False):
    doc = []
    for _ in range(rng.randint(1, 4)):
        r = rng.random()
        parts = lambda: [(_lit(rng.choice(WORDS)) if rng.random() < 0.55 else {'ref': rng.choice(MACROS + UNDEF)}) for _ in range(rng.randint(1, 2))]
        if r < 0.4:
            doc.append({'k': 'string', 'name': rng.choice(MACROS), 'val': parts()})
        elif r < 0.5:
            doc.append({'k': 'preamble', 'val': parts()})
        else:
            fields = []
            for name in rng.sample(['title', 'Title', 'note', 'month', 'journal', 'author', 'editor'], rng.randint(1, 4)):
                if name in ('author', 'editor'):
                    fields.append([name, [_lit(rng.choice(AUTHORS))]])
                else:
                    fields.append([name, parts()])
            if crossref and rng.random() < 0.5:
                fields.insert(rng.randint(0, len(fields)), [rng.choice(['crossref', 'crossref', 'Crossref']), [_lit(rng.choice(KEYS + ['K2']))]])
            doc.append({'k': 'entry', 'type': rng.choice(['article', 'Misc', 'book']), 'key': rng.choice(KEYS), 'fields': fields})
    return doc


def make_keyless(docs):
    """the same documents written for a key-less reader: no entry has a key"""
    return [[({'k': 'keyless', 'type': c['type'], 'fields': c['fields']} if c['k'] == 'entry' else c) for c in d] for d in docs]


def gen_engine_doc(rng):
    """complete entries, every macro defined (own @string or a month): the styles do not warn"""
    doc = []
    defined = []
    for name in rng.sample(['foo', 'bar', 'jan'], rng.randint(0, 2)):
        doc.append({'k': 'string', 'name': name, 'val': [_lit(rng.choice(['Foo Journal', 'Bar Press', 'Jan']))]})
        defined.append(name)
    if rng.random() < 0.3:
        doc.append({'k': 'preamble', 'val': [_lit('Pre')]})
    val = lambda: [({'ref': rng.choice(defined)} if defined and rng.random() < 0.4 else _lit(rng.choice(WORDS[:3])))]
    for key in rng.sample(KEYS, rng.randint(1, 3)):
        fields = [['author', [_lit(rng.choice(AUTHORS))]], ['title', val()], ['year', [_lit('1999')]]]
        if rng.random() < 0.5:
            fields.append(['month', [{'ref': rng.choice(['jan', 'feb', 'dec'])}]])
        if rng.random() < 0.25:
            # an OPTIONAL field whose macro only another style defines (or nobody): reported, stands for '', no style warning
            fields.append(['note', [{'ref': rng.choice(['zzleak', 'zzleak', 'nope', 'acmcs'])}]])
        if rng.random() < 0.7:
            doc.append({'k': 'entry', 'type': 'article', 'key': key, 'fields': fields + [['journal', val()]]})
        else:
            doc.append({'k': 'entry', 'type': 'book', 'key': key, 'fields': fields + [['publisher', val()]]})
    return doc


def _mode(rng, call, strict_ok=True):
    r = rng.random()
    if r < 0.45:
        return {'c': 'capture', 'call': call}
    if r < 0.75:
        return {'c': 'nonstrict', 'call': call}
    return call


def _safe_mode(rng, call):
    """like _mode; a non-strict engine run that would PRINT a located problem (see _valid_call) is captured instead"""
    m = _mode(rng, call)
    return m if _valid_call(m) else {'c': 'capture', 'call': call}


def gen_fmtname(rng):
    names = rng.choice(AUTHORS)
    count = len(re.split(r' and ', names))
    n = rng.randint(1, count) if rng.random() < 0.72 else rng.choice([0, count + 1, -1])
    return {'c': 'fmtname', 'names': names, 'n': n, 'fmt': rng.choice(FORMATS)}


def gen_climain(rng):
    if rng.random() < 0.6:
        inner = {'c': 'parse', 'files': [rng.choice([gen_free_doc(rng), PDOC, PDOC_UNDEF, PDOC_UNDEF])]}
    else:
        inner = {'c': 'python', 'style': rng.choice(['unsrt', 'plain', 'nosuch']), 'files': [rng.choice([gen_engine_doc(rng), PDOC])]}
    call = {'c': 'climain', 'strict': rng.random() < 0.25, 'call': inner}
    return _cap(call) if rng.random() < 0.15 else call


def gen_call(rng):
    r = rng.random()
    if r < 0.15:
        call = {'c': 'parse', 'files': [gen_free_doc(rng, crossref=True) for _ in range(rng.randint(1, 2))]}
        r2 = rng.random()
        if r2 < 0.4:                     # reading filtered by a citation list (wanted_entries)
            call['cits'] = rng.sample(KEYS + ['K2', 'SMITH99', '*'], rng.randint(0, 3))
        elif r2 < 0.6:                   # a key-less reader (one or two files), sometimes filtered as well
            call['files'] = make_keyless(call['files'])
            if rng.random() < 0.3:
                call['cits'] = rng.sample(['unnamed-1', 'UNNAMED-2', 'unnamed-3', 'k1', '*'], rng.randint(1, 2))
        return _mode(rng, call)
    if r < 0.22:
        arg = 'default' if rng.random() < 0.7 else {'table': [[k, rng.choice(WORDS)] for k in rng.sample(MACROS, rng.randint(0, 2))]}
        doc = gen_free_doc(rng)
        return {'c': 'lowlevel', 'arg': arg, 'doc': make_keyless([doc])[0] if rng.random() < 0.15 else doc}
    if r < 0.37:
        return _mode(rng, gen_fmtname(rng))
    if r < 0.54:
        style = rng.choice(['unsrt', 'unsrt', 'plain', 'plain', 'tiny', 'tiny', 'tiny', 'nosuch'])
        if style == 'tiny' and rng.random() < 0.5:
            files = [gen_free_doc(rng) for _ in range(rng.randint(1, 2))]
        else:
            files = [gen_engine_doc(rng) for _ in range(rng.randint(1, 2))]
        return _safe_mode(rng, {'c': 'bibtex', 'style': style, 'files': files})
    if r < 0.66:
        style = rng.choice(['unsrt', 'plain', 'alpha', 'unsrtalpha', 'nosuch'])
        return _safe_mode(rng, {'c': 'python', 'style': style, 'files': [gen_engine_doc(rng)]})
    if r < 0.73:
        return _mode(rng, {'c': 'plugin', 'group': 'pybtex.database.input', 'name': rng.choice(['yaml', 'bibtexml', 'nosuch']),
                           'text': None})
    if r < 0.81:
        return _mode(rng, {'c': 'plugin', 'group': 'pybtex.database.output', 'name': rng.choice(['bibtex', 'yaml', 'bibtexml', 'nosuch']), 'text': DB_TEXT})
    if r < 0.88:
        return _mode(rng, {'c': 'plugin', 'group': 'pybtex.style.formatting', 'name': rng.choice(['unsrt', 'plain', 'alpha']), 'text': DB_TEXT})
    return gen_climain(rng)


def gen_history(rng, maxh):
    """1..maxh calls; now and then an earlier call of the history is made AGAIN later (compared with its first outcome)"""
    hist = [_fix_plugin_text(gen_call(rng)) for _ in range(rng.randint(1, maxh))]
    if len(hist) < maxh and rng.random() < 0.35:
        again = json.loads(json.dumps(rng.choice(hist)))
        hist.insert(rng.randint(hist.index(again) + 1, len(hist)), again)
    return hist


def _fix_plugin_text(call):
    c = call
    while c['c'] in ('capture', 'nonstrict', 'climain'):
        c = c['call']
    if c['c'] == 'plugin' and c['text'] is None:
        c['text'] = {'yaml': YAML_TEXT, 'bibtexml': XML_TEXT}.get(c['name'], YAML_TEXT)
    return call


PDOC = [
    {'k': 'string', 'name': 'foo', 'val': [_lit('Foo Journal')]},
    {'k': 'preamble', 'val': [_lit('Pre'), {'ref': 'foo'}]},
    {'k': 'entry', 'type': 'article', 'key': 'p1', 'fields': [
        ['author', [_lit('Knuth, Donald E. and A, B, C, D')]], ['title', [_lit('Alpha')]], ['journal', [{'ref': 'foo'}]],
        ['year', [_lit('1999')]], ['month', [{'ref': 'jan'}]]]},
    {'k': 'entry', 'type': 'book', 'key': 'p2', 'fields': [
        ['author', [_lit('Jean de la Fontaine')]], ['title', [_lit('Beta gamma')]], ['publisher', [_lit('P'), {'ref': 'foo'}]],
        ['year', [_lit('1668')]]]},
]
PDOC_UNDEF = [{'k': 'entry', 'type': 'misc', 'key': 'q', 'fields': [['note', [{'ref': 'foo'}, {'ref': 'feb'}]], ['title', [{'ref': 'nope'}]]]}]


def _cap(c):
    return {'c': 'capture', 'call': c}


def _ns(c):
    return {'c': 'nonstrict', 'call': c}


PROBES = [
    [_cap({'c': 'parse', 'files': [PDOC, PDOC_UNDEF]}), _cap({'c': 'bibtex', 'style': 'unsrt', 'files': [PDOC]}),
     _cap({'c': 'python', 'style': 'unsrt', 'files': [PDOC]}), {'c': 'fmtname', 'names': 'Knuth, Donald E. and Leslie Lamport', 'n': 2, 'fmt': '{vv~}{ll}{, jj}{, f.}'}],
    [_cap({'c': 'parse', 'files': [PDOC_UNDEF]}), _ns({'c': 'bibtex', 'style': 'plain', 'files': [PDOC]}),
     _ns({'c': 'python', 'style': 'alpha', 'files': [PDOC]}), _cap({'c': 'fmtname', 'names': 'A, B, C, D', 'n': 1, 'fmt': '{ll}'})],
    [{'c': 'parse', 'files': [PDOC_UNDEF]}, {'c': 'bibtex', 'style': 'unsrt', 'files': [PDOC]},
     _cap({'c': 'python', 'style': 'plain', 'files': [PDOC]}), {'c': 'fmtname', 'names': 'Knuth, Donald E. and A, B, C, D', 'n': 1, 'fmt': '{ff~}{vv~}{ll}{, jj}'}],
]

# probes of the kinds the original three sets do not contain: the other two readers, the three writers, format_bibliography
# on a retained database object, the check's own .bst style (no month macros; its own macro `zzleak`), a name number out of
# range, the command-line entry points
PDOC_ZZ = [{'k': 'entry', 'type': 'article', 'key': 'z1', 'fields': [
    ['author', [_lit('Leslie Lamport')]], ['title', [_lit('Alpha')]], ['journal', [_lit('J. Algebra')]], ['year', [_lit('1999')]],
    ['month', [{'ref': 'dec'}]], ['note', [{'ref': 'zzleak'}]]]}]


def _plug(group, name, text):
    return {'c': 'plugin', 'group': 'pybtex.' + group, 'name': name, 'text': text}


PROBES += [
    [_plug('database.input', 'yaml', YAML_TEXT), _plug('database.input', 'bibtexml', XML_TEXT),
     _cap({'c': 'bibtex', 'style': 'tiny', 'files': [PDOC]}), _plug('style.formatting', 'plain', DB_TEXT)],
    [_plug('database.output', 'bibtex', DB_TEXT), _plug('database.output', 'yaml', DB_TEXT), _plug('database.output', 'bibtexml', DB_TEXT),
     {'c': 'climain', 'strict': False, 'call': {'c': 'parse', 'files': [PDOC]}}],
    [_cap({'c': 'bibtex', 'style': 'unsrt', 'files': [PDOC_ZZ]}), _cap({'c': 'bibtex', 'style': 'tiny', 'files': [PDOC_ZZ, PDOC]}),
     {'c': 'climain', 'strict': False, 'call': {'c': 'python', 'style': 'unsrt', 'files': [PDOC]}},
     _cap({'c': 'fmtname', 'names': 'Knuth, Donald E. and Leslie Lamport', 'n': 0, 'fmt': '{ff~}{vv~}{ll}{, jj}'})],
    [_plug('style.formatting', 'unsrt', DB_TEXT), _plug('style.formatting', 'alpha', DB_TEXT),
     {'c': 'climain', 'strict': True, 'call': {'c': 'parse', 'files': [PDOC_UNDEF]}},
     {'c': 'fmtname', 'names': 'Leslie Lamport', 'n': 2, 'fmt': '{ll}'}],
]


# reading filtered by a citation list: only the child is cited (in another spelling); its parent p9 follows it and is read
# because the child refers to it; k1, k2, smith99 are not wanted
PDOC_XREF = [
    {'k': 'entry', 'type': 'misc', 'key': 'c1', 'fields': [['title', [_lit('Alpha')]], ['crossref', [_lit('p9')]]]},
    {'k': 'entry', 'type': 'misc', 'key': 'k1', 'fields': [['note', [{'ref': 'nope'}]]]},
    {'k': 'entry', 'type': 'misc', 'key': 'k2', 'fields': [['note', [_lit('X')]], ['Crossref', [_lit('smith99')]]]},
    {'k': 'entry', 'type': 'misc', 'key': 'smith99', 'fields': [['note', [_lit('12')]]]},
    {'k': 'entry', 'type': 'book', 'key': 'p9', 'fields': [['title', [_lit('Beta gamma')]], ['author', [_lit('Leslie Lamport')]]]},
]
PROBES += [
    [_cap({'c': 'parse', 'cits': ['C1'], 'files': [PDOC_XREF]}), _ns({'c': 'parse', 'cits': ['K2', '*', 'k2'], 'files': [PDOC_XREF, PDOC_UNDEF]}),
     _cap({'c': 'bibtex', 'style': 'plain', 'files': [PDOC_ZZ]}),
     _ns({'c': 'fmtname', 'names': 'Knuth, Donald E. and Leslie Lamport', 'n': 3, 'fmt': '{vv~}{ll}{, jj}{, f.}'})],
]


def _pool():
    """history calls that are ALWAYS compared with a fresh interpreter process (a finite set, warmed up once per run)"""
    base = []
    for name in ('yaml', 'bibtexml', 'nosuch'):
        base.append(_plug('database.input', name, {'yaml': YAML_TEXT, 'bibtexml': XML_TEXT}.get(name, YAML_TEXT)))
    for name in ('bibtex', 'yaml', 'bibtexml', 'nosuch'):
        base.append(_plug('database.output', name, DB_TEXT))
    for name in ('unsrt', 'plain', 'alpha'):
        base.append(_plug('style.formatting', name, DB_TEXT))
    out = []
    for c in base:
        out += [c, _cap(c), _ns(c)]
    for strict in (False, True):
        for inner in ({'c': 'parse', 'files': [PDOC]}, {'c': 'parse', 'files': [PDOC_UNDEF]},
                      {'c': 'python', 'style': 'unsrt', 'files': [PDOC]}, {'c': 'python', 'style': 'plain', 'files': [PDOC]},
                      {'c': 'python', 'style': 'nosuch', 'files': [PDOC]}):
            c = {'c': 'climain', 'strict': strict, 'call': inner}
            out += [c, _cap(c)]
    return out


POOL = _pool()
POOL_KEYS = frozenset(canon(c) for c in POOL)

XPROBE = [_cap({'c': 'x_parse', 'file': 'xampl.bib'}), _cap({'c': 'x_bibtex', 'bib': 'xampl.bib', 'style': 'unsrt'}),
          _cap({'c': 'x_python', 'bib': 'xampl.bib', 'style': 'unsrt'}), {'c': 'fmtname', 'names': 'Knuth, Donald E. and Leslie Lamport', 'n': 1, 'fmt': '{ff~}{vv~}{ll}{, jj}'}]
KNOWN_CALLS = frozenset(canon(c) for c in [p for ps in PROBES for p in ps] + POOL + XPROBE)



XCITS = [None, None, ['whole-set', 'inbook-minimal', 'article-full'], ['book-crossref', 'inbook-crossref', 'whole-collection', 'nosuchkey'],
         ['ARTICLE-FULL', 'article-minimal', '*']]
KEYLESS_COUNT = {'@misc{title = "A"} @misc{title = "B", note = jan} @misc{title = "C"}': 3, '@misc{title = "D"}': 1,
                 '@string{s = "S"} @book{title = s} @misc{title = "F", crossref = "unnamed-1"}': 2}
KEYLESS = list(KEYLESS_COUNT) + ['@misc{title = "A"} @misc{named, title = "B"} @misc{title = "C"}']


def gen_xcall(rng):
    r = rng.random()
    if r < 0.22:
        bib = rng.choice(['xampl.bib', 'cyrillic.bib'])
        return _mode(rng, {'c': 'x_bibtex', 'bib': bib, 'style': rng.choice(['unsrt', 'plain', 'alpha']),
                           'cits': rng.choice(XCITS) if bib == 'xampl.bib' else None})
    if r < 0.44:
        bib = rng.choice(['xampl.bib', 'cyrillic.bib', 'extrafields.bib'])
        return _mode(rng, {'c': 'x_python', 'bib': bib,
                           'style': rng.choice(['unsrt', 'plain', 'alpha', 'unsrtalpha']),
                           'backend': rng.choice(['latex', 'html', 'plaintext', 'markdown']),
                           'cits': rng.choice(XCITS) if bib == 'xampl.bib' else None})
    if r < 0.5:
        # entries without keys (unnamed-entry counter), one reader over one or two files, optionally filtered
        return _mode(rng, {'c': 'x_keyless', 'texts': rng.sample(KEYLESS, rng.randint(1, 3)), 'cits': rng.choice([None, None, None, ['unnamed-1', 'named']])})
    if r < 0.65:
        return _cap({'c': 'x_convert', 'file': rng.choice(['xampl.bib', 'cyrillic.bib']), 'fmt': rng.choice(['bibtex', 'yaml', 'bibtexml'])})
    if r < 0.8:
        return _mode(rng, {'c': 'x_text', 'text': rng.choice(['@article{a, title = {unclosed', '@string{jan = "X"} @misc{m, month = jan, note = zzz}',
                                                           '@misc{a, author = "A, B, C, D and ~"} @misc{a}', 'entries: [1, 2'])
                           , 'fmt': rng.choice(['bibtex', 'bibtex', 'yaml'])})
    if r < 0.86:
        return {'c': 'lowlevel', 'arg': 'default', 'doc': [{'k': 'string', 'name': rng.choice(['jan', 'zz']), 'val': [_lit('X')]}]}
    if r < 0.91:
        return _mode(rng, {'c': 'x_find', 'group': rng.choice(['pybtex.backends', 'pybtex.database.input', 'pybtex.style.names', 'pybtex.nosuchgroup']),
                           'name': rng.choice([None, None, 'md', 'bibyaml', 'last_first', 'latex', 'nosuch', '']),
                           'filename': rng.choice([None, 'a.bib', 'dir.d/b.yaml', 'c.md', '.bib', 'noext'])})
    if r < 0.95:
        return _mode(rng, {'c': 'x_climain_args', 'argv': rng.choice([[], ['--strict'], ['only-one.bib'], ['--strict', 'a.bib', 'b.yaml', 'c.txt']])})
    return gen_call(rng)


def names_cases():
    """(gap c18-6) the fixed person-list databases through every formatting style and writer, the database object retained
    (see the `plugin` branch of _base_call): 3 histories per database"""
    cases = []
    F = lambda name, t: _plug('style.formatting', name, t)
    W = lambda name, t: _plug('database.output', name, t)
    for i, t in enumerate(NAME_TEXTS):
        cases.append({'op': 'worldhist', 'fresh': 'all', 'probe': PROBES[6],
                      'history': [F('alpha', t), W('yaml', t), F('unsrtalpha', t)]})
        cases.append({'op': 'worldhist', 'fresh': 'all', 'probe': PROBES[4],
                      'history': [F('plain', t), F('unsrt', t), W('bibtex', t), W('bibtexml', t)]})
        cases.append({'op': 'worldhist', 'fresh': 'all', 'probe': PROBES[i % len(PROBES)],
                      'history': [_ns(F('unsrtalpha', t)), _cap(F('alpha', t)), _cap(F('plain', t)), _ns(W('bibtex', t)), F('alpha', t)]})
    return cases


def gen_names_call(rng):
    t = gen_names_text(rng) if rng.random() < 0.8 else rng.choice(NAME_TEXTS)
    if rng.random() < 0.7:
        call = _plug('style.formatting', rng.choice(['alpha', 'alpha', 'unsrtalpha', 'unsrtalpha', 'plain', 'unsrt']), t)
    else:
        call = _plug('database.output', rng.choice(['bibtex', 'yaml', 'bibtexml']), t)
    return _mode(rng, call)


def memo_cases():
    cases = []
    for cap, raising, maxlen in ((2, [], 6), (3, [], 6), (2, [3], 6), (1, [], 4), (1, [0], 4)):
        for n in range(0, maxlen + 1):
            for keys in itertools.product(range(4), repeat=n):
                cases.append({'op': 'memohist', 'cap': cap, 'keys': list(keys), 'raise': raising})
    return cases


ERR_POOL = [{'k': 'other', 'tag': 'PybtexError'}, {'k': 'invalid', 'name': 'A, B, C, D'}, {'k': 'nosuch', 'n': 3, 'names': 'Knuth, Donald E. and Leslie Lamport'},
            {'k': 'other', 'tag': 'BibTeXError'}, {'k': 'nosuch', 'n': -1, 'names': 'A'}, {'k': 'invalid', 'name': 'a, b, c, d, e'}]
ERR_ALPHABET = [{'o': 'report', 'e': ERR_POOL[0]}, {'o': 'report', 'e': ERR_POOL[1]}, {'o': 'strict', 'b': False}, {'o': 'strict', 'b': True},
                {'o': 'enter'}, {'o': 'exit'}]


def _valid_ops(ops):
    depth = 0
    for op in ops:
        if op['o'] == 'enter':
            depth += 1
        elif op['o'] == 'exit':
            depth -= 1
            if depth < 0:
                return False
        elif op['o'] == 'report':
            e = op['e']
            if e['k'] == 'other' and e['tag'] not in ('PybtexError', 'BibTeXError'):
                return False
            if e['k'] == 'invalid' and not re.match(r'^[A-Za-z ,.]*$', e['name']):
                return False
            if e['k'] == 'nosuch' and not (isinstance(e['n'], int) and re.match(r'^[A-Za-z ,.]*$', e['names'])):
                return False
            if e['k'] not in ('other', 'invalid', 'nosuch'):
                return False
        elif op['o'] != 'strict' or not isinstance(op['b'], bool):
            return False
    return True


def err_cases(tier, rng):
    cases = []
    for n in range(0, 6):
        for ops in itertools.product(ERR_ALPHABET, repeat=n):
            if _valid_ops(ops):
                cases.append({'op': 'capturehist', 'ops': list(ops)})
    n_exh = len(cases)
    for _ in range(300 if tier == 'quick' else 4000):
        ops, depth = [], 0
        for _i in range(rng.randint(3, 14)):
            r = rng.random()
            if r < 0.4:
                ops.append({'o': 'report', 'e': rng.choice(ERR_POOL)})
            elif r < 0.5:
                ops.append({'o': 'strict', 'b': rng.random() < 0.5})
            elif r < 0.75 or depth == 0:
                ops.append({'o': 'enter'})
                depth += 1
            else:
                ops.append({'o': 'exit'})
                depth -= 1
        if rng.random() < 0.7:           # close everything, then something at top level again
            ops += [{'o': 'exit'}] * depth + [{'o': 'report', 'e': rng.choice(ERR_POOL)}]
        cases.append({'op': 'capturehist', 'ops': ops})
    return cases, n_exh


DB_KEYS = ['a', 'A', 'b', 'p']


def db_cases(tier, rng):
    """EVERY citation list of <= 2 elements over {a, A, b, *} (or no filtering) x EVERY sequence of <= 3 add_entry calls over
    4 keys x {no crossref, crossref -> p}; plus seeded longer ones"""
    cases = []
    cit_lists = [None] + [list(c) for n in range(0, 3) for c in itertools.product(['a', 'A', 'b', '*'], repeat=n)]
    adds1 = [{'key': k} for k in DB_KEYS] + [{'key': k, 'xref': ['crossref', 'p']} for k in ('a', 'b')] + [{'key': 'a', 'xref': ['Crossref', 'B']}]
    for cits in cit_lists:
        for n in range(1, 4 if tier != 'quick' else 3):
            for adds in itertools.product(adds1, repeat=n):
                cases.append({'op': 'dbhist', 'cits': cits, 'adds': list(adds)})
    n_exh = len(cases)
    pool = ['k1', 'K1', 'k2', 'smith99', 'SMITH99', 'p9', 'unnamed-1']
    for _ in range(200 if tier == 'quick' else 2000):
        cits = None if rng.random() < 0.25 else rng.sample(pool + ['*'], rng.randint(0, 4))
        adds = []
        for _i in range(rng.randint(2, 7)):
            a = {'key': rng.choice(pool)}
            if rng.random() < 0.4:
                a['xref'] = [rng.choice(['crossref', 'CrossRef']), rng.choice(pool)]
            adds.append(a)
        cases.append({'op': 'dbhist', 'cits': cits, 'adds': adds})
    return cases, n_exh


def valid_case(case):
    try:
        if case['op'] == 'memohist':
            return case['cap'] >= 1 and all(isinstance(k, int) for k in case['keys'])
        if case['op'] == 'freshhist':
            return True
        if case['op'] == 'capturehist':
            return _valid_ops(case['ops'])
        if case['op'] == 'dbhist':
            ok = lambda k: isinstance(k, str) and re.match(r'^[A-Za-z0-9*-]+$', k) is not None
            return (case.get('cits') is None or all(ok(k) for k in case['cits'])) and all(
                ok(a['key']) and (not a.get('xref') or (a['xref'][0].lower() == 'crossref' and ok(a['xref'][1]))) for a in case['adds'])
        return all(_valid_call(c) for c in list(case['history']) + list(case['probe']))
    except Exception:
        return False


def _valid_doc(doc, engine, defined0):
    defined = set(defined0)
    for c in doc:
        parts = c['val'] if c['k'] in ('string', 'preamble') else [p for _n, v in c['fields'] for p in v]
        for p in parts:
            if 'lit' in p:
                if not LIT.match(p['lit']):
                    return False
            elif not IDENT.match(p['ref']):
                return False
        if engine is True:
            # the styles of tests/data warn about empty required fields (un-modelled): every macro must be defined, except in
            # the optional field `note`
            checked = c['val'] if c['k'] in ('string', 'preamble') else [p for n, v in c['fields'] if n != 'note' for p in v]
            if any('ref' in p and p['ref'].lower() not in defined for p in checked):
                return False
        if c['k'] == 'string':
            if not IDENT.match(c['name']) or not c['val']:
                return False
            defined.add(c['name'].lower())
        elif c['k'] == 'preamble':
            if not c['val']:
                return False
        else:
            if c['k'] == 'keyless' and engine is not False:
                return False              # the engines do not make key-less readers
            if c['k'] not in ('entry', 'keyless'):
                return False
            if not IDENT.match(c['type']) or c['type'].lower() in ('string', 'preamble', 'comment') or (c['k'] == 'entry' and not IDENT.match(c['key'])):
                return False
            if not c['fields'] or any(not IDENT.match(n) or not v for n, v in c['fields']):
                return False
            if engine == 'tiny':
                # corpus/C18/tiny.bst warns about nothing, but the model formats the names of every NON-EMPTY author field
                for n, v in c['fields']:
                    if n.lower() == 'author' and not (len(v) == 1 and v[0].get('lit') in AUTHORS):
                        return False
            if engine is True:
                names = [n for n, _v in c['fields']]
                need = {'article': ['author', 'title', 'journal', 'year'], 'book': ['author', 'title', 'publisher', 'year']}.get(c['type'])
                if need is None or any(n not in names for n in need) or len(set(names)) != len(names) or any(n != n.lower() for n in names):
                    return False
                for n, v in c['fields']:
                    if any('lit' in p and not p['lit'] for p in v):
                        return False
                    if n == 'author' and not (len(v) == 1 and v[0].get('lit') in AUTHORS):
                        return False
    return True


MONTHS = ['jan', 'feb', 'mar', 'apr', 'may', 'jun', 'jul', 'aug', 'sep', 'oct', 'nov', 'dec']


def _all_defined(files, defined0):
    defined = set(defined0)
    for d in files:
        for c in d:
            parts = c['val'] if c['k'] in ('string', 'preamble') else [p for _n, v in c['fields'] for p in v]
            if any('ref' in p and p['ref'].lower() not in defined for p in parts):
                return False
            if c['k'] == 'string':
                defined.add(c['name'].lower())
    return True


def _one_kind(docs):
    """a document is written for a key-less reader or for an ordinary one (for the other one it is a chain of syntax errors)"""
    kinds = {c['k'] for d in docs for c in d if c['k'] in ('entry', 'keyless')}
    return len(kinds) <= 1


def _valid_call(call, warns=False):
    """`warns`: the call runs at top level in non-strict mode (problems are PRINTED)"""
    c = call['c']
    if canon(call) in KNOWN_CALLS:      # the fixed probes and pool calls
        return True
    if c == 'parse' and not _one_kind(call['files']):
        return False
    if c == 'lowlevel' and not _one_kind([call['doc']]):
        return False
    if c == 'climain' and is_keyless(call['call'].get('files', [])):
        return False
    if c == 'capture':
        return call['call']['c'] not in ('fmtmany',) and _valid_call(call['call'], False)
    if c == 'nonstrict':
        return call['call']['c'] not in ('fmtmany',) and _valid_call(call['call'], True)
    # (round 2) an engine run over in-memory strings in non-strict mode that PRINTS a located problem (undefined macro) is driven
    # too: the crash it ended in (AttributeError in pybtex.io._decode_filename, the "file name" being a StringIO) is repaired
    # in /repo (e1a501a)
    if c == 'climain':
        inner = call['call']
        return (isinstance(call['strict'], bool) and inner['c'] in ('parse', 'python') and len(inner['files']) == 1 and _valid_call(inner)
                and (inner['c'] == 'parse' or inner['style'] in ('unsrt', 'plain', 'nosuch')))
    if c == 'parse':
        if call.get('cits') is not None and not (isinstance(call['cits'], list) and all(k == '*' or re.match(r'^[A-Za-z][A-Za-z0-9-]*$', k) for k in call['cits'])):
            return False
        return len(call['files']) >= 1 and all(_valid_doc(d, False, MONTHS) for d in call['files'])
    if c == 'lowlevel':
        if call['arg'] != 'default' and not (isinstance(call['arg'], dict) and all(IDENT.match(k) and LIT.match(v) for k, v in call['arg']['table'])
                                             and len({k for k, _v in call['arg']['table']}) == len(call['arg']['table'])):
            return False
        return _valid_doc(call['doc'], False, MONTHS)
    if c == 'fmtname':
        return call['names'] in AUTHORS + [PROBES[0][3]['names']] and -1 <= call['n'] <= len(call['names'].split(' and ')) + 1 and call['fmt'] in FORMATS
    if c in ('bibtex', 'python'):
        defined = set(MONTHS)
        for d in call['files']:
            if not _valid_doc(d, 'tiny' if (c == 'bibtex' and call['style'] == 'tiny') else True, defined):
                return False
            defined |= {x['name'].lower() for x in d if x['k'] == 'string'}
        return len(call['files']) >= 1 and call['style'] in ('unsrt', 'plain', 'alpha', 'unsrtalpha', 'nosuch', 'tiny') and (
            c == 'python' or call['style'] in ('unsrt', 'plain', 'nosuch', 'tiny')) and (c == 'bibtex' or call['style'] != 'tiny')
    if c == 'plugin':
        names = {'pybtex.database.input': ('yaml', 'bibtexml', 'nosuch'), 'pybtex.database.output': ('bibtex', 'yaml', 'bibtexml', 'nosuch'),
                 'pybtex.style.formatting': ('unsrt', 'plain', 'alpha', 'unsrtalpha')}
        if call['name'] not in names.get(call['group'], ()):
            return False
        if call['group'] == 'pybtex.database.input':
            return call['text'] == {'yaml': YAML_TEXT, 'bibtexml': XML_TEXT}.get(call['name'], YAML_TEXT)
        return db_text_ok(call['text'])     # DB_TEXT or a database of the person-list family (names_text)
    if c == 'fmtmany':
        return call['count'] >= 1 and call['fmt'] in FORMATS[:4] and IDENT.match(call['prefix']) is not None
    return False


def gen_cases(tier, rng, info):
    cases = memo_cases()
    n_memo = len(cases)
    ecases, n_err_exh = err_cases(tier, rng)
    cases += ecases
    dcases, n_db_exh = db_cases(tier, rng)
    cases += dcases
    quick = tier == 'quick'
    maxh = 5 if quick else 8
    n_world = 840 if quick else 6400
    world = []
    n_fresh_all = 140 if quick else 1600
    for i in range(n_world):
        case = {'op': 'worldhist', 'history': gen_history(rng, maxh), 'probe': PROBES[i % len(PROBES)]}
        if i < n_fresh_all:
            case['fresh'] = 'all'       # EVERY history call of this case is also run in a fresh interpreter process
        world.append(case)
    # more distinct format.name$ calls than the caches hold, then everything again
    big = 1100 if quick else 2100
    for j, mode in enumerate(['plain', 'capture'] if quick else ['plain', 'capture', 'nonstrict']):
        world.append({'op': 'worldhist', 'probe': PROBES[j % len(PROBES)], 'history': [
            {'c': 'fmtmany', 'prefix': 'Name', 'start': 0, 'count': big, 'fmt': FORMATS[j % 2], 'mode': mode},
            _cap({'c': 'bibtex', 'style': 'plain', 'files': [PDOC]}),
            {'c': 'fmtmany', 'prefix': 'Name', 'start': big - 40, 'count': 60, 'fmt': FORMATS[j % 2], 'mode': mode, 'first': 'Ann B.'},
            {'c': 'fmtmany', 'prefix': 'Name', 'start': 0, 'count': 30, 'fmt': FORMATS[2], 'mode': 'plain'}]})
    name_cases = names_cases()           # deterministic: no draw from rng
    fresh_cases = []
    for i in range(24 if quick else 160):
        fresh_cases.append({'op': 'freshhist', 'history': [gen_xcall(rng) for _ in range(rng.randint(1, 3 if quick else 6))], 'probe': XPROBE,
                            'fresh': 'all'})
    for c in fresh_cases:
        for h in c['history']:
            _fix_plugin_text(h)
    hist_calls = [h for c in world + name_cases + fresh_cases if c.get('fresh') == 'all' for h in c['history'] if h['c'] != 'fmtmany']
    prewarm([p for c in world + name_cases + fresh_cases for p in c['probe']], forked=POOL + hist_calls)
    # the forked children against separately started interpreters, on a sample (a difference is a defect of the harness)
    sample = rng.sample(hist_calls, min(len(hist_calls), 6 if quick else 40))
    for c in sample:
        if canon(_spawn_fresh(c)) != canon(_FRESH[canon(c)]):
            raise RuntimeError('forked fresh child and fresh interpreter process differ on %s' % canon(c)[:300])
    # (gap c18-6) seeded histories in which databases with RANDOM person lists are formatted / written (drawn after everything
    # else: the stream of the older families is unchanged)
    n_det = len(name_cases)
    for i in range(16 if quick else 400):
        hist = []
        for _ in range(rng.randint(1, 3 if quick else 6)):
            hist.append(gen_names_call(rng) if rng.random() < 0.65 else _fix_plugin_text(gen_call(rng)))
        case = {'op': 'worldhist', 'history': hist, 'probe': PROBES[i % len(PROBES)]}
        if quick or i < 120:
            case['fresh'] = 'all'
        name_cases.append(case)
    prewarm([], forked=[h for c in name_cases[n_det:] if c.get('fresh') == 'all' for h in c['history'] if h['c'] != 'fmtmany'])
    info['exhaustive'] = True
    info['scope'] = ('namehist (worldhist over person-list databases): %d fixed histories = 3 databases (1..6 names, with / without a trailing "and others", author / editor, '
                     'article / book / inbook / proceedings / manual) x 3 histories over {format_bibliography with alpha, unsrtalpha, plain, unsrt; to_string bibtex, yaml, bibtexml}, '
                     'plain / capture() / non-strict, + %d seeded histories with random person lists; ' % (n_det, len(name_cases) - n_det) +'capturehist: all %d operation sequences of length <= 5 over 6 operations that never leave a block they did not enter + %d seeded ones of length <= 15; ' % (
        n_err_exh, len(ecases) - n_err_exh) + 'dbhist: all %d (citation list of <= 2 over 4 spellings or none) x (add_entry sequences of <= %d over 7 entries) + %d seeded; ' % (
        n_db_exh, 2 if quick else 3, len(dcases) - n_db_exh) + 'memohist: all %d key sequences (capacity 2, 3: length <= 6 over 4 keys; capacity 2 with a raising key; capacity 1: length <= 4); '
                     'worldhist: %d seeded histories of <= %d calls x probe at every position (+ %d cache-overflow histories with %d distinct '
                     'format.name$ arguments); freshhist: %d concrete histories over tests/data' % (
                         n_memo, n_world, maxh, len(world) - n_world, big, len(fresh_cases)))
    # spread the expensive histories evenly through the list so that the worker pool shares them
    heavy = world[:48] + world[n_world:] + name_cases + fresh_cases + world[48:n_world]
    out = []
    every = max(1, len(cases) // max(1, len(heavy)))
    hi = 0
    for i, c in enumerate(cases):
        if i % every == 0 and hi < len(heavy):
            out.append(heavy[hi])
            hi += 1
        out.append(c)
    return out + heavy[hi:]


LEVEL_TEXT = ('Machine-checked proofs (Lean 4) over an explicit model of the process-global state of pybtex (module-level month table with its '
              'aliasing, the two memoize closures, errors.*, the run-time plug-in registry): the invariant of memoize holds after EVERY call '
              'sequence and makes a memoised call transparent (also beyond capacity, also for the nested name caches); no history of public calls '
              'changes the month table / strict / registry; two readers are independent while the files of one reader accumulate; the result of '
              'every call is a function of the call and the constant part of the world (simulation over cache contents and error_code), hence for '
              'every finite history h and probe p: result p (run h w0) = result p w0 -- command-line main() in-process included (its exit status is '
              'that of this run only and the strict mode is put back); format.name$ with a name number outside 1..count reports and yields the '
              'empty string from any cache state.  Tied to the code by a correspondence check that drives the '
              'real memoize exhaustively over small scopes and real API histories call by call (results, month table, errors.*, registry and both '
              'cache key lists compared with the model), by comparing every probe -- and the concrete outcome of history calls -- with a fresh '
              'interpreter process and with the first occurrence of the same call, and by deep-freezing every database object before / after it is '
              'formatted or written.  Round 2: pybtex/errors.py is also modelled operation by operation with an explicit stack of capture() frames '
              '(any nesting, entered in any state: leaving re-installs the value seen on entry, error_code and everything else untouched, the list handed '
              'out is what the text of the body says) and driven function by function (op capturehist: exhaustive to length 5 + random); '
              'BibliographyData(wanted_entries)/add_entry/want_entry/get_canonical_key are driven call by call (op dbhist); the world\'s find_plugin is '
              'proved equal to C17\'s function-level model of find_plugin on an empty registry; the constants of the model are regenerated from the '
              'source text and kernel-checked against the definitions.')
LEVEL_NOTE = ('PARTIAL BY NATURE.  Modelled: month_names (one table; Parser copies it, LowLevelParser writes to the table it is given), '
              'memoize (dict + FIFO deque, regenerated capacity) instantiated as in builtins.py, the format.name$ built-in with its range check, '
              'errors.strict/error_code/captured_errors with report_error/capture/set_strict_mode, CommandLine.main (the one entry point that writes '
              'strict and reads error_code), _RUNTIME_PLUGINS as read by find_plugin, a fresh BibliographyData (with its own wanted_entries / citations '
              'sets when reading is filtered) and macro copy per reader, '
              'a fresh Interpreter per BibTeX-engine run (its macro table regenerated from the .bst files, incl. the check\'s own tiny.bst).  ASSUMED, '
              'not proved: every other piece of '
              'pybtex (bst interpreter, styles, backends, YAML/BibTeXML readers, writers, name code) is a pure function that reaches the named state '
              'only through report_error, format.name$, find_plugin and a fresh .bib reader (parameter `Fns`, interaction tree `Prog`); hidden caches '
              'of re, PyYAML, xml, latexcodec, importlib.metadata are covered only empirically by the fresh-process comparison; so is the '
              'citation handling of the engines after reading.  .bib text is '
              'abstracted to its command sequence (tokenising is C01).  error_code is sticky by design (process exit status): the theorems show no '
              'result reads it except main(), which resets it first (C18-3).  Histories are taken at top level (captured_errors None).  "Public" in the theorems is the predicate '
              'Call.isPublic, which excludes exactly one ordinary API call: LowLevelParser(text, macros=<the module\'s own month_names dict>) (it writes the table: C18_months_constant_neg_aliased).  '
              'Month-table constancy and reader isolation then hold BY CONSTRUCTION of a model without aliasing (the modelling of fix C18-1), as does "main() ignores the accumulated error_code" '
              '(the model of C18-3 resets it): what carries these claims for the Python code is the correspondence (month table, errors.* compared after every call; fresh-interpreter probes).  "Inputs never '
              'modified" is a claim about Python object '
              'state that the pure model cannot express: it is checked on the implementation only (every attribute of the database deep-frozen '
              'before/after to_string, format_bibliography and format_entries; multi-element citation and entry lists compared).  The model follows '
              'proposed_fixes/C18-1.diff (LowLevelParser default macros), C18-2.diff (name problems reported on cache hits as on misses), '
              'C18-3.diff (CommandLine.main) and C18-4.diff (unnamed-entry counter per reader); the pre-fix behaviours are kept expressible and '
              'their failure is proved (C18_months_constant_neg_aliased, C18_cli_main_neg_pinned, C18_reader_accumulates_neg_pinned).  Memo keys: Python equality of (str, int, str) tuples is taken to be structural.  '
              'Round 2: the stack model of errors.py (Model/ErrorsStack.lean) needs no top-level hypothesis (C18_capture_restores holds from any state); the World theorems '
              'still do, and C18_world_capture_is_stack_block only WIRES Call.capture / Call.nonstrict to the stack machine.  register_plugin / enumerate_plugin_names are not '
              'calls of the C18 alphabet (C17 models them): "the registry stays empty" is what C18_find_plugin_is_the_code uses.  coverage/C18.md lists every function, how it '
              'is tied and what is still hard-coded (name format strings of the test styles in the driver, message texts in the harness\'s canon_err).')
